import numpy as np, torch
from gymnasium import spaces
from tensordict import TensorDict
from agilerl.algorithms.dqn_rainbow import RainbowDQN
from agilerl.wrappers.agent import RSNorm
torch.manual_seed(0); np.random.seed(0)
obs_space = spaces.Box(-10, 10, (4,), np.float32)
agent = RSNorm(RainbowDQN(obs_space, spaces.Discrete(2), batch_size=8, n_step=3))
for _ in range(20):
    agent.get_action(np.random.normal(5.0, 2.0, (1, 4)).astype(np.float32))   # statistics far from (0, 1)
def batch():
    return TensorDict({"obs": torch.full((8, 4), 5.0), "action": torch.zeros(8, 1, dtype=torch.long), "reward": torch.ones(8, 1),
                       "next_obs": torch.full((8, 4), 5.0), "done": torch.zeros(8, 1), "idxs": torch.arange(8).unsqueeze(1), "weights": torch.ones(8, 1)}, batch_size=[8])
seen = {}
inner = agent.agent_learn
def spy(experiences, n_experiences=None, per=False):
    seen["one"] = experiences["obs"].clone(); seen["n"] = n_experiences["obs"].clone()
    return inner(experiences, n_experiences=n_experiences, per=per)
agent.agent_learn = spy
agent.learn(batch(), n_experiences=batch())
d = (seen["one"] - seen["n"]).abs().max().item()
print("1-step obs seen by learn:", seen["one"][0, :2].tolist(), " n-step obs:", seen["n"][0, :2].tolist(), " diff", d)
raise SystemExit(0 if d < 1e-6 else 1)
