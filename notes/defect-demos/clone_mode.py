import torch, numpy as np
from agilerl.modules.cnn import EvolvableCNN
torch.manual_seed(0)
net = EvolvableCNN(input_shape=(3, 16, 16), num_outputs=4, channel_size=[8], kernel_size=[3], stride_size=[1], layer_norm=True)
x = torch.rand(5, 3, 16, 16)
net.train(); [net(torch.rand(8, 3, 16, 16)) for _ in range(3)]
net.eval()
c = net.clone()
d = (net(x) - c(x)).abs().max().item()
print("clone.training", c.training, "max diff", d)
raise SystemExit(0 if d < 1e-6 else 1)
