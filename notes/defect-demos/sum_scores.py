import sys, numpy as np
from gymnasium import spaces
from agilerl.algorithms.maddpg import MADDPG
from agilerl.algorithms.ippo import IPPO
from agilerl.components.multi_agent_replay_buffer import MultiAgentReplayBuffer
from agilerl.training.train_multi_agent_off_policy import train_multi_agent_off_policy
from agilerl.training.train_multi_agent_on_policy import train_multi_agent_on_policy

class PZ:
    metadata = {}
    def __init__(self):
        self.possible_agents = ["x_0", "y_0"]
        self.agents = list(self.possible_agents)
        self._o = spaces.Box(0, 1, (4,), np.float32)
        self._a = spaces.Discrete(2)
    def observation_space(self, a): return self._o
    def action_space(self, a): return self._a
    def reset(self, seed=None, options=None):
        self.t = 0
        return {a: self._o.sample() for a in self.agents}, {a: {} for a in self.agents}
    def step(self, acts):
        self.t += 1
        d = self.t >= 1000   # longer than one generation
        return ({a: self._o.sample() for a in self.agents}, {a: 1.0 for a in self.agents}, {a: d for a in self.agents},
                {a: False for a in self.agents}, {a: {} for a in self.agents})
env = PZ()
obs_spaces = [env._o for _ in env.agents]; act_spaces = [env._a for _ in env.agents]
net_config = {"encoder_config": {"hidden_size": [8]}, "head_config": {"hidden_size": [8]}}
if sys.argv[1] == "off":
    agent = MADDPG(obs_spaces, act_spaces, agent_ids=env.agents, net_config=net_config, batch_size=4, learn_step=1)
    mem = MultiAgentReplayBuffer(100, field_names=["obs", "action", "reward", "next_obs", "done"], agent_ids=env.agents)
    pop, fit = train_multi_agent_off_policy(env, "v", "MADDPG", [agent], mem, sum_scores=False, max_steps=24, evo_steps=12, eval_steps=3, eval_loop=1, verbose=False)
else:
    agent = IPPO(obs_spaces, act_spaces, agent_ids=env.agents, net_config=net_config, batch_size=4, learn_step=6)
    pop, fit = train_multi_agent_on_policy(env, "v", "IPPO", [agent], sum_scores=False, max_steps=24, evo_steps=12, eval_steps=3, eval_loop=1, verbose=False)
print("OK", fit)
