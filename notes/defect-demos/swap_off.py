import numpy as np, gymnasium as gym, torch
from gymnasium import spaces
from agilerl.algorithms.dqn import DQN
from agilerl.components.replay_buffer import ReplayBuffer
from agilerl.training.train_off_policy import train_off_policy
from agilerl.utils.utils import make_vect_envs

class ImgEnv(gym.Env):
    observation_space = spaces.Box(0, 1, (8, 10, 3), np.float32)
    action_space = spaces.Discrete(2)
    def reset(self, *, seed=None, options=None):
        self.t = 0
        return self.observation_space.sample(), {}
    def step(self, a):
        self.t += 1
        return self.observation_space.sample(), 1.0, self.t >= 5, False, {}

env = gym.vector.SyncVectorEnv([lambda: ImgEnv() for _ in range(2)])
obs_space = spaces.Box(0, 1, (3, 8, 10), np.float32)
net_config = {"encoder_config": {"channel_size": [4], "kernel_size": [3], "stride_size": [1]}, "head_config": {"hidden_size": [8]}}
agent = DQN(obs_space, ImgEnv.action_space, net_config=net_config, batch_size=4, learn_step=1)
mem = ReplayBuffer(max_size=100)
pop, fit = train_off_policy(env, "img", "DQN", [agent], mem, swap_channels=True, max_steps=40, evo_steps=20, eval_steps=5, eval_loop=1, verbose=False)
print("OK", fit)
