import numpy as np, torch
from agilerl.modules.resnet import EvolvableResNet
np.random.seed(0)
net = EvolvableResNet(input_shape=(3, 16, 16), num_outputs=4, channel_size=16, kernel_size=3, stride_size=1, num_blocks=1)
net.add_channel()
print(type(net.channel_size), net.channel_size)
c = net.clone()
print("clone ok", c.channel_size)
