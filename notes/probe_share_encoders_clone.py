import os, sys
sys.path.insert(0, os.getcwd())
import torch, numpy as np
torch.set_num_threads(1)
from gymnasium import spaces
from tensordict import TensorDict
from agilerl.algorithms.ddpg import DDPG
from agilerl.algorithms.td3 import TD3
def batch(seed, n=32):
    g = torch.Generator().manual_seed(seed)
    return TensorDict({"obs": torch.randn(n,4,generator=g),"action": torch.rand(n,2,generator=g)*2-1,"reward": torch.randn(n,1,generator=g),"next_obs": torch.randn(n,4,generator=g),"done": torch.zeros(n,1)}, batch_size=[n])
obs_space = spaces.Box(-1,1,(4,),dtype=np.float32); act_space = spaces.Box(-1,1,(2,),dtype=np.float32)
for cls in (DDPG, TD3):
  for share in (True, False):
    torch.manual_seed(0); np.random.seed(0)
    a = cls(obs_space, act_space, share_encoders=share, policy_freq=1 if cls is DDPG else 2)
    for i in range(4):
        torch.manual_seed(100+i); a.learn(batch(i))
    c = a.clone()
    b = batch(99)
    crit = "critic" if cls is DDPG else "critic_1"
    with torch.no_grad():
        qa = getattr(a, crit)(b["obs"], b["action"]); qc = getattr(c, crit)(b["obs"], b["action"])
    torch.manual_seed(5); la = a.learn(batch(50)); torch.manual_seed(5); lc = c.learn(batch(50))
    print(cls.__name__, "share_encoders=", share, "| critic output equal right after clone:", torch.equal(qa, qc), "max diff", float((qa-qc).abs().max()), "| learn:", la, lc)
