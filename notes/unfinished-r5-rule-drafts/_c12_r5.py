"""Form-independent restatements of two C12 obligations (helper module of c12), added after the fifth round (behaviour-preserving refactoring).

* C12.2  what `process_transition` returns contains the placeholder-completed dictionaries: decided on the def-use closure of the returned value
         (plain bindings, element stores `x[k] = v`, `x.append(v)` ..., loop targets), so a dict built by a comprehension and one filled key by key
         in a loop through a temporary are the same thing.
* C12.5  `PettingZooVecEnv.step` lists the actions per environment in self.agents order: stated over the statement that stores an action read
         `actions[a][e]` into a list (the leaf store), the loops that enclose it (innermost: over self.agents, binding a; next: the environment loop,
         binding e by enumerate / range) and the list the leaf store writes to (the handed list's element e, or a fresh list of this iteration of the
         environment loop that is appended to the handed list after the agent loop).
"""
from __future__ import annotations

import ast
from typing import Dict, List, Optional, Tuple

from ..cfg import CFG, Node
from ..core import Fn, Repo, call_name, calls_in, dotted, last_attr
from ..report import Check

_STORE_METHODS = ("append", "extend", "insert", "add", "update", "appendleft")


def _stored_at(cfg: CFG, d: Node, key: str) -> List[ast.AST]:
    """the expressions whose value definition node d puts into `key` (binding, element store, container method, loop target)."""
    v = cfg.value_of_def(d, key)
    if v is not None:
        return [v]
    s = d.ast
    if d.kind == "stmt":
        if isinstance(s, (ast.Assign, ast.AnnAssign, ast.AugAssign)) and s.value is not None:
            return [s.value]
        if isinstance(s, ast.Expr) and isinstance(s.value, ast.Call) and last_attr(s.value) in _STORE_METHODS:
            return list(s.value.args) + [k.value for k in s.value.keywords]
    if d.kind == "for":
        return [s.iter]  # type: ignore[attr-defined]
    return []


def flows_into(cfg: CFG, at: Node, e: ast.AST, limit: int = 400) -> List[Tuple[Node, ast.AST]]:
    """(node, expression) pairs whose value can become (part of) what `e` evaluates to at `at`: the def-use closure over strong and weak
    definitions of the locals mentioned."""
    out: List[Tuple[Node, ast.AST]] = []
    seen = set()
    work = [(at, e)]
    while work and len(out) < limit:
        n, x = work.pop()
        if (n.id, id(x)) in seen:
            continue
        seen.add((n.id, id(x)))
        out.append((n, x))
        for nm in {y.id for y in ast.walk(x) if isinstance(y, ast.Name) and isinstance(y.ctx, ast.Load)}:
            for d in cfg.defs_reaching(n, nm):
                for v in _stored_at(cfg, d, nm):
                    work.append((d, v))
    return out


def returns_completed(cfg: CFG, r: Node, callee: str) -> bool:
    """some value flowing into what `r` returns is computed by a call of `callee`."""
    return any(isinstance(y, ast.Call) and call_name(y) == callee for _, x in flows_into(cfg, r, r.ast.value) for y in ast.walk(x))


# ------------------------------------------------------------------------------------------------
def _bound(cfg: CFG, at: Optional[Node], e: ast.AST, hops: int = 4) -> List[ast.AST]:
    """`e` with locals that are plain temporaries replaced by what they are bound to (every reaching definition)."""
    if at is None or hops == 0 or not isinstance(e, ast.Name):
        return [e]
    ds = cfg.defs_reaching(at, e.id)
    vs = [cfg.value_of_def(d, e.id) for d in ds]
    if not ds or any(v is None for v in vs):
        return [e]
    return [b for d, v in zip(ds, vs) for b in _bound(cfg, d, v, hops - 1)]


def _reads(cfg: CFG, at: Optional[Node], e: ast.AST, hops: int = 4) -> List[ast.Subscript]:
    """the element-of-element reads `x[a][b]` the value of `e` is computed from (through temporaries)."""
    out: List[ast.Subscript] = []
    for x in ast.walk(e):
        if isinstance(x, ast.Subscript) and isinstance(x.value, ast.Subscript):
            out.append(x)
        elif isinstance(x, ast.Name) and isinstance(x.ctx, ast.Load) and hops and at is not None:
            for d in cfg.defs_reaching(at, x.id):
                v = cfg.value_of_def(d, x.id)
                if v is not None:
                    out += _reads(cfg, d, v, hops - 1)
    return out


def _index_var(loop: ast.For) -> Optional[str]:
    """the local that counts the iterations of the loop from 0: enumerate's counter, or the element of range(...)."""
    if isinstance(loop.iter, ast.Call) and call_name(loop.iter) == "enumerate" and isinstance(loop.target, ast.Tuple) \
            and loop.target.elts and isinstance(loop.target.elts[0], ast.Name) and len(loop.iter.args) == 1:
        return loop.target.elts[0].id
    if isinstance(loop.iter, ast.Call) and call_name(loop.iter) == "range" and len(loop.iter.args) == 1 and isinstance(loop.target, ast.Name):
        return loop.target.id
    return None


class StepOrdering:
    """roles in PettingZooVecEnv.step: leaf stores of action reads, their agent / environment loops, the list handed to step_async."""

    def __init__(self, st: Fn):
        self.st = st
        self.cfg = CFG(st.node)
        params = [p for p in st.named_params if p != "self"]
        self.param = params[0] if params else "actions"
        self.parent: Dict[int, ast.AST] = {}
        for p in ast.walk(st.node):
            for c in ast.iter_child_nodes(p):
                self.parent[id(c)] = p
        self.handed = {dotted(c.args[0]) for c in calls_in(st.node) if call_name(c) == "self.step_async" and c.args and isinstance(c.args[0], ast.Name)}
        # leaf stores: <list>.append(v) where v is computed from reads param[..][..]
        self.apps: List[ast.Call] = []
        for c in calls_in(st.node):
            if last_attr(c) == "append" and len(c.args) == 1 and isinstance(c.func.value, (ast.Subscript, ast.Name)):
                if any(dotted(x.value.value) == self.param for x in self.reads(c)):
                    self.apps.append(c)

    def reads(self, c: ast.Call) -> List[ast.Subscript]:
        return _reads(self.cfg, self.cfg.node_of(c), c.args[0])

    def loops(self, x: ast.AST) -> List[ast.For]:
        """enclosing for-loops, innermost first."""
        out = []
        while id(x) in self.parent:
            x = self.parent[id(x)]
            if isinstance(x, ast.For):
                out.append(x)
        return out

    def over_agents(self, loop: ast.For) -> bool:
        n = self.cfg.node_of(loop)
        return all(dotted(b) == "self.agents" for b in _bound(self.cfg, n, loop.iter))

    def roles(self, c: ast.Call) -> Optional[Tuple[ast.For, ast.For, str, str]]:
        """(agent loop, environment loop, agent variable, environment index variable) of a leaf store, when it has that shape."""
        lp = self.loops(c)
        if len(lp) != 2 or not self.over_agents(lp[0]) or not isinstance(lp[0].target, ast.Name):
            return None
        evar = _index_var(lp[1])
        if evar is None or lp[0] not in lp[1].body:
            return None
        return lp[0], lp[1], lp[0].target.id, evar

    def own_environment(self, c: ast.Call) -> bool:
        """the list the leaf store writes to is the handed list's element of this environment."""
        r = self.roles(c)
        if r is None:
            return False
        aloop, eloop, _, evar = r
        recv = c.func.value
        if isinstance(recv, ast.Subscript):
            return dotted(recv.value) in self.handed and dotted(recv.slice) == evar
        # a list of this iteration: created empty in the environment loop before the agent loop, appended to the handed list after it
        n = self.cfg.node_of(c)
        strong = [d for d in self.cfg.defs_reaching(n, recv.id) if self.cfg.value_of_def(d, recv.id) is not None]
        fresh = len(strong) == 1 and strong[0].ast in eloop.body and eloop.body.index(strong[0].ast) < eloop.body.index(aloop) and \
            _empty_list(self.cfg.value_of_def(strong[0], recv.id))
        after = [s for s in eloop.body[eloop.body.index(aloop) + 1:] if isinstance(s, ast.Expr) and isinstance(s.value, ast.Call)
                 and last_attr(s.value) == "append" and dotted(s.value.func.value) in self.handed
                 and len(s.value.args) == 1 and dotted(s.value.args[0]) == recv.id]
        # the handed list starts empty, so position e is the list of iteration e
        starts_empty = all(_empty_list(self.cfg.value_of_def(d, h)) for s in after for h in [dotted(s.value.func.value)]
                           for d in self.cfg.defs_reaching(self.cfg.node_of(s), h) if self.cfg.value_of_def(d, h) is not None)
        return fresh and len(after) == 1 and starts_empty


def _empty_list(v: Optional[ast.AST]) -> bool:
    return (isinstance(v, ast.List) and not v.elts) or (isinstance(v, ast.Call) and call_name(v) == "list" and not v.args and not v.keywords)
