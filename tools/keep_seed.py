#!/usr/bin/env python3
"""keep_seed.py <prop> <worktree> <n> <short-name> "<needs>" "<ran>" "<caught_by>" : copy a confirmed seeded change into /verif/seeded/."""
import json, os, shutil, sys
prop, wt, n, name, needs, ran, caught = sys.argv[1:8]
dst = f"/verif/seeded/{prop}-{name}"
os.makedirs(dst, exist_ok=True)
src = f"{wt}/seeded/{n}"
for f in os.listdir(src):
    if os.path.isfile(os.path.join(src, f)):
        shutil.copy(os.path.join(src, f), os.path.join(dst, f))
meta = {"property": prop, "breaks": open(os.path.join(src, "notes.md")).read().split("\n\n")[0][:600] if os.path.exists(os.path.join(src, "notes.md")) else "",
        "needs_to_manifest": needs, "confirmed_by": ran, "detected_by": caught, "origin": "independent sub-agent given only the property text"}
json.dump(meta, open(os.path.join(dst, "meta.json"), "w"), indent=1)
print("kept", dst)
