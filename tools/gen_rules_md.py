#!/usr/bin/env python3
"""Regenerate /verif/RULES.md (rule texts, obligation counts, not-decided lists) from the evidence files of the last run."""
import json, os
HERE = os.path.dirname(os.path.dirname(os.path.abspath(__file__)))
out = ["# Rules as built (generated from /verif/evidence/*.json by tools/gen_rules_md.py)\n",
       "Counts are obligations evaluated on the tree the evidence was produced from.\n"]
tot = 0
for i in range(1, 21):
    p = f"C{i:02d}"
    fp = os.path.join(HERE, "evidence", f"{p}.json")
    if not os.path.exists(fp):
        continue
    d = json.load(open(fp))["coverage"]
    tot += d["obligations"]
    out.append(f"## {p} — {d['obligations']} obligations, {d['discharged']} discharged, {d['known_findings']} known findings\n")
    for rid, txt in sorted(d["rules"].items()):
        pr = d["per_rule"].get(rid, {})
        out.append(f"* `{rid}` ({pr.get('obligations', 0)} obligations): {txt}")
    nd = d.get("not_decided", [])
    if nd:
        out.append("* **not decided:** " + "; ".join(nd))
    tb = d.get("trusted_base", [])
    if tb:
        out.append("* trusted base: " + "; ".join(tb))
    out.append("")
out.append(f"Total: {tot} obligations.\n")
open(os.path.join(HERE, "RULES.md"), "w").write("\n".join(out))
print("RULES.md written,", tot, "obligations")
