#!/bin/bash
# usage: run_all_seeds.sh [pattern] : apply every kept seeded change to /repo in turn, run the quick check of its property, expect exit 1; always revert.
# Benign refactorings (seeded/benign-*) are expected to leave every check at exit 0.
pat="${1:-}"
exec 9>/tmp/agilint_repo.lock; flock 9   # one user of /repo at a time
cd /repo || exit 9
if [ -n "$(git status --porcelain --untracked-files=no)" ]; then echo "REPO DIRTY"; exit 9; fi
bad=0
for d in /verif/seeded/*${pat}*/; do
  n=$(basename "$d")
  case "$n" in _withdrawn) continue;; esac
  [ -f "$d/patch.diff" ] || continue
  if ! git -C /repo apply --check "$d/patch.diff" 2>/dev/null; then echo "SKIP   $n (patch no longer applies)"; continue; fi
  git -C /repo apply "$d/patch.diff"
  if [[ "$n" == benign-* ]]; then
    props=$(python3 -c "import json;print(' '.join(json.load(open('$d/meta.json')).get('checked_props', [])))")
    want=0
  else
    props=$(python3 -c "import json;print(json.load(open('$d/meta.json'))['property'])")
    want=1
  fi
  res=""
  tag=$$
  (cd /verif && printf '%s\n' $props | xargs -P 10 -I{} sh -c '/venv/bin/python -m agilint check {} --tier quick > /tmp/seedrun_'$tag'_{}.out 2>&1; echo $? > /tmp/seedrun_'$tag'_{}.rc')
  for p in $props; do
    rc=$(cat /tmp/seedrun_${tag}_$p.rc); rm -f /tmp/seedrun_${tag}_$p.rc /tmp/seedrun_${tag}_$p.out
    res="$res $p=$rc"
    if [ "$rc" != "$want" ]; then bad=$((bad+1)); res="$res(!)"; fi
  done
  git -C /repo checkout -- .
  echo "DONE   $n:$res"
done
echo "unexpected results: $bad"
