#!/usr/bin/env python3
"""keep_r5.py <prop> : keep the confirmed round-5 deliverables of /tmp/w5_<prop> (verdicts from tools/process_r5.sh in /tmp/r5) under /verif/seeded/."""
import json, os, re, shutil, sys
p = sys.argv[1]; wt = f"/tmp/w5_{p}"
def slug(s):
    s = re.sub(r"[`'\"*#]", "", s.lower()); s = re.sub(r"[^a-z0-9]+", "-", s).strip("-")
    return "-".join(s.split("-")[:7])[:60]
for n in ("1", "2", "benign"):
    f = f"/tmp/r5/{p}_{n}.txt"
    if not os.path.exists(f): print("no verdict", p, n); continue
    line = open(f).read().strip()
    m = re.search(r"demo clean=(\d+) patched=(\d+) \| tests\[(.*?)\]: (.*?) \| checks: (.*)$", line)
    if not m: print("SKIP", line); continue
    rc_c, rc_p, tests, tres, chk = m.groups()
    reg = re.search(r"not passing now: (\d+)", tres)
    nreg = int(reg.group(1)) if reg else -1
    src = f"{wt}/seeded/{n}"
    notes = open(f"{src}/notes.md").read() if os.path.exists(f"{src}/notes.md") else ""
    first = [l for l in notes.split("\n") if l.strip()][0] if notes.strip() else n
    if n == "benign":
        ok = rc_c == "0" and rc_p == "0" and nreg == 0
        dst = f"/verif/seeded/benign-{p}-r5"
        meta = {"property": p, "kind": "behaviour-preserving refactoring (must leave every check at exit 0)", "what": notes.split("\n\n")[0][:600],
                "checked_props": [f"C{i:02d}" for i in range(1, 21)], "first_run": chk, "generalised": "",
                "confirmed_by": f"demo.py exit 0 with and without the patch; {tests.strip()} with the patch: {tres.strip()}",
                "origin": "independent sub-agent given only the property text (round 5)"}
    else:
        ok = rc_c == "0" and rc_p != "0" and nreg == 0
        dst = f"/verif/seeded/{p}-r5-{slug(first)}"
        meta = {"property": p, "breaks": notes.split("\n\n")[0][:600], "needs_to_manifest": (notes.split("\n\n")[1][:500] if len(notes.split("\n\n")) > 1 else ""),
                "confirmed_by": f"scratch worktree: demo.py exit {rc_c} without / exit {rc_p} with the patch; {tests.strip()} with the patch: {tres.strip()}",
                "first_run": chk, "detected_by": "" if "MISSED" in chk else f"agilint check {p} (first run, unseen)",
                "origin": "independent sub-agent given only the property text (round 5)"}
    if not ok:
        print(f"NOT KEPT {p}/{n}: {line[:300]}"); continue
    os.makedirs(dst, exist_ok=True)
    for g in os.listdir(src):
        if os.path.isfile(os.path.join(src, g)): shutil.copy(os.path.join(src, g), os.path.join(dst, g))
    for g in os.listdir("/tmp/r5"):
        if g.startswith(f"{p}_{n}_chk_"): shutil.copy(f"/tmp/r5/{g}", os.path.join(dst, "first_run_" + g.split("_chk_")[1]))
    json.dump(meta, open(os.path.join(dst, "meta.json"), "w"), indent=1)
    print("kept", dst, "|", chk[:150])
