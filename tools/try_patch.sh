#!/bin/bash
# usage: try_patch.sh <patch.diff> <prop> [<prop>...] : apply to /repo, run quick checks (in parallel), always revert
patch="$1"; shift
exec 9>/tmp/agilint_repo.lock; flock 9   # one user of /repo at a time
cd /repo || exit 9
if [ -n "$(git status --porcelain --untracked-files=no)" ]; then echo "REPO DIRTY"; exit 9; fi
git apply "$patch" || { echo "PATCH DOES NOT APPLY"; exit 9; }
cd /verif
tag=$$
printf '%s\n' "$@" | xargs -P 10 -I{} sh -c '/venv/bin/python -m agilint check {} --tier quick > /tmp/try_'$tag'_{}.out 2>&1; echo $? > /tmp/try_'$tag'_{}.rc'
for p in "$@"; do
  rc=$(cat /tmp/try_${tag}_$p.rc)
  echo "== $p rc=$rc"; grep -A4 "^VIOLATION\|^ANALYSIS" /tmp/try_${tag}_$p.out | grep -v "^  rule" | head -12
  cp /tmp/try_${tag}_$p.out /tmp/try_$p.out; [ -n "$TRY_OUT" ] && [ "$rc" != 0 ] && cp /tmp/try_${tag}_$p.out ${TRY_OUT}_$p.out; rm -f /tmp/try_${tag}_$p.out /tmp/try_${tag}_$p.rc
done
git -C /repo checkout -- .
