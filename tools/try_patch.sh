#!/bin/bash
# usage: try_patch.sh <patch.diff> <prop> [<prop>...] : apply to /repo, run quick checks, always revert
patch="$1"; shift
exec 9>/tmp/agilint_repo.lock; flock 9   # one user of /repo at a time
cd /repo || exit 9
if [ -n "$(git status --porcelain --untracked-files=no)" ]; then echo "REPO DIRTY"; exit 9; fi
git apply "$patch" || { echo "PATCH DOES NOT APPLY"; exit 9; }
cd /verif
for p in "$@"; do
  /venv/bin/python -m agilint check "$p" --tier quick > /tmp/try_$p.out 2>&1; rc=$?
  echo "== $p rc=$rc"; grep -A4 "^VIOLATION\|^ANALYSIS" /tmp/try_$p.out | grep -v "^  rule" | head -12
done
git -C /repo checkout -- .
