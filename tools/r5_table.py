#!/usr/bin/env python3
"""r5_table.py : markdown table of the round-5 seeded changes from their meta.json (first-run verdict, and the verdict now if tools/run_all_seeds.sh output is given as argv[1])."""
import glob, json, os, re, sys
now = {}
if len(sys.argv) > 1:
    for l in open(sys.argv[1]):
        m = re.match(r"DONE\s+(\S+):(.*)", l)
        if m: now[m.group(1)] = m.group(2).strip()
rows = []
for d in sorted(glob.glob("/verif/seeded/*r5*")):
    n = os.path.basename(d); m = json.load(open(d + "/meta.json"))
    what = (m.get("breaks") or m.get("what") or "").replace("\n", " ").replace("|", "/")
    what = re.sub(r"^#+\s*", "", what)[:150]
    kind = "refactoring" if n.startswith("benign-") else "breaking"
    fr = m.get("first_run", "").replace("== ", "").strip()
    if kind == "breaking": fr = "MISSED" if "MISSED" in fr else "reported"
    else: fr = "accepted by all 20" if fr.startswith("all 20") else "false alarm: " + fr
    rows.append((m["property"], kind, n, what, fr, now.get(n, "")))
print("| property | kind | kept as | change | first run (unseen) | now |\n|---|---|---|---|---|---|")
for r in sorted(rows): print("| " + " | ".join(r) + " |")
b = [r for r in rows if r[1] == "breaking"]; g = [r for r in rows if r[1] == "refactoring"]
print(f"\nbreaking: {sum(r[4]=='reported' for r in b)} of {len(b)} reported at first run; refactorings: {sum(r[4].startswith('accepted') for r in g)} of {len(g)} accepted at first run")
