#!/bin/bash
# usage: try_patch_wt.sh <worktree> <n> <prop>... : apply seeded/<n>/patch.diff inside the scratch worktree, run checks with --repo <worktree>, revert
wt="$1"; n="$2"; shift 2
cd "$wt" || exit 9
git checkout -q -- agilerl
git apply seeded/$n/patch.diff || { echo "PATCH DOES NOT APPLY"; exit 9; }
cd /verif
for p in "$@"; do
  /venv/bin/python -m agilint check "$p" --tier quick --repo "$wt" > /tmp/trywt_$p.out 2>&1; rc=$?
  echo "== $p rc=$rc"; grep -A4 "^VIOLATION\|^ANALYSIS" /tmp/trywt_$p.out | grep -v "^  rule" | head -12
done
git -C "$wt" checkout -q -- agilerl
