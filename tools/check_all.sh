#!/bin/bash
# usage: check_all.sh [props...] : run the quick checks on /repo under the repo lock (nobody applies a seed meanwhile); prints one line per property
exec 9>/tmp/agilint_repo.lock; flock 9
if [ -n "$(git -C /repo status --porcelain --untracked-files=no)" ]; then echo "REPO DIRTY"; exit 9; fi
props="$@"; [ -z "$props" ] && props="C01 C02 C03 C04 C05 C06 C07 C08 C09 C10 C11 C12 C13 C14 C15 C16 C17 C18 C19 C20"
cd /verif
for p in $props; do /venv/bin/python -m agilint check $p > /tmp/chk_$p.txt 2>&1; echo "$p rc=$? $(grep -m1 'tier=' /tmp/chk_$p.txt | cut -c1-110)"; done
