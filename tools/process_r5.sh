#!/bin/bash
# usage: process_r5.sh <prop> : confirm the round-5 deliverables of one property in its scratch worktree /tmp/w5_<prop>
# (demo fails with the patch / passes without, the test files named in notes.md still pass with it), then run the checks on /repo with the patch applied.
p="$1"; wt=/tmp/w5_$p; out=/tmp/r5; mkdir -p $out
export OMP_NUM_THREADS=1 MKL_NUM_THREADS=1
cd $wt || exit 9
for n in 1 2 benign; do
  d=seeded/$n; [ -f $d/patch.diff ] || { echo "$p/$n: no patch" > $out/${p}_$n.txt; continue; }
  git checkout -q -- agilerl
  demo=$d/demo.py; [ -f $demo ] || demo=$(ls $d/*.py | head -1)
  PYTHONPATH=$wt timeout 400 /venv/bin/python $demo > $out/${p}_${n}_clean.log 2>&1; rc_clean=$?
  git apply $d/patch.diff || { echo "$p/$n: APPLY FAILED" > $out/${p}_$n.txt; continue; }
  PYTHONPATH=$wt timeout 400 /venv/bin/python $demo > $out/${p}_${n}_patched.log 2>&1; rc_patched=$?
  tests=$(grep -oh 'tests/[A-Za-z0-9_/]*\.py' $d/notes.md | sort -u | grep -v probe_envs | while read f; do [ -f $f ] && echo $f; done | tr '\n' ' ')
  tres="no tests named"
  if [ -n "$tests" ]; then
    timeout 1500 /venv/bin/python -m pytest -q -p no:cacheprovider -n 4 --timeout=600 --junitxml=$out/${p}_$n.xml $tests > $out/${p}_${n}_tests.log 2>&1
    tres=$(python3 /verif/tools/cmp_baseline.py $out/${p}_$n.xml 2>&1 | tr '\n' ' ' | cut -c1-400)
  fi
  git checkout -q -- agilerl
  if [ "$n" = benign ]; then props="C01 C02 C03 C04 C05 C06 C07 C08 C09 C10 C11 C12 C13 C14 C15 C16 C17 C18 C19 C20"; else props=$p; fi
  chk=$(TRY_OUT=$out/${p}_${n}_chk /verif/tools/try_patch.sh $wt/$d/patch.diff $props 2>&1 | grep '^== ' | grep -v 'rc=0' | tr '\n' ' ')
  [ "$n" = benign ] && [ -z "$chk" ] && chk="all 20 rc=0"
  [ "$n" != benign ] && [ -z "$chk" ] && chk="== $p rc=0 (MISSED)"
  echo "$p/$n: demo clean=$rc_clean patched=$rc_patched | tests[$tests]: $tres | checks: $chk" > $out/${p}_$n.txt
done
cat $out/${p}_1.txt $out/${p}_2.txt $out/${p}_benign.txt
