#!/bin/bash
# usage: run_all_seeds_par.sh [pattern] [jobs] : like run_all_seeds.sh but never touches /repo: every kept change is applied to its own scratch copy
# of /repo's committed agilerl/ under /dev/shm (removed afterwards) and the checks are run with --repo <copy>; seeds run in parallel.
# Expected: exit 1 from the property's check for a breaking change, exit 0 from every listed check for a behaviour-preserving refactoring.
pat="${1:-}"; jobs="${2:-14}"
one() {
  d="$1"; n=$(basename "$d"); [ -f "$d/patch.diff" ] || exit 0
  w=/dev/shm/rasp_$$_$n; mkdir -p $w && git -C /repo archive HEAD agilerl | tar -x -C $w
  if ! (cd $w && patch -p1 -s --dry-run < "$d/patch.diff" >/dev/null 2>&1); then echo "SKIP   $n (patch no longer applies)"; rm -rf $w; exit 0; fi
  (cd $w && patch -p1 -s < "$d/patch.diff")
  if [[ "$n" == benign-* ]]; then props=$(python3 -c "import json;print(' '.join(json.load(open('$d/meta.json')).get('checked_props', [])))"); want=0
  else props=$(python3 -c "import json;print(json.load(open('$d/meta.json'))['property'])"); want=1; fi
  res=""
  for p in $props; do (cd /verif && AGILINT_NO_EVIDENCE=1 /venv/bin/python -m agilint check $p --tier quick --repo $w >/dev/null 2>&1); rc=$?; res="$res $p=$rc"; [ "$rc" != "$want" ] && res="$res(!)"; done
  rm -rf $w; echo "DONE   $n:$res"
}
export -f one
ls -d /verif/seeded/*${pat}*/ | grep -v _withdrawn | xargs -P $jobs -I{} bash -c 'one {}' | sort > /tmp/rasp_$$.txt
cat /tmp/rasp_$$.txt; echo "unexpected results: $(grep -c '(!)' /tmp/rasp_$$.txt)"; rm -f /tmp/rasp_$$.txt
