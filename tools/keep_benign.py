#!/usr/bin/env python3
"""keep_benign.py <prop> <worktree> <short-name> "<first run>" "<what was generalised>" : copy a behaviour-preserving refactoring into /verif/seeded/benign-<prop>-<name>/."""
import json, os, shutil, sys
prop, wt, name, first, fixed = sys.argv[1:6]
dst = f"/verif/seeded/benign-{prop}-{name}"
os.makedirs(dst, exist_ok=True)
src = f"{wt}/seeded/benign"
for f in os.listdir(src):
    if os.path.isfile(os.path.join(src, f)):
        shutil.copy(os.path.join(src, f), os.path.join(dst, f))
notes = open(os.path.join(src, "notes.md")).read() if os.path.exists(os.path.join(src, "notes.md")) else ""
meta = {"property": prop, "kind": "behaviour-preserving refactoring (must leave every check at exit 0)", "what": notes.split("\n\n")[0][:600],
        "checked_props": [f"C{i:02d}" for i in range(1, 21)], "first_run": first, "generalised": fixed,
        "origin": "independent sub-agent given only the property text"}
json.dump(meta, open(os.path.join(dst, "meta.json"), "w"), indent=1)
print("kept", dst)
