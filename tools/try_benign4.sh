#!/bin/bash
# usage: try_benign4.sh <prop> : run all twenty checks on the round-4 refactorings of <prop> (worktree /tmp/w4_<prop>/seeded/benign{1,2})
ALL="C01 C02 C03 C04 C05 C06 C07 C08 C09 C10 C11 C12 C13 C14 C15 C16 C17 C18 C19 C20"
p=$1
for n in 1 2; do
  f=/tmp/w4_$p/seeded/benign$n/patch.diff
  [ -f $f ] || { echo "######## $p benign$n: no patch"; continue; }
  echo "######## $p benign$n ($(grep -c '^[+-][^+-]' $f) changed lines; $(grep '^+++ ' $f | sed 's#+++ b/##' | tr '\n' ' '))"
  /verif/tools/try_patch.sh $f $ALL 2>&1 | grep -v "rc=0$" | grep -v "^VIOLATION\|^  rule" | cut -c1-240 | head -${2:-12}
done
