#!/bin/bash
# usage: confirm_seed.sh <worktree> <n> <pytest targets...>
# In the scratch worktree: demo must fail with the patch and pass without; the given tests must pass with the patch.
wt="$1"; n="$2"; shift 2
cd "$wt" || exit 9
git checkout -q -- agilerl
demo=$(ls seeded/$n/demo.py seeded/$n/test_demo.py 2>/dev/null | head -1)
run_demo() { if [[ "$demo" == *test_demo.py ]]; then timeout 600 /venv/bin/python -m pytest -q -p no:cacheprovider "$demo" >/tmp/demo_out.txt 2>&1; else timeout 600 /venv/bin/python "$demo" >/tmp/demo_out.txt 2>&1; fi; echo $?; }
rc_clean=$(run_demo)
git apply seeded/$n/patch.diff || { echo "APPLY FAILED"; exit 9; }
rc_patched=$(run_demo)
echo "demo: clean rc=$rc_clean patched rc=$rc_patched"
if [ $# -gt 0 ]; then
  timeout 3000 /venv/bin/python -m pytest -q -p no:cacheprovider -n 6 "$@" 2>&1 | tail -2
fi
git checkout -q -- agilerl
