#!/usr/bin/env python3
"""cmp_baseline.py <junit.xml>: list tests that are in BASELINE stable_pass but did not pass in this run."""
import json, sys, xml.etree.ElementTree as ET
base = set(json.load(open('/root/.vp/BASELINE.json'))['stable_pass'])
root = ET.parse(sys.argv[1]).getroot()
res = {}
for tc in root.iter('testcase'):
    tid = f"{tc.get('classname')}::{tc.get('name')}"
    ok = not any(ch.tag in ('failure', 'error', 'skipped') for ch in tc)
    res[tid] = ok
ran = set(res)
bad = sorted(t for t in ran & base if not res[t])
newpass = sorted(t for t in ran - base if res[t])
print(f"ran {len(ran)}, passed {sum(res.values())}, in baseline {len(ran & base)}, baseline tests not passing now: {len(bad)}, newly passing (not in baseline): {len(newpass)}")
for t in bad[:40]: print("  REGRESSION", t)
