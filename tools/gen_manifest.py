#!/usr/bin/env python3
"""Regenerate /verif/MANIFEST.json from the table below (claimed = a rule module exists)."""
import json
import os

HERE = os.path.dirname(os.path.dirname(os.path.abspath(__file__)))

# id -> (technique, level text, level note (what is NOT decided / trusted base), design ref)
T = {
    "C01": ("ownership (alias) dataflow over the clone path + effect summaries + who-may-write, ast/CFG",
            "Every value stored on a clone (optimizer state, networks, attributes) is shown FRESH by an ownership dataflow on all paths of clone/copy_attributes/EvolvableModule.clone/select; no store into the parent; carried state passes the attribute-name filter; callable helper objects and non-persistent buffers do not escape the copy; hooks run by clone do not re-derive online networks. Structural necessary conditions, exhaustively over all sites. Hooks run by clone() precede the attribute copy (C01.15).",
            "Not decided: equality of greedy actions/updates (runtime values). Trusted: torch copy semantics listed in evidence; torch Optimizer.load_state_dict summary re-derived from installed source each run."),
    "C02": ("CFG post-dominance / def-use provenance over Mutations + registry cross-check",
            "Optimizer re-creation post-dominates every parameter replacement in each mutation function; shared networks are rebuilt from the same offspring; critics receive the policy's applied mutation; registry completeness against __init__; a mutation reported as None leaves the networks untouched; fallback results of architecture mutations are applied.",
            "Not decided: identity of optimizer params with live tensors at run time; that a learn step moves parameters."),
    "C03": ("guarded-write dominance with comparison direction, constructor->attribute flow (init_dict fidelity), typestate of forwarded mutation methods",
            "Every architecture write in every @mutation method is dominated by a comparison of that quantity with its own bound in the right direction; init_dict is an identity flow of constructor parameters; recreate contract; __init__ and the rebuild call the builders with the same keywords, values and layer-size formulas; validators accept numpy integers; forwarded mutation wrappers are re-installed when a sub-module is replaced. Optional numeric arguments of mutation methods are tested against None only; constructor parameters shared with the base class are forwarded; heads are rebuilt under the name they were built with; constructors accept the numpy integers their own mutations produce.",
            "Not decided: finiteness/shape of outputs; exhaustive architecture walks."),
    "C04": ("slice/argument-role normal forms over preserve functions and all recreate sites",
            "The common index range is copied with the same index on both sides, old->new, at every recreate site; buffers and train/eval mode are carried over; head build and rebuild agree; the live description is used; live weights are never re-initialised by a rebuild; clone overrides are complete. A module re-created by calling its class gets its complete constructor description (never net_config); clone() keeps the train / eval mode.",
            "Not decided: output equality after a no-op mutation."),
    "C05": ("finite ordering algebra (argsort/argmax/[-1]) + linear path counts + effect summaries",
            "Elite index evaluates to Idx(best) of the mean of the last eval_loop scores; winner is best-ranked of the drawn; population size by path count; fresh indices, applied by clone() after the attribute copy and forwarded by the agent wrapper; all C01 obligations for the copies.",
            "Not decided: faithfulness of each copy (C01); tie behaviour beyond one of the maxima."),
    "C06": ("term normal form + clip recogniser + ownership + registry multiplicity",
            "RLParameter.mutate is value*factor clipped and cast; the base value is re-read from the individual; every optimizer registered for a mutated lr is rebuilt (or every parameter group updated); optimizers of multi-lr algorithms are registered under the lr named at their construction site. Post-mutation hooks run after every kind of mutation (shared from C02.3); the stored optimizer keyword arguments are never written to and every group receives the lr argument.",
            "Not decided: numeric drift over generations."),
    "C07": ("writer/reader key-set agreement, CFG ordering, typestate, alias attributes",
            "Every checkpoint key read by both loaders is written by the writer; rebuild->load->optimizers order; weight-copying hooks vs load order; nothing rewrites restored optimizer state or attributes afterwards (hook write-sets); carried counters pass inspect_attributes' name filter; change_activation siblings update init_dict; parameter snapshots are detached. Both loaders rebuild every saved network unconditionally; the registry comparison used by the loader does not read run-time hyper-parameter state.",
            "Not decided: equality of later learning trajectories."),
    "C08": ("polynomial normal form of the loss target over origin-tagged atoms (def-use, interprocedural parameter binding), done-substitution masking check, soft-update identity, typestate for parameterless modules, CFG post-dominance",
            "For 7 learners: target = reward + gamma^k*Q_shared(next) at done=0 and loses every next_obs term at done=1 (polynomial substitution); shared calls under no_grad; soft update identical to tau*e+(1-tau)*t, paired with the registry, non-vacuous, on every learn path, after the optimizer step; the selecting network of double-Q reads the next state; target networks own their tensors (deep clone, no assign=True). Delayed-update counters advance once per learn step and agent; no in-place write into a batch tensor precedes its use as network input; the categorical target obligations of C18 are shared.",
            "Not decided: numeric loss / weights. Trusted: copy_ in place; parameters() lists registered Parameters only."),
    "C09": ("linear-integer slice arithmetic, ownership of sampled batches, reset completeness",
            "Slice lengths of the wrap-around write agree; cursor/size update forms; sample domain from fill level; batches are copies; clear() resets every field add() advances.",
            "Not decided: content equality with the last min(N,k) transitions."),
    "C10": ("control-flow masking (done tested before reward consumed) + pairing of store and return",
            "No reward of a later window element is read unless every earlier element's done was tested; gamma exponent = position; store iff return.",
            "Not decided: wrap-around equality of both buffers as data."),
    "C11": ("loop-structure and who-may-write checks on the segment trees, term normal form of weights",
            "Ancestors recomputed to the root; both trees written together with priority**alpha; weight formula normal form; pointer modulus agreement. Every (index, priority) pair of update_priorities reaches both trees in order; importance weights are materialised in a fixed float type.",
            "Not decided: index < size at floating-point boundaries; sampling frequencies."),
    "C12": ("reaching definitions / dead stores in the worker, sibling agreement of shared-memory branches, per-agent reset condition",
            "The reset's observation reaches the shared-memory publisher; placeholders are stored; reset condition combines termination and truncation per agent; a seed is tested against None only; one fresh info-mask array per key.",
            "Not decided: equality with N independent environments for every interleaving."),
    "C13": ("typestate (AsyncState) on a CFG with exceptional edges",
            "Guards dominate pipe I/O in every *_async/*_wait; every exit (including exceptional) of *_wait restores DEFAULT; error transport and close paths; receive loops visit every pipe; the timeout handler catches the type the waits raise. close() hands every shutdown option on to close_extras; terminate / join of a worker depend on that worker only.",
            "Not decided: wall-clock bounds; process liveness. may-raise = calls, subscripts, raise."),
    "C14": ("def-use from mask to argmax with polarity, bound-rank lint, array-kind propagation",
            "On every masked path the arg-max operand passed the mask; continuous clip bounds are not projected to one dimension; batch sizes are read from a tensor leaf of dict/tuple observations; IPPO group masks are combined agent-major; the clip space is looked up by agent id; the returned action keeps its axes. Bounded output activations are rescaled from their true ranges; the noisy / noise-free switch follows the training argument.",
            "Not decided: batch shape; best allowed action as a value."),
    "C15": ("dispatch exhaustiveness / sibling agreement over space kinds, rank-arithmetic lint, term normal form of image scaling",
            "The six dispatchers cover the same closed set of space kinds or raise; rank comparisons are well-typed; scaling is (x-low)/(high-low); container recursion passes member, sub-space, device and flag; the preparation path is pure (no in-place writes to the input); agents are visited in agent_ids order. No branch of the preparation path tests observed values; normalisation bounds flow from space.low / high without reduction; shared-policy outputs are cut in the order their observations were stacked.",
            "Not decided: row-by-row equality; batch independence of actions."),
    "C16": ("handler-table agreement, parameter-dependence (def-use) of log_prob, reduction axes, squash correction pairing",
            "log_prob's density argument depends on the passed action on every path; reductions over the component axis; squash correction iff squash_output; the action axis of single-component spaces is restored before log_prob; the distribution wrapper is re-created with the constructor's keywords; masks are used as given. PPO's (action, log_prob) pair comes from the policy head, not from a forward that rescales the action.",
            "Not decided: that the number equals the density (torch.distributions semantics)."),
    "C17": ("term normal form with loop-carried Rec atoms, done-substitution masking, axis-order signatures of the flattened rollout",
            "GAE recursion matches delta/A definitions; next-step terms vanish at done=1; the six minibatch tensors share one flattening signature; experience components are grouped in agent_ids order with per-field stacking axes; every preparation call passes the normalisation flag. The flattening order of the rollout is derived from flatten_experiences for every rank; the coefficient of A_(t+1) is lambda times that of V_(t+1) in every alternative; the loop covers the whole rollout.",
            "Not decided: numeric agreement with the definition."),
    "C18": ("term normal form of t_z / b / neighbour weights, index-weight pairing, bounded-index typestate",
            "t_z form and clamp before b; complementary neighbour weights; fix-up order; offsets stride num_atoms; index clamp before index_add_; batch coherence and update ordering shared from C08. Every indexed write of mass into the projection buffer accumulates.",
            "Not decided: mass/mean conservation as numeric facts."),
    "C19": ("ordered-product normal form of the Sherman-Morrison update, sibling agreement UCB/TS, hook registration",
            "S <- S - (S v v^T S)/(1 + v^T S v) with v the chosen arm's feature; init lambda*I(numel of output layer); init I/lambda (numel of output layer); re-init after mutation; nothing rescales the feature matrix between the gradient loop and the update; clones own the matrix (C01.3 shared). Every entry point that applies an architecture mutation runs the bandit's hooks on every path to a normal return.",
            "Not decided: positive definiteness, numerical drift."),
    "C20": ("producer/consumer agreement sampler->learn, CFG step counters, Protocol-isinstance rule, sibling cross-check rollout vs test(), channel-order typestate (forward may-analysis specialised on swap_channels), guard/operand agreement",
            "Batch structure accepted by every reachable learn(); one counter increment per env.step; fitness appended once per test(); population = mutation(select(pop)) with the C05 obligations on size, indices and elite; sampled indices are requested where they are read; every observation is converted to channels-first exactly once; stacks over filtered lists are guarded by that list; score arrays and the rewards added agree on their ids.",
            "Not decided: running to completion on real environments."),
}


def main() -> None:
    props = [json.loads(l) for l in open(os.path.join(HERE, "properties.jsonl"))]
    checks = []
    na = []
    for p in props:
        pid = p["id"]
        if os.path.exists(os.path.join(HERE, "agilint", "rules", f"{pid.lower()}.py")):
            tech, text, note = T[pid]
            checks.append({
                "property_id": pid,
                "quick_cmd": f"/venv/bin/python -m agilint check {pid} --tier quick",
                "thorough_cmd": f"/venv/bin/python -m agilint check {pid} --tier thorough",
                "evidence_file": f"/verif/evidence/{pid}.json",
                "replay_cmd_template": "/venv/bin/python -m agilint explain {path}",
                "engine": "agilint",
                "level_claimed": {
                    "category": "other",
                    "text": "static analysis (no execution): exhaustive evaluation of repository-specific structural obligations over all enumerated sites of the normalised program (front end: private-helper inlining, guard clauses, conditional assignments, comparison / branch orientation). " + text,
                    "design_ref": f"DESIGN.md section 4, {pid}",
                },
                "level_note": note,
                "technique": "static analysis: " + tech,
            })
        else:
            na.append({"property_id": pid, "reason": "check under construction (planned rules in DESIGN.md section 4); not claimed yet"})
    m = {
        "version": 1,
        "setup_cmd": "true",
        "hooks": {
            "guard": "AGILERL_VERIF",
            "enable": "none needed: the checks are static and read /repo's working tree; no instrumentation was added to the repository",
            "baseline_off_cmd": "cd /repo && /venv/bin/python -m pytest -ra -q -p no:cacheprovider --timeout=900 --continue-on-collection-errors",
            "source_commits": [],
            "add_only": True,
        },
        "engines": [{
            "name": "agilint",
            "path": "/verif/agilint",
            "serves_properties": [c["property_id"] for c in checks],
            "kind_free_text": "repository-specific static analyser over Python ast: program model with MRO, statement CFG with exceptional edges, dominators/post-dominators, reaching definitions, interprocedural term builder with polynomial normal forms and origin tags, ownership / mask / order domains, registry extractor",
        }],
        "checks": checks,
        "notes": "Static analysis only; nothing from /repo is imported or executed by any check. thorough = quick rules + self-validation of the checker on AST-computed scratch variants (mutants must be reported, refactorings must stay silent). Genuine defects: known_findings.json. See DESIGN.md.",
        "not_applicable": na,
    }
    with open(os.path.join(HERE, "MANIFEST.json"), "w") as fh:
        json.dump(m, fh, indent=1)
    print(f"claimed {len(checks)}, not applicable {len(na)}")


if __name__ == "__main__":
    main()
