"""Registry extractor: which attribute is eval / shared / policy / optimizer / lr, read from each
algorithm's __init__ (NetworkGroup, OptimizerWrapper, register_mutation_hook calls)."""
from __future__ import annotations

import ast
from dataclasses import dataclass, field
from typing import Dict, List, Optional, Tuple

from .cfg import CFG
from .core import AnalysisError, Cls, Fn, Repo, call_name, calls_in, dotted, get_kw, short
from .util import self_attr_stores

ALGOS = [
    ("agilerl.algorithms.dqn", "DQN"),
    ("agilerl.algorithms.cqn", "CQN"),
    ("agilerl.algorithms.dqn_rainbow", "RainbowDQN"),
    ("agilerl.algorithms.ddpg", "DDPG"),
    ("agilerl.algorithms.td3", "TD3"),
    ("agilerl.algorithms.ppo", "PPO"),
    ("agilerl.algorithms.ippo", "IPPO"),
    ("agilerl.algorithms.maddpg", "MADDPG"),
    ("agilerl.algorithms.matd3", "MATD3"),
    ("agilerl.algorithms.neural_ucb_bandit", "NeuralUCB"),
    ("agilerl.algorithms.neural_ts_bandit", "NeuralTS"),
]


@dataclass
class Group:
    eval: str
    shared: List[str]
    policy: bool
    multiagent: bool
    node: ast.Call


@dataclass
class Opt:
    name: str
    networks: List[str]
    lr: str  # attribute name the lr expression is identical to ('' if unresolved)
    multiagent: bool
    node: ast.Call


@dataclass
class Hook:
    name: str
    cond: str  # normalised guard text ('' = unconditional)
    node: ast.Call


@dataclass
class AlgoRegistry:
    cls: Cls
    init: Fn
    groups: List[Group] = field(default_factory=list)
    opts: List[Opt] = field(default_factory=list)
    hooks: List[Hook] = field(default_factory=list)

    def shared_attrs(self) -> List[str]:
        return [s for g in self.groups for s in g.shared]

    def eval_attrs(self) -> List[str]:
        return [g.eval for g in self.groups]

    def pairs(self) -> List[Tuple[str, str]]:
        return [(g.eval, s) for g in self.groups for s in g.shared]

    def group_of(self, attr: str) -> Optional[Group]:
        for g in self.groups:
            if g.eval == attr or attr in g.shared:
                return g
        return None


def _self_attr_name(e: Optional[ast.AST]) -> Optional[str]:
    if isinstance(e, ast.Attribute) and isinstance(e.value, ast.Name) and e.value.id == "self":
        return e.attr
    return None


def extract(repo: Repo, modname: str, clsname: str) -> AlgoRegistry:
    cls = repo.cls(modname, clsname)
    init = cls.methods.get("__init__")
    if init is None:
        raise AnalysisError(f"{clsname}.__init__ not found")
    reg = AlgoRegistry(cls, init)
    cfg = CFG(init.node)
    for c in calls_in(init.node):
        cn = call_name(c).split(".")[-1]
        if cn == "NetworkGroup":
            ev = _self_attr_name(get_kw(c, "eval", 0))
            sh = get_kw(c, "shared", 1)
            shared: List[str] = []
            if isinstance(sh, (ast.List, ast.Tuple)):
                shared = [s for s in (_self_attr_name(x) for x in sh.elts) if s]
            elif _self_attr_name(sh):
                shared = [_self_attr_name(sh)]  # type: ignore[list-item]
            pol = get_kw(c, "policy", 2)
            ma = get_kw(c, "multiagent", 3)
            if ev is None:
                raise AnalysisError(f"{clsname}: NetworkGroup eval is not a self attribute: {short(c)}")
            reg.groups.append(Group(ev, shared, isinstance(pol, ast.Constant) and bool(pol.value),
                                    isinstance(ma, ast.Constant) and bool(ma.value), c))
        elif cn == "register_mutation_hook" and c.args:
            h = _self_attr_name(c.args[0])
            n = cfg.node_of(c)
            cond = " and ".join((("" if pol else "not ") + ast.unparse(g)) for g, pol, _ in (cfg.guards_at(n) if n else []))
            reg.hooks.append(Hook(h or short(c.args[0]), cond, c))
    # optimizers: self.X = OptimizerWrapper(...)
    for attr, vals in self_attr_stores(init).items():
        for v in vals:
            if isinstance(v, ast.Call) and call_name(v).split(".")[-1] == "OptimizerWrapper":
                nets = get_kw(v, "networks", 1)
                names: List[str] = []
                if isinstance(nets, (ast.List, ast.Tuple)):
                    names = [s for s in (_self_attr_name(x) for x in nets.elts) if s]
                elif _self_attr_name(nets):
                    names = [_self_attr_name(nets)]  # type: ignore[list-item]
                lr = get_kw(v, "lr", 2)
                ma = get_kw(v, "multiagent")
                lrname = _self_attr_name(lr) or ""
                if not lrname and isinstance(lr, ast.Name):
                    # a constructor parameter: the self attribute it is stored into unchanged
                    for a2, vals2 in self_attr_stores(init).items():
                        if any(isinstance(x, ast.Name) and x.id == lr.id for x in vals2):
                            lrname = a2
                reg.opts.append(Opt(attr, names, lrname, isinstance(ma, ast.Constant) and bool(ma.value), v))
    return reg


def extract_all(repo: Repo) -> Dict[str, AlgoRegistry]:
    return {c: extract(repo, m, c) for m, c in ALGOS}
