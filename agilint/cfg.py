"""Statement-level control-flow graph for one function, with dominators,
post-dominators and reaching definitions.  Hand-built (the standard library has no CFG).

Nodes are simple statements, or the *header* of a compound statement (the test of an
``if``/``while``, the iterator/target of a ``for``, the items of a ``with``, an ``except``
clause, a ``match`` subject / case pattern).  ``try/finally`` bodies are duplicated per
continuation kind (normal, return, break, continue, exception), the usual construction.

Exceptional edges: a node that contains a call, a subscript, ``raise`` or ``assert`` may
raise.  Such a node always gets edges to the handlers of the enclosing ``try`` (so handler code
is reachable and dominance is conservative).  With ``exceptional=True`` an exception that no
enclosing handler is guaranteed to catch additionally propagates (through ``finally`` copies)
to the function's raise-exit.
"""
from __future__ import annotations

import ast
from dataclasses import dataclass, field
from typing import Callable, Dict, FrozenSet, Iterable, List, Optional, Set, Tuple

from .core import walk_no_nested


@dataclass(eq=False)
class Node:
    id: int
    kind: str  # entry | exit | rexit | stmt | test | for | with | except | match | case | join
    ast: Optional[ast.AST] = None  # the statement (stmt) or header expression container
    stmt: Optional[ast.stmt] = None  # owning statement
    succ: List["Node"] = field(default_factory=list)
    pred: List["Node"] = field(default_factory=list)
    exc_succ: Set[int] = field(default_factory=set)  # ids of successors reached by exception
    label: str = ""
    # for tests: successor taken when the test is true / false
    true_succ: Optional["Node"] = None
    false_succ: Optional["Node"] = None

    @property
    def lineno(self) -> int:
        n = self.ast if self.ast is not None else self.stmt
        return getattr(n, "lineno", 0)

    def exprs(self) -> List[ast.AST]:
        """The expressions evaluated *at this node* (not in nested bodies)."""
        s = self.ast
        if s is None:
            return []
        if self.kind == "stmt":
            return [s]
        if self.kind == "test":
            return [s]  # the test expression itself
        if self.kind == "for":
            return [s.iter, s.target]  # type: ignore[attr-defined]
        if self.kind == "with":
            out = []
            for it in s.items:  # type: ignore[attr-defined]
                out.append(it.context_expr)
                if it.optional_vars is not None:
                    out.append(it.optional_vars)
            return out
        if self.kind == "except":
            return [s.type] if getattr(s, "type", None) is not None else []
        if self.kind == "match":
            return [s.subject]  # type: ignore[attr-defined]
        if self.kind == "case":
            out = [s.pattern]  # type: ignore[attr-defined]
            if s.guard is not None:  # type: ignore[attr-defined]
                out.append(s.guard)
            return out
        return []

    def walk(self) -> Iterable[ast.AST]:
        for e in self.exprs():
            yield e
            yield from walk_no_nested(e)

    def __repr__(self) -> str:  # pragma: no cover
        return f"<{self.id}:{self.kind}:{self.lineno}>"


def _positive(test: ast.AST, pol: bool, t: "Node"):
    """(test, polarity) with leading negations folded into the polarity: (`not c`, True) is reported as (`c`, False)."""
    while isinstance(test, ast.UnaryOp) and isinstance(test.op, ast.Not):
        test, pol = test.operand, not pol
    return (test, pol, t)


def _may_raise(node: Node) -> bool:
    if node.kind in ("entry", "exit", "rexit", "join"):
        return False
    for n in node.walk():
        if isinstance(n, (ast.Call, ast.Subscript, ast.Raise, ast.Assert, ast.Await)):
            return True
    return False


@dataclass
class _Loop:
    head: Node
    breaks: List[Node]


@dataclass
class _Try:
    handlers: List[Node]  # entry nodes of except clauses (active only while in the try body)
    catch_all: bool
    finalbody: Optional[List[ast.stmt]]
    active: bool = True  # handlers active (we are in the try body)


class CFG:
    def __init__(self, fn: ast.AST, exceptional: bool = False):
        self.fn = fn
        self.exceptional = exceptional
        self.nodes: List[Node] = []
        self.entry = self._new("entry")
        self.exit = self._new("exit")
        self.rexit = self._new("rexit")
        self._frames: List[object] = []
        body = fn.body if hasattr(fn, "body") else []
        outs = self._stmts(body, [self.entry])
        for o in outs:
            self._edge(o, self.exit)
        self._dom: Optional[Dict[int, Set[int]]] = None
        self._pdom: Optional[Dict[int, Set[int]]] = None
        self._rd: Optional[Dict[int, Dict[str, Set[int]]]] = None
        self._prune()

    # ------------------------------------------------------------------ construction
    def _new(self, kind: str, a: Optional[ast.AST] = None, stmt: Optional[ast.stmt] = None, label: str = "") -> Node:
        n = Node(len(self.nodes), kind, a, stmt if stmt is not None else (a if isinstance(a, ast.stmt) else None), label=label)
        self.nodes.append(n)
        return n

    def _edge(self, a: Node, b: Node, exc: bool = False) -> None:
        if b not in a.succ:
            a.succ.append(b)
            b.pred.append(a)
        if exc:
            a.exc_succ.add(b.id)

    def _link(self, preds: List[Node], n: Node) -> None:
        for p in preds:
            self._edge(p, n)

    def _raise_from(self, n: Node, definite: bool = False) -> None:
        """Route an exception raised at node n."""
        i = len(self._frames) - 1
        cur = [n]
        first = True
        while i >= 0:
            fr = self._frames[i]
            if isinstance(fr, _Try):
                if fr.active and fr.handlers:
                    for h in fr.handlers:
                        for c in cur:
                            self._edge(c, h, exc=first or True)
                    if fr.catch_all:
                        return
                    if not (self.exceptional or definite):
                        return
                if fr.finalbody is not None and (self.exceptional or definite):
                    saved = self._frames
                    self._frames = self._frames[:i]
                    j = self._new("join", None, None, "finally(exc)")
                    for c in cur:
                        self._edge(c, j, exc=True)
                    cur = self._stmts(fr.finalbody, [j])
                    self._frames = saved
                    first = False
                elif not (self.exceptional or definite):
                    pass
            i -= 1
        if self.exceptional or definite:
            for c in cur:
                self._edge(c, self.rexit, exc=True)

    def _jump(self, n: Node, kind: str) -> None:
        """return / break / continue from node n, running enclosing finally bodies."""
        i = len(self._frames) - 1
        cur = [n]
        while i >= 0:
            fr = self._frames[i]
            if isinstance(fr, _Loop) and kind in ("break", "continue"):
                if kind == "break":
                    fr.breaks.extend(cur)
                else:
                    self._link(cur, fr.head)
                return
            if isinstance(fr, _Try) and fr.finalbody is not None:
                saved = self._frames
                self._frames = self._frames[:i]
                j = self._new("join", None, None, f"finally({kind})")
                self._link(cur, j)
                cur = self._stmts(fr.finalbody, [j])
                self._frames = saved
            i -= 1
        if kind == "return":
            self._link(cur, self.exit)

    def _stmts(self, stmts: List[ast.stmt], preds: List[Node]) -> List[Node]:
        for s in stmts:
            preds = self._stmt(s, preds)
        return preds

    def _simple(self, s: ast.stmt, preds: List[Node]) -> Node:
        n = self._new("stmt", s, s)
        self._link(preds, n)
        if _may_raise(n):
            self._raise_from(n, definite=isinstance(s, ast.Raise))
        return n

    def _stmt(self, s: ast.stmt, preds: List[Node]) -> List[Node]:
        if isinstance(s, (ast.FunctionDef, ast.AsyncFunctionDef, ast.ClassDef)):
            n = self._new("stmt", s, s)
            self._link(preds, n)
            return [n]
        if isinstance(s, ast.If):
            t = self._new("test", s.test, s)
            self._link(preds, t)
            if _may_raise(t):
                self._raise_from(t)
            marker = len(self.nodes)
            outs_t = self._stmts(s.body, [t])
            t.true_succ = self.nodes[marker] if len(self.nodes) > marker else None
            marker = len(self.nodes)
            if s.orelse:
                outs_f = self._stmts(s.orelse, [t])
                t.false_succ = self.nodes[marker] if len(self.nodes) > marker else None
            else:
                outs_f = [t]
            return outs_t + outs_f
        if isinstance(s, (ast.While,)):
            t = self._new("test", s.test, s)
            self._link(preds, t)
            if _may_raise(t):
                self._raise_from(t)
            lp = _Loop(t, [])
            self._frames.append(lp)
            outs = self._stmts(s.body, [t])
            self._frames.pop()
            self._link(outs, t)
            infinite = isinstance(s.test, ast.Constant) and bool(s.test.value)
            exits = [] if infinite else [t]
            if s.orelse:
                exits = self._stmts(s.orelse, exits)
            return exits + lp.breaks
        if isinstance(s, (ast.For, ast.AsyncFor)):
            t = self._new("for", s, s)
            self._link(preds, t)
            if _may_raise(t):
                self._raise_from(t)
            lp = _Loop(t, [])
            self._frames.append(lp)
            outs = self._stmts(s.body, [t])
            self._frames.pop()
            self._link(outs, t)
            exits = [t]
            if s.orelse:
                exits = self._stmts(s.orelse, exits)
            return exits + lp.breaks
        if isinstance(s, (ast.With, ast.AsyncWith)):
            w = self._new("with", s, s)
            self._link(preds, w)
            if _may_raise(w):
                self._raise_from(w)
            return self._stmts(s.body, [w])
        if isinstance(s, ast.Try) or (hasattr(ast, "TryStar") and isinstance(s, getattr(ast, "TryStar"))):
            hnodes = [self._new("except", h, s) for h in s.handlers]
            catch_all = any(
                h.type is None or (isinstance(h.type, ast.Name) and h.type.id in ("BaseException", "Exception"))
                for h in s.handlers
            )
            fr = _Try(hnodes, catch_all, s.finalbody or None, True)
            self._frames.append(fr)
            j = self._new("join", None, s, "try")
            self._link(preds, j)
            outs = self._stmts(s.body, [j])
            fr.active = False
            if s.orelse:
                outs = self._stmts(s.orelse, outs)
            all_outs = list(outs)
            for h, hn in zip(s.handlers, hnodes):
                all_outs += self._stmts(h.body, [hn])
            self._frames.pop()
            if s.finalbody:
                jf = self._new("join", None, s, "finally")
                self._link(all_outs, jf)
                all_outs = self._stmts(s.finalbody, [jf])
            return all_outs
        if isinstance(s, ast.Match):
            m = self._new("match", s, s)
            self._link(preds, m)
            outs: List[Node] = []
            prev = [m]
            exhaustive = False
            for c in s.cases:
                cn = self._new("case", c, s)
                self._link(prev, cn)
                outs += self._stmts(c.body, [cn])
                prev = [cn]
                if isinstance(c.pattern, ast.MatchAs) and c.pattern.pattern is None and c.guard is None:
                    exhaustive = True
            if not exhaustive:
                outs += prev
            return outs
        if isinstance(s, ast.Return):
            n = self._simple(s, preds)
            self._jump(n, "return")
            return []
        if isinstance(s, ast.Raise):
            self._simple(s, preds)
            return []
        if isinstance(s, ast.Break):
            n = self._new("stmt", s, s)
            self._link(preds, n)
            self._jump(n, "break")
            return []
        if isinstance(s, ast.Continue):
            n = self._new("stmt", s, s)
            self._link(preds, n)
            self._jump(n, "continue")
            return []
        n = self._simple(s, preds)
        return [n]

    def _prune(self) -> None:
        """Drop nodes unreachable from entry (keep exit nodes)."""
        seen = set()
        st = [self.entry]
        while st:
            n = st.pop()
            if n.id in seen:
                continue
            seen.add(n.id)
            st.extend(n.succ)
        self.reachable = seen
        for n in self.nodes:
            if n.id not in seen:
                for s in n.succ:
                    if n in s.pred:
                        s.pred.remove(n)

    # ------------------------------------------------------------------ queries
    def live_nodes(self) -> List[Node]:
        return [n for n in self.nodes if n.id in self.reachable]

    def node_of(self, target: ast.AST) -> Optional[Node]:
        """The (first) CFG node whose own expressions contain the ast node `target`."""
        for n in self.live_nodes():
            for e in n.exprs():
                if e is target:
                    return n
                for x in walk_no_nested(e):
                    if x is target:
                        return n
        return None

    def nodes_of(self, target: ast.AST) -> List[Node]:
        out = []
        for n in self.live_nodes():
            hit = False
            for e in n.exprs():
                if e is target or any(x is target for x in walk_no_nested(e)):
                    hit = True
                    break
            if hit:
                out.append(n)
        return out

    def _dominators(self, entry: Node, succ: Callable[[Node], List[Node]], pred: Callable[[Node], List[Node]]) -> Dict[int, Set[int]]:
        nodes = [n for n in self.nodes if n.id in self.reachable or n is entry]
        allids = {n.id for n in nodes}
        dom = {n.id: set(allids) for n in nodes}
        dom[entry.id] = {entry.id}
        changed = True
        order = nodes
        while changed:
            changed = False
            for n in order:
                if n is entry:
                    continue
                ps = [p for p in pred(n) if p.id in allids]
                if ps:
                    new = set.intersection(*(dom[p.id] for p in ps)) | {n.id}
                else:
                    new = {n.id}
                if new != dom[n.id]:
                    dom[n.id] = new
                    changed = True
        return dom

    def dom(self) -> Dict[int, Set[int]]:
        if self._dom is None:
            self._dom = self._dominators(self.entry, lambda n: n.succ, lambda n: n.pred)
        return self._dom

    def dominates(self, a: Node, b: Node) -> bool:
        return a.id in self.dom().get(b.id, set())

    def pdom(self, include_raise: bool = False) -> Dict[int, Set[int]]:
        """Post-dominators w.r.t. the normal exit (raise-exit is a separate sink unless included)."""
        key = "_pdom_r" if include_raise else "_pdom"
        cached = getattr(self, key, None)
        if cached is not None:
            return cached
        # virtual sink
        sink = Node(-1, "sink")
        sinks = [self.exit] + ([self.rexit] if include_raise else [])
        succ_map: Dict[int, List[Node]] = {n.id: list(n.succ) for n in self.nodes}
        pred_map: Dict[int, List[Node]] = {n.id: list(n.pred) for n in self.nodes}
        for s in sinks:
            succ_map[s.id] = succ_map[s.id] + [sink]
        pred_map[-1] = sinks
        succ_map[-1] = []
        # nodes that can reach a sink
        nodes = self.live_nodes() + [sink]
        allids = {n.id for n in nodes}
        pd = {n.id: set(allids) for n in nodes}
        pd[-1] = {-1}
        changed = True
        while changed:
            changed = False
            for n in reversed(nodes):
                if n is sink:
                    continue
                ss = [s for s in succ_map[n.id] if s.id in allids]
                if not include_raise:
                    ss = [s for s in ss if s is not self.rexit]
                if ss:
                    new = set.intersection(*(pd[s.id] for s in ss)) | {n.id}
                else:
                    new = {n.id} if n in sinks else set(allids)
                if new != pd[n.id]:
                    pd[n.id] = new
                    changed = True
        setattr(self, key, pd)
        return pd

    def postdominates(self, a: Node, b: Node, include_raise: bool = False) -> bool:
        """Every path from b to the (normal) exit passes a."""
        return a.id in self.pdom(include_raise).get(b.id, set())

    def reachable_from(self, a: Node, avoid: Optional[Set[int]] = None, follow_exc: bool = True) -> Set[int]:
        """Ids of nodes reachable from a's successors without passing nodes in `avoid`."""
        avoid = avoid or set()
        seen: Set[int] = set()
        st = [s for s in a.succ if follow_exc or s.id not in a.exc_succ]
        while st:
            n = st.pop()
            if n.id in seen or n.id in avoid:
                continue
            seen.add(n.id)
            st.extend(s for s in n.succ if follow_exc or s.id not in n.exc_succ)
        return seen

    def path_avoiding(self, a: Node, targets: Set[int], avoid: Set[int]) -> Optional[List[Node]]:
        """A path from a (exclusive) to any node in `targets` that avoids `avoid`; None if none."""
        prev: Dict[int, Optional[Node]] = {}
        queue = []
        for s in a.succ:
            if s.id not in avoid and s.id not in prev:
                prev[s.id] = None
                queue.append(s)
        while queue:
            n = queue.pop(0)
            if n.id in targets:
                path = [n]
                while prev[path[-1].id] is not None:
                    path.append(prev[path[-1].id])
                return list(reversed(path))
            for s in n.succ:
                if s.id not in avoid and s.id not in prev:
                    prev[s.id] = n
                    queue.append(s)
        return None

    def guards_at(self, n: Node) -> List[Tuple[ast.AST, bool, Node]]:
        """(test expression, polarity, test node) for every `if` test whose outcome is known at n:
        n is reachable (without re-evaluating the test) from exactly one of the two outcomes."""
        out: List[Tuple[ast.AST, bool, Node]] = []
        for t in self.live_nodes():
            if t.kind != "test" or not isinstance(t.stmt, ast.If) or t.true_succ is None or t is n:
                continue
            if not self.dominates(t, n):
                continue
            tr = self._region([t.true_succ], t)
            others = [s for s in t.succ if s is not t.true_succ and s.id not in t.exc_succ]
            if t.false_succ is not None:
                others = [t.false_succ]
            fr = self._region(others, t)
            in_t, in_f = n.id in tr, n.id in fr
            if in_t and not in_f:
                out.append(_positive(t.ast, True, t))
            elif in_f and not in_t:
                out.append(_positive(t.ast, False, t))
        out.sort(key=lambda x: x[2].lineno)
        return out

    def _region(self, starts: List[Node], stop: Node) -> Set[int]:
        seen: Set[int] = set()
        st = list(starts)
        while st:
            x = st.pop()
            if x.id in seen or x is stop:
                continue
            seen.add(x.id)
            st.extend(x.succ)
        return seen

    # ------------------------------------------------------------------ definitions
    @staticmethod
    def target_keys(t: ast.AST, strong: bool = True) -> List[Tuple[str, bool]]:
        """(key, strong?) pairs defined by assignment target t."""
        if isinstance(t, ast.Name):
            return [(t.id, strong)]
        if isinstance(t, (ast.Tuple, ast.List)):
            out = []
            for e in t.elts:
                out += CFG.target_keys(e, strong)
            return out
        if isinstance(t, ast.Starred):
            return CFG.target_keys(t.value, strong)
        if isinstance(t, ast.Attribute):
            from .core import dotted

            d = dotted(t)
            if "?" not in d:
                return [(d, strong)]
            return []
        if isinstance(t, ast.Subscript):
            # weak update of the container
            return CFG.target_keys(t.value, False)
        return []

    def defs_at(self, n: Node) -> List[Tuple[str, bool]]:
        out: List[Tuple[str, bool]] = []
        s = n.ast
        if n.kind == "entry":
            a = self.fn.args  # type: ignore[attr-defined]
            for x in a.posonlyargs + a.args + a.kwonlyargs:
                out.append((x.arg, True))
            if a.vararg:
                out.append((a.vararg.arg, True))
            if a.kwarg:
                out.append((a.kwarg.arg, True))
            return out
        if n.kind == "stmt":
            if isinstance(s, ast.Assign):
                for t in s.targets:
                    out += self.target_keys(t)
            elif isinstance(s, ast.AnnAssign) and s.value is not None:
                out += self.target_keys(s.target)
            elif isinstance(s, ast.AugAssign):
                out += self.target_keys(s.target)
            elif isinstance(s, (ast.FunctionDef, ast.AsyncFunctionDef, ast.ClassDef)):
                out.append((s.name, True))
            elif isinstance(s, (ast.Import, ast.ImportFrom)):
                for a in s.names:
                    out.append(((a.asname or a.name).split(".")[0], True))
            elif isinstance(s, ast.Delete):
                for t in s.targets:
                    out += self.target_keys(t)
            elif isinstance(s, ast.Expr) and isinstance(s.value, ast.Call) and isinstance(s.value.func, ast.Attribute) \
                    and s.value.func.attr in ("append", "extend", "insert", "add", "update", "appendleft") \
                    and isinstance(s.value.func.value, ast.Name):
                out.append((s.value.func.value.id, False))
        elif n.kind == "for":
            out += self.target_keys(s.target)  # type: ignore[attr-defined]
        elif n.kind == "with":
            for it in s.items:  # type: ignore[attr-defined]
                if it.optional_vars is not None:
                    out += self.target_keys(it.optional_vars)
        elif n.kind == "except":
            if getattr(s, "name", None):
                out.append((s.name, True))  # type: ignore[attr-defined]
        # walrus
        for x in n.walk():
            if isinstance(x, ast.NamedExpr):
                out += self.target_keys(x.target)
        return out

    def reaching(self) -> Dict[int, Dict[str, Set[int]]]:
        """IN sets: node id -> key -> ids of definition nodes reaching the node's entry."""
        if self._rd is not None:
            return self._rd
        nodes = self.live_nodes()
        gen: Dict[int, Dict[str, bool]] = {}
        for n in nodes:
            g: Dict[str, bool] = {}
            for k, strong in self.defs_at(n):
                g[k] = g.get(k, False) or strong
            gen[n.id] = g
        IN: Dict[int, Dict[str, Set[int]]] = {n.id: {} for n in nodes}
        OUT: Dict[int, Dict[str, Set[int]]] = {n.id: {} for n in nodes}
        work = list(nodes)
        inwork = {n.id for n in nodes}
        while work:
            n = work.pop(0)
            inwork.discard(n.id)
            new_in: Dict[str, Set[int]] = {}
            for p in n.pred:
                if p.id not in OUT:
                    continue
                for k, v in OUT[p.id].items():
                    new_in.setdefault(k, set()).update(v)
            IN[n.id] = new_in
            out = {k: set(v) for k, v in new_in.items()}
            for k, strong in gen[n.id].items():
                if strong:
                    out[k] = {n.id}
                    # a strong def of x kills defs of x.attr chains too
                    pref = k + "."
                    for kk in list(out):
                        if kk.startswith(pref):
                            del out[kk]
                else:
                    out.setdefault(k, set()).add(n.id)
            if out != OUT[n.id]:
                OUT[n.id] = out
                for s in n.succ:
                    if s.id in IN and s.id not in inwork:
                        work.append(s)
                        inwork.add(s.id)
        self._rd = IN
        self._rd_out = OUT
        return IN

    def defs_reaching(self, n: Node, key: str) -> List[Node]:
        ids = self.reaching().get(n.id, {}).get(key, set())
        return [self.nodes[i] for i in sorted(ids)]

    def value_of_def(self, d: Node, key: str) -> Optional[ast.AST]:
        """The rhs expression bound to `key` by definition node d (None when not a plain binding).
        For tuple targets with a tuple rhs the matching element is returned; otherwise a
        ('unpack', rhs, index) marker is encoded as ast.Subscript(rhs, Constant(index))."""
        s = d.ast
        if d.kind == "stmt" and isinstance(s, (ast.Assign, ast.AnnAssign)):
            targets = s.targets if isinstance(s, ast.Assign) else [s.target]
            for t in targets:
                r = _match_target(t, s.value, key)
                if r is not None:
                    return r
        if d.kind == "with":
            for it in s.items:  # type: ignore[attr-defined]
                if it.optional_vars is not None:
                    r = _match_target(it.optional_vars, it.context_expr, key)
                    if r is not None:
                        return r
        for x in d.walk():
            if isinstance(x, ast.NamedExpr) and isinstance(x.target, ast.Name) and x.target.id == key:
                return x.value
        return None


def _match_target(t: ast.AST, value: Optional[ast.AST], key: str) -> Optional[ast.AST]:
    from .core import dotted

    if value is None:
        return None
    if isinstance(t, ast.Name):
        return value if t.id == key else None
    if isinstance(t, ast.Attribute):
        return value if dotted(t) == key else None
    if isinstance(t, (ast.Tuple, ast.List)):
        if isinstance(value, (ast.Tuple, ast.List)) and len(value.elts) == len(t.elts) and not any(
            isinstance(e, ast.Starred) for e in list(t.elts) + list(value.elts)
        ):
            for te, ve in zip(t.elts, value.elts):
                r = _match_target(te, ve, key)
                if r is not None:
                    return r
            return None
        for i, te in enumerate(t.elts):
            sub = ast.Subscript(value=value, slice=ast.Constant(value=i), ctx=ast.Load())
            ast.copy_location(sub, value)
            sub._unpack_len = len(t.elts)  # type: ignore[attr-defined]
            r = _match_target(te, sub, key)
            if r is not None:
                return r
    return None
