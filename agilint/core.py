"""Program model: modules, classes, functions, imports, MRO, anchors.

Pure ``ast``; nothing from the repository is imported or executed.
"""
from __future__ import annotations

import ast
import hashlib
import os
from dataclasses import dataclass, field
from typing import Dict, Iterable, Iterator, List, Optional, Tuple, Union


class AnalysisError(Exception):
    """The analysis itself cannot be carried out (vanished anchor, parse error, instance floor)."""


def unparse(node: Optional[ast.AST]) -> str:
    if node is None:
        return ""
    try:
        return ast.unparse(node)
    except Exception:  # pragma: no cover
        return "<unparse failed>"


def short(node: Optional[ast.AST], n: int = 160) -> str:
    s = " ".join(unparse(node).split())
    return s if len(s) <= n else s[: n - 3] + "..."


def digest(text: str) -> str:
    return hashlib.sha1(text.encode()).hexdigest()[:12]


@dataclass
class Fn:
    name: str
    qualname: str
    node: Union[ast.FunctionDef, ast.AsyncFunctionDef]
    mod: "Mod"
    cls: Optional["Cls"] = None

    @property
    def params(self) -> List[str]:
        a = self.node.args
        return [x.arg for x in a.posonlyargs + a.args] + (
            [a.vararg.arg] if a.vararg else []
        ) + [x.arg for x in a.kwonlyargs] + ([a.kwarg.arg] if a.kwarg else [])

    @property
    def named_params(self) -> List[str]:
        a = self.node.args
        return [x.arg for x in a.posonlyargs + a.args + a.kwonlyargs]

    def decorators(self) -> List[ast.expr]:
        return list(self.node.decorator_list)

    def has_decorator(self, name: str) -> bool:
        for d in self.node.decorator_list:
            f = d.func if isinstance(d, ast.Call) else d
            if dotted(f).split(".")[-1] == name:
                return True
        return False

    def where(self, node: Optional[ast.AST] = None) -> str:
        ln = getattr(node, "lineno", None) if node is not None else self.node.lineno
        return f"{self.mod.rel}:{ln} ({self.qualname})"

    def body_nodes(self) -> Iterator[ast.AST]:
        """All nodes of the body, not descending into nested function/class definitions."""
        return walk_no_nested(self.node)


@dataclass
class Cls:
    name: str
    node: ast.ClassDef
    mod: "Mod"
    methods: Dict[str, Fn] = field(default_factory=dict)
    base_exprs: List[ast.expr] = field(default_factory=list)

    @property
    def qualname(self) -> str:
        return self.name


@dataclass
class Mod:
    name: str  # dotted module name, e.g. agilerl.hpo.mutation
    path: str
    rel: str  # path relative to the repository root
    src: str
    tree: ast.Module
    imports: Dict[str, str] = field(default_factory=dict)  # local alias -> dotted target
    classes: Dict[str, Cls] = field(default_factory=dict)
    functions: Dict[str, Fn] = field(default_factory=dict)
    is_pkg: bool = False


def dotted(node: ast.AST) -> str:
    """a.b.c for Name/Attribute chains, '' otherwise (calls/subscripts become '?')."""
    parts: List[str] = []
    while True:
        if isinstance(node, ast.Attribute):
            parts.append(node.attr)
            node = node.value
        elif isinstance(node, ast.Name):
            parts.append(node.id)
            break
        else:
            parts.append("?")
            break
    return ".".join(reversed(parts))


def walk_no_nested(root: ast.AST) -> Iterator[ast.AST]:
    """ast.walk that does not enter nested def/class/lambda bodies (the root itself is entered)."""
    stack = list(ast.iter_child_nodes(root))
    while stack:
        n = stack.pop()
        yield n
        if isinstance(n, (ast.FunctionDef, ast.AsyncFunctionDef, ast.ClassDef, ast.Lambda)):
            continue
        stack.extend(ast.iter_child_nodes(n))


def calls_in(root: ast.AST, nested: bool = False) -> List[ast.Call]:
    it = ast.walk(root) if nested else walk_no_nested(root)
    out = [n for n in it if isinstance(n, ast.Call)]
    out.sort(key=lambda c: (c.lineno, c.col_offset))
    return out


def call_name(call: ast.Call) -> str:
    return dotted(call.func)


def last_attr(call: ast.Call) -> str:
    f = call.func
    if isinstance(f, ast.Attribute):
        return f.attr
    if isinstance(f, ast.Name):
        return f.id
    return ""


def is_self_attr(node: ast.AST, attr: Optional[str] = None, selfname: str = "self") -> bool:
    return (
        isinstance(node, ast.Attribute)
        and isinstance(node.value, ast.Name)
        and node.value.id == selfname
        and (attr is None or node.attr == attr)
    )


def get_kw(call: ast.Call, name: str, pos: Optional[int] = None) -> Optional[ast.expr]:
    for k in call.keywords:
        if k.arg == name:
            return k.value
    if pos is not None and len(call.args) > pos and not any(
        isinstance(a, ast.Starred) for a in call.args[: pos + 1]
    ):
        return call.args[pos]
    return None


def names_in(node: ast.AST) -> List[str]:
    return [n.id for n in ast.walk(node) if isinstance(n, ast.Name)]


def const_value(node: Optional[ast.AST]):
    if isinstance(node, ast.Constant):
        return node.value
    if isinstance(node, ast.UnaryOp) and isinstance(node.op, ast.USub) and isinstance(node.operand, ast.Constant):
        return -node.operand.value
    return None


_CANON_MIRROR = {ast.Gt: ast.Lt, ast.GtE: ast.LtE}


def _const_like(e: ast.AST) -> bool:
    """Literals, None, tuples of literals, negative numbers and ENUM-like names (Class.UPPER_CASE)."""
    if isinstance(e, ast.Constant):
        return True
    if isinstance(e, ast.UnaryOp) and isinstance(e.operand, ast.Constant):
        return True
    if isinstance(e, (ast.Tuple, ast.List)) and all(_const_like(x) for x in e.elts):
        return True
    if isinstance(e, ast.Attribute) and e.attr.isupper() and isinstance(e.value, ast.Name):
        return True
    return False


def _side_effect_free(e: ast.AST) -> bool:
    for x in ast.walk(e):
        if isinstance(x, ast.Call) and not (isinstance(x.func, ast.Name) and x.func.id in ("len", "min", "max", "int", "float", "abs", "sum", "type", "tuple")):
            return False
        if isinstance(x, (ast.Await, ast.Yield, ast.YieldFrom, ast.NamedExpr, ast.Lambda)):
            return False
    return True


def canonicalise_comparisons(tree: ast.AST) -> int:
    """One spelling per comparison, applied to every module when it is loaded (the rules then see `a < b` whether the source says `a < b` or `b > a`):
    `>` / `>=` become `<` / `<=` with swapped operands; in `==` / `!=` a constant-like operand goes to the right.  Only single-operator comparisons of side-effect-free operands are touched."""
    k = 0
    for n in ast.walk(tree):
        if not (isinstance(n, ast.Compare) and len(n.ops) == 1):
            continue
        l, r, op = n.left, n.comparators[0], n.ops[0]
        if not (_side_effect_free(l) and _side_effect_free(r)):
            continue
        if type(op) in _CANON_MIRROR:
            n.left, n.comparators[0], n.ops[0] = r, l, _CANON_MIRROR[type(op)]()
            k += 1
        elif isinstance(op, (ast.Eq, ast.NotEq)):
            # (two non-constant operands keep their source order: any tie-break by text would depend on the spelling of locals)
            if _const_like(l) and not _const_like(r):
                n.left, n.comparators[0] = r, l
                k += 1
    return k


def canonicalise_branches(tree: ast.AST) -> int:
    """Two-way conditionals never test a negation: `if not c: A else: B` is loaded as `if c: B else: A` (if / else statements and conditional expressions).  A one-armed `if not c:` is left alone."""
    k = 0
    for n in ast.walk(tree):
        two_way = (isinstance(n, ast.If) and bool(n.orelse)) or isinstance(n, ast.IfExp)
        while two_way and isinstance(n.test, ast.UnaryOp) and isinstance(n.test.op, ast.Not):
            n.test = n.test.operand
            n.body, n.orelse = n.orelse, n.body
            k += 1
    return k


class Repo:
    def __init__(self, root: str = "/repo", package: str = "agilerl", overrides: Optional[Dict[str, str]] = None):
        self.root = root
        self.package = package
        self.src_overrides = overrides or {}  # relative path -> source text (self-validation variants)
        self.mods: Dict[str, Mod] = {}
        self.n_files = 0
        self.n_functions = 0
        self.n_classes = 0
        self._load()

    # ------------------------------------------------------------------ loading
    def _load(self) -> None:
        pkg_dir = os.path.join(self.root, self.package)
        if not os.path.isdir(pkg_dir):
            raise AnalysisError(f"package directory {pkg_dir} missing")
        parsed = []
        for dirpath, dirnames, filenames in os.walk(pkg_dir):
            dirnames[:] = sorted(d for d in dirnames if d != "__pycache__")
            for fn in sorted(filenames):
                if not fn.endswith(".py"):
                    continue
                path = os.path.join(dirpath, fn)
                rel = os.path.relpath(path, self.root)
                modname = rel[:-3].replace(os.sep, ".")
                is_pkg = False
                if modname.endswith(".__init__"):
                    modname = modname[: -len(".__init__")]
                    is_pkg = True
                if rel in self.src_overrides:
                    src = self.src_overrides[rel]
                else:
                    with open(path, "r", encoding="utf-8") as fh:
                        src = fh.read()
                try:
                    tree = ast.parse(src, filename=path)
                except SyntaxError as e:
                    raise AnalysisError(f"{rel} does not parse: {e}")
                parsed.append((modname, path, rel, src, tree, is_pkg))
        # front-end normalisation (behaviour-preserving): helper inlining, guard clauses, comparison / branch orientation
        self.n_inlined = 0
        if os.environ.get("AGILINT_INLINE", "1") != "0":
            from .inline import canonicalise_parallel_assignments, canonicalise_conditional_assignments, canonicalise_filtered_loops, canonicalise_guards, canonicalise_negations, canonicalise_quantifiers, count_defs, inline_helpers
            counts = count_defs([t for _, _, _, _, t, _ in parsed])
            for _, _, _, _, tree, _ in parsed:
                self.n_inlined += inline_helpers(tree, counts)
                canonicalise_parallel_assignments(tree)
                canonicalise_guards(tree)
                canonicalise_quantifiers(tree)
                canonicalise_filtered_loops(tree)
                if os.environ.get("AGILINT_IFEXP", "1") != "0":
                    canonicalise_conditional_assignments(tree)
        # functions / methods defined exactly once in the package: a call `f(...)`, `self.f(...)`, `Cls.f(...)` of such a name denotes that definition
        defs_by_name: Dict[str, List[ast.AST]] = {}
        for _, _, _, _, tree, _ in parsed:
            for n in ast.walk(tree):
                if isinstance(n, (ast.FunctionDef, ast.AsyncFunctionDef)):
                    defs_by_name.setdefault(n.name, []).append(n)
        self.unique_defs = {k: v[0] for k, v in defs_by_name.items() if len(v) == 1}

        def _resolve_unique(call: ast.Call, _u=self.unique_defs):
            f = call.func
            if isinstance(f, ast.Name):
                return _u.get(f.id)
            if isinstance(f, ast.Attribute) and isinstance(f.value, ast.Name) and (f.value.id in ("self", "cls") or f.value.id[:1].isupper()):
                return _u.get(f.attr)
            return None
        from . import domains as _domains
        _domains.set_resolver(_resolve_unique)
        for modname, path, rel, src, tree, is_pkg in parsed:
            if os.environ.get("AGILINT_CANON", "1") != "0":
                canonicalise_comparisons(tree)
                canonicalise_branches(tree)
            if os.environ.get("AGILINT_INLINE", "1") != "0":
                # after the branch orientation: `if not (a is None): X else: Y` must first become `if a is None: Y else: X`
                canonicalise_negations(tree)
            mod = Mod(modname, path, rel, src, tree, is_pkg=is_pkg)
            self._index(mod)
            self.mods[modname] = mod
            self.n_files += 1

    def _index(self, mod: Mod) -> None:
        for node in ast.walk(mod.tree):
            if isinstance(node, ast.Import):
                for a in node.names:
                    mod.imports[a.asname or a.name.split(".")[0]] = (
                        a.name if a.asname else a.name.split(".")[0]
                    )
            elif isinstance(node, ast.ImportFrom):
                base = node.module or ""
                if node.level:
                    parts = mod.name.split(".")
                    if not mod.is_pkg:
                        parts = parts[:-1]
                    parts = parts[: len(parts) - (node.level - 1)]
                    base = ".".join(parts + ([node.module] if node.module else []))
                for a in node.names:
                    mod.imports[a.asname or a.name] = f"{base}.{a.name}"
        for node in mod.tree.body:
            self._index_stmt(mod, node)

    def _index_stmt(self, mod: Mod, node: ast.stmt) -> None:
        if isinstance(node, (ast.FunctionDef, ast.AsyncFunctionDef)):
            mod.functions[node.name] = Fn(node.name, node.name, node, mod)
            self.n_functions += 1
        elif isinstance(node, ast.ClassDef):
            cls = Cls(node.name, node, mod, base_exprs=list(node.bases))
            for sub in node.body:
                if isinstance(sub, (ast.FunctionDef, ast.AsyncFunctionDef)):
                    # property setters share the name; keep getter under name, setter under name.setter
                    key = sub.name
                    if any(
                        isinstance(d, ast.Attribute) and d.attr in ("setter", "deleter")
                        for d in sub.decorator_list
                    ):
                        key = f"{sub.name}.setter"
                    cls.methods[key] = Fn(sub.name, f"{node.name}.{sub.name}", sub, mod, cls)
                    self.n_functions += 1
            mod.classes[node.name] = cls
            self.n_classes += 1
        elif isinstance(node, (ast.If, ast.Try)):
            for sub in ast.iter_child_nodes(node):
                if isinstance(sub, ast.stmt):
                    self._index_stmt(mod, sub)

    # ------------------------------------------------------------------ lookup
    def mod(self, name: str) -> Mod:
        m = self.mods.get(name)
        if m is None:
            raise AnalysisError(f"anchor module {name} not found")
        return m

    def resolve(self, mod: Mod, name: str, _depth: int = 0) -> Union[Cls, Fn, None]:
        """Resolve a (possibly dotted) name used in `mod` to a class/function of the package."""
        if _depth > 6:
            return None
        head, _, rest = name.partition(".")
        if not rest:
            if head in mod.classes:
                return mod.classes[head]
            if head in mod.functions:
                return mod.functions[head]
        target = mod.imports.get(head)
        if target is None:
            return None
        full = target + ("." + rest if rest else "")
        return self.resolve_dotted(full, _depth + 1)

    def resolve_dotted(self, full: str, _depth: int = 0) -> Union[Cls, Fn, None]:
        parts = full.split(".")
        for i in range(len(parts), 0, -1):
            mname = ".".join(parts[:i])
            if mname in self.mods:
                m = self.mods[mname]
                rest = parts[i:]
                if not rest:
                    return None
                if len(rest) == 1:
                    if rest[0] in m.classes:
                        return m.classes[rest[0]]
                    if rest[0] in m.functions:
                        return m.functions[rest[0]]
                    return self.resolve(m, rest[0], _depth + 1)
                if len(rest) == 2 and rest[0] in m.classes:
                    return m.classes[rest[0]].methods.get(rest[1])
                return self.resolve(m, ".".join(rest), _depth + 1)
        return None

    def cls(self, modname: str, name: str) -> Cls:
        c = self.mod(modname).classes.get(name)
        if c is None:
            raise AnalysisError(f"anchor class {modname}.{name} not found")
        return c

    def fn(self, modname: str, qualname: str) -> Fn:
        m = self.mod(modname)
        if "." in qualname:
            cname, fname = qualname.split(".", 1)
            c = m.classes.get(cname)
            f = c.methods.get(fname) if c else None
        else:
            f = m.functions.get(qualname)
        if f is None:
            raise AnalysisError(f"anchor function {modname}:{qualname} not found")
        return f

    def find_class(self, name: str) -> Optional[Cls]:
        hits = [m.classes[name] for m in self.mods.values() if name in m.classes]
        return hits[0] if len(hits) == 1 else (hits[0] if hits else None)

    def all_classes(self) -> Iterable[Cls]:
        for m in self.mods.values():
            yield from m.classes.values()

    def all_functions(self) -> Iterable[Fn]:
        for m in self.mods.values():
            yield from m.functions.values()
            for c in m.classes.values():
                yield from c.methods.values()

    # ------------------------------------------------------------------ hierarchy
    def bases(self, cls: Cls) -> List[Cls]:
        out = []
        for b in cls.base_exprs:
            if isinstance(b, ast.Subscript):
                b = b.value
            r = self.resolve(cls.mod, dotted(b))
            if isinstance(r, Cls):
                out.append(r)
        return out

    def mro(self, cls: Cls) -> List[Cls]:
        """Linearisation (C3 where it succeeds, depth-first otherwise) over package classes."""
        seqs = [self.mro(b) for b in self.bases(cls)] + [self.bases(cls)]
        res = [cls]
        seqs = [list(s) for s in seqs if s]
        while seqs:
            for s in seqs:
                cand = s[0]
                if not any(cand in t[1:] for t in seqs):
                    break
            else:
                # inconsistent: fall back to DFS order
                seen = list(res)
                for s in seqs:
                    for c in s:
                        if c not in seen:
                            seen.append(c)
                return seen
            res.append(cand)
            seqs = [[c for c in s if c is not cand] for s in seqs]
            seqs = [s for s in seqs if s]
        return res

    def is_subclass(self, cls: Cls, base_name: str) -> bool:
        return any(c.name == base_name for c in self.mro(cls))

    def external_base_names(self, cls: Cls) -> List[str]:
        out = []
        for c in self.mro(cls):
            for b in c.base_exprs:
                if isinstance(b, ast.Subscript):
                    b = b.value
                if not isinstance(self.resolve(c.mod, dotted(b)), Cls):
                    out.append(dotted(b))
        return out

    def find_method(self, cls: Cls, name: str) -> Optional[Fn]:
        for c in self.mro(cls):
            if name in c.methods:
                return c.methods[name]
        return None

    def subclasses(self, base_name: str) -> List[Cls]:
        return [c for c in self.all_classes() if c.name != base_name and self.is_subclass(c, base_name)]

    def overrides(self, base_name: str, method: str) -> List[Fn]:
        out = []
        for c in self.all_classes():
            if method in c.methods and self.is_subclass(c, base_name):
                out.append(c.methods[method])
        return out
