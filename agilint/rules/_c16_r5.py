"""C16.12 (helper module of c16), added after the fifth round of seeded changes.

* C16.12  re-evaluation pairs every stored action with ITS observation: PPO.learn flattens the (steps, envs, ...) rollout fields (observations, actions,
          log-probabilities, advantages, returns, values) with one helper and then indexes all of them with the same minibatch rows.  The rows of
          the flattened fields are aligned only if every site that merges the two leading axes does so in the same axis order: each `reshape` /
          `view` / `flatten` of the helper receives its array through the same sequence of axis permutations (swapaxes / transpose / permute /
          moveaxis / .T) on every path from the array handed in — either all swap (steps, envs) first or none does.  A path that skips the swap for
          arrays of some rank flattens the 2-D fields (actions, log-probs, advantages) step-major and the observations env-major:
          `evaluate_actions` then re-evaluates stored actions against other rows' observations.

The signature of a site is computed over the def-use chain (CFG reaching definitions, every alternative followed), not over the text: temporaries,
guard clauses, method vs function form (`a.swapaxes(0, 1)` / `np.swapaxes(a, 0, 1)`) and `transpose(0, 1)` vs `swapaxes(1, 0)` give the same signature.
"""
from __future__ import annotations

import ast
from collections import Counter
from typing import FrozenSet, List, Optional, Set, Tuple

from ..cfg import CFG, Node
from ..core import Fn, Repo, calls_in, const_value, dotted, last_attr, short
from ..report import Check

MERGE = {"reshape", "view", "flatten"}
PERMUTE = {"swapaxes", "swapdims", "transpose", "permute", "moveaxis", "movedim"}
LIBS = {"np", "numpy", "torch", "th", "jnp"}
Sig = Tuple[Tuple[str, ...], ...]


def _op(name: str, args: List[ast.AST]) -> Tuple[str, ...]:
    vals = [const_value(a) for a in args]
    if name in ("swapaxes", "swapdims", "transpose") and len(vals) == 2 and all(isinstance(v, int) for v in vals):
        return ("swap",) + tuple(str(v) for v in sorted(vals))
    if name == "transpose" and not args:
        return ("T",)
    return (name,) + tuple(ast.dump(a) for a in args)


def _sigs(cfg: CFG, e: Optional[ast.AST], at: Optional[Node], depth: int = 0) -> Set[Sig]:
    """the sequences of axis permutations the array value of `e` went through since it entered the function, one per def-use alternative"""
    if e is None or at is None or depth > 14:
        return {()}
    if isinstance(e, ast.Call) and isinstance(e.func, ast.Attribute):
        f = e.func
        fun_form = dotted(f.value) in LIBS
        recv = (e.args[0] if e.args else None) if fun_form else f.value
        rest = list(e.args[1:] if fun_form else e.args) + [k.value for k in e.keywords]
        inner = _sigs(cfg, recv, at, depth + 1)
        if f.attr in PERMUTE:
            return {s + (_op(f.attr, rest),) for s in inner}
        return inner
    if isinstance(e, ast.Attribute) and e.attr in ("T", "mT"):
        return {s + (("T",),) for s in _sigs(cfg, e.value, at, depth + 1)}
    if isinstance(e, (ast.Subscript, ast.Starred)):
        return _sigs(cfg, e.value, at, depth + 1)
    if isinstance(e, ast.IfExp):
        return _sigs(cfg, e.body, at, depth + 1) | _sigs(cfg, e.orelse, at, depth + 1)
    if isinstance(e, ast.Name):
        out: Set[Sig] = set()
        for d in cfg.defs_reaching(at, e.id):
            v = cfg.value_of_def(d, e.id)
            out |= _sigs(cfg, v, d, depth + 1) if v is not None and d is not at else {()}
        return out or {()}
    return {()}


def _show(sig: Sig) -> str:
    return " -> ".join(o[0] + "(" + ", ".join(o[1:]) + ")" if o[0] == "swap" else o[0] for o in sig) or "no permutation"


def _merge_sites(scope: ast.AST) -> List[Tuple[ast.Call, Optional[ast.AST]]]:
    out = []
    for c in calls_in(scope):
        if isinstance(c.func, ast.Attribute) and c.func.attr in MERGE:
            fun_form = dotted(c.func.value) in LIBS
            out.append((c, (c.args[0] if c.args else None) if fun_form else c.func.value))
    return out


def run_r5(ck: Check, repo: Repo) -> None:
    ck.rule("C16.12", "re-evaluation pairs each stored action with its own observation: every site of the rollout-flattening helper that merges the leading "
                      "(steps, envs) axes receives its array through the same axis permutations on every path (all swap the two axes first, or none), "
                      "so the flattened observations, actions, log-probabilities and advantages stay row-aligned")
    learn = repo.fn("agilerl.algorithms.ppo", "PPO.learn")
    names = {last_attr(c) for c in calls_in(learn.node)}
    helpers = [f for n, f in repo.mod("agilerl.utils.algo_utils").functions.items() if n in names and "flatten" in n]
    ck.floor("C16.12", len(helpers), 1, "rollout-flattening helpers of algo_utils called by PPO.learn")
    for fn in helpers:
        scopes = [x for x in ast.walk(fn.node) if isinstance(x, (ast.FunctionDef, ast.AsyncFunctionDef))]
        sites: List[Tuple[ast.Call, FrozenSet[Sig]]] = []
        for sc in scopes:
            found = _merge_sites(sc)
            if not found:
                continue
            cfg = CFG(sc)
            for c, recv in found:
                sites.append((c, frozenset(_sigs(cfg, recv, cfg.node_of(c)))))
        ck.floor("C16.12", len(sites), 1, "sites merging the (steps, envs) axes", fn=fn)
        if not sites:
            continue
        cnt = Counter(s for _, ss in sites for s in ss)
        ref = max(cnt, key=lambda s: (cnt[s], len(s)))
        for c, ss in sites:
            ok = ss == frozenset({ref})
            other = sorted(_show(s) for s in ss if s != ref)
            ck.ob("C16.12", fn, c, ok, f"{fn.qualname}: `{short(c, 60)}` flattens in the common axis order ({_show(ref)})",
                  detail="" if ok else f"on some path the array reaches this site through [{'; '.join(other)}] while the other fields go through [{_show(ref)}]: "
                  "2-D fields (actions, log-probs, advantages) and observations are flattened in different row orders, stored actions are re-evaluated against other rows' observations",
                  construct=f"{fn.qualname}: axis order before `{short(c, 40)}`")
