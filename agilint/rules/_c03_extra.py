"""C03.10 – C03.12 (helper module of c03), added after the second round of seeded changes.

* C03.10  the net-config validators accept the number types the mutation methods produce: a width that is changed by an amount drawn with
          np.random.choice becomes a numpy integer, and the constructor description (init_dict / net_config) is re-validated on every rebuild;
* C03.11  a convolution layer added to a 3-d (multi-agent) CNN has kernel depth 1: the first layer consumes the whole depth axis, so any deeper
          kernel on a later layer is larger than its input;
* C03.12  rebuild agreement for widths computed from several attributes: an input width that __init__ computes with a formula over self attributes /
          constructor arguments is computed with the same formula in recreate_network (the builder-call agreement C03.9 compares keyword
          arguments only; positional layer sizes such as nn.Linear(<in>, <out>) are compared here).
"""
from __future__ import annotations

import ast
import copy
from typing import Dict, List, Optional, Set, Tuple

from ..cfg import CFG
from ..core import AnalysisError, Cls, Fn, Repo, call_name, calls_in, const_value, dotted, get_kw, last_attr, short, walk_no_nested
from ..report import Check

# module class -> validator of its net config in agilerl.networks.base
VALIDATORS = {"EvolvableLSTM": "assert_correct_lstm_net_config", "EvolvableSimBa": "assert_correct_simba_net_config"}
_NUMPY_INTS = ("np.int64", "np.integer", "numpy.int64", "numpy.integer", "numbers.Integral", "Integral")


def run_extra(ck: Check, repo: Repo) -> None:
    _validators(ck, repo)
    _added_3d_kernel(ck, repo)
    _width_formulas(ck, repo)
    _forwarded_follow_replacement(ck, repo)
    _optional_args_by_identity(ck, repo)
    _constructor_forwarding(ck, repo)
    _head_names(ck, repo)


# ------------------------------------------------------------------------------------------------ C03.10
def _numpy_valued_attrs(repo: Repo, cls: Cls) -> Dict[str, ast.AST]:
    """self attributes that a method changes by an amount whose definition is a numpy draw (np.random.choice / randint)."""
    out: Dict[str, ast.AST] = {}
    for m in cls.methods.values():
        cfg = None
        for x in walk_no_nested(m.node):
            if isinstance(x, ast.AugAssign) and isinstance(x.target, ast.Attribute) and dotted(x.target.value) == "self" and isinstance(x.value, ast.Name):
                if cfg is None:
                    cfg = CFG(m.node)
                node = cfg.node_of(x)
                if node is None:
                    continue
                for d in cfg.defs_reaching(node, x.value.id):
                    v = cfg.value_of_def(d, x.value.id)
                    if v is not None and any(isinstance(c, ast.Call) and call_name(c) in ("np.random.choice", "np.random.randint", "numpy.random.choice") for c in ast.walk(v)):
                        out[x.target.attr] = x
    return out


def _validators(ck: Check, repo: Repo) -> None:
    ck.rule("C03.10", "the net-config validators accept the number types the mutation methods produce: a width changed by a numpy-drawn amount is a numpy "
                      "integer afterwards, and every rebuild from the constructor description passes through the validator of that config")
    n = 0
    for cname, vname in VALIDATORS.items():
        modname = {"EvolvableLSTM": "agilerl.modules.lstm", "EvolvableSimBa": "agilerl.modules.simba"}[cname]
        cls = repo.cls(modname, cname)
        attrs = _numpy_valued_attrs(repo, cls)
        val = repo.fn("agilerl.networks.base", vname)
        for attr, site in sorted(attrs.items()):
            # isinstance(net_config["<attr>"], T)
            tests = [c for c in calls_in(val.node, nested=True) if call_name(c) == "isinstance" and len(c.args) == 2 and isinstance(c.args[0], ast.Subscript)
                     and const_value(c.args[0].slice) == attr]
            for t in tests:
                n += 1
                kinds = [dotted(e) for e in (t.args[1].elts if isinstance(t.args[1], ast.Tuple) else [t.args[1]])]
                ok = "int" in kinds and any(k in _NUMPY_INTS for k in kinds) or any(k in ("numbers.Integral", "Integral", "np.integer") for k in kinds)
                ck.ob("C03.10", val, t, ok, f"{vname}: `{attr}` may be a numpy integer (it is changed by a numpy-drawn amount in {cname})",
                      detail=f"accepted types: {kinds}; {cname} updates self.{attr} by `{short(site, 50)}` with an amount drawn by np.random.choice, so after one node mutation "
                             f"init_dict['{attr}'] is numpy.int64 and clone() / re-creation from the constructor description fails the assertion",
                      construct=f"{vname}: type test of {attr}")
    ck.floor("C03.10", n, 2, "type tests of numpy-valued widths in net-config validators")
    # ... and so do the constructors themselves: clone() and the checkpoint loaders call cls(**init_dict) with the attribute's current value
    m = 0
    for mod in repo.mods.values():
        # the building blocks the property quantifies over (MLP, CNN, LSTM, SimBa, ResNet, multi-input); the language-model blocks (gpt, bert) are outside it
        if not mod.name.startswith("agilerl.modules") or mod.name.split(".")[-1] in ("gpt", "bert"):
            continue
        for cls in mod.classes.values():
            init = cls.methods.get("__init__")
            if init is None:
                continue
            attrs = _numpy_valued_attrs(repo, cls)
            if not attrs:
                continue
            for t in calls_in(init.node):
                if not (call_name(t) == "isinstance" and len(t.args) == 2 and isinstance(t.args[0], ast.Name) and t.args[0].id in attrs and t.args[0].id in init.params):
                    continue
                # only type tests that reject (inside an assert, or a test that leads to a raise) matter; an isinstance used for dispatch is not one
                if not any(isinstance(a, ast.Assert) and any(x is t for x in ast.walk(a.test)) for a in walk_no_nested(init.node)):
                    continue
                m += 1
                kinds = [dotted(e) for e in (t.args[1].elts if isinstance(t.args[1], ast.Tuple) else [t.args[1]])]
                ok = any(k in _NUMPY_INTS for k in kinds)
                attr = t.args[0].id
                ck.ob("C03.10", init, t, ok, f"{cls.name}.__init__: `{attr}` may be a numpy integer (it is changed by a numpy-drawn amount in a mutation method)",
                      detail=f"accepted types: {kinds}; `{short(attrs[attr], 50)}` makes self.{attr} a numpy.int64, init_dict carries it, and {cls.name}(**init_dict) — clone(), "
                             f"checkpoint loading — fails this assertion",
                      construct=f"{cls.name}.__init__: type test of {attr}")
    ck.note("C03.10_constructor_type_tests", m)


# ------------------------------------------------------------------------------------------------ C03.11
def _added_3d_kernel(ck: Check, repo: Repo) -> None:
    ck.rule("C03.11", "a layer added to a 3-d CNN gets kernel depth 1 (the first layer consumes the depth axis; a deeper kernel on a later layer exceeds its input)")
    fn = repo.fn("agilerl.modules.cnn", "MutableKernelSizes.add_layer")
    tuples3 = [a for a in walk_no_nested(fn.node) if isinstance(a, ast.Assign) and isinstance(a.value, ast.Tuple) and len(a.value.elts) == 3]
    ck.floor("C03.11", len(tuples3), 1, "3-tuple kernel built for an added layer", fn=fn)
    for a in tuples3:
        d = a.value.elts[0]
        ck.ob("C03.11", fn, a, const_value(d) == 1, "MutableKernelSizes.add_layer: the depth component of an added 3-d kernel is 1",
              detail=f"depth = `{short(d, 40)}`: with a sample depth of 2 or more the rebuilt network raises 'Kernel size can't be greater than actual input size' "
                     "(the first layer has already reduced the depth axis to 1)",
              construct="MutableKernelSizes.add_layer: depth of an added 3-d kernel")


# ------------------------------------------------------------------------------------------------ C03.12
def _canon(e: ast.AST, pmap: Dict[str, str]) -> str:
    class T(ast.NodeTransformer):
        def visit_Attribute(self, n):
            if dotted(n.value) == "self":
                return ast.Name(id="@" + n.attr, ctx=ast.Load())
            return self.generic_visit(n)

        def visit_Name(self, n):
            return ast.Name(id="@" + pmap[n.id], ctx=ast.Load()) if n.id in pmap else n
    return ast.unparse(T().visit(copy.deepcopy(e)))


def _resolve_local(cfg: CFG, node, e: ast.AST, depth: int = 3) -> ast.AST:
    """Replace single-definition locals by their definitions (so `features_dim` becomes its formula)."""
    if depth == 0:
        return e

    class T(ast.NodeTransformer):
        def visit_Name(self, n):
            ds = cfg.defs_reaching(node, n.id)
            vs = [cfg.value_of_def(d, n.id) for d in ds]
            if len(vs) == 1 and vs[0] is not None and not isinstance(vs[0], ast.Call):
                return _resolve_local(cfg, ds[0], copy.deepcopy(vs[0]), depth - 1)
            if len(vs) == 1 and isinstance(vs[0], ast.Call) and dotted(vs[0].func).startswith("self."):
                return copy.deepcopy(vs[0])
            return n
    return T().visit(copy.deepcopy(e))


def _width_formulas(ck: Check, repo: Repo) -> None:
    ck.rule("C03.12", "layer sizes computed by a formula agree between construction and rebuild: the positional sizes of nn.Linear(...) built in __init__ and of "
                      "the nn.Linear(...) that replaces it in recreate_network are the same expression over the module's attributes")
    n = 0
    for modname in ("agilerl.modules.multi_input",):
        for cls in repo.mod(modname).classes.values():
            init, rec = cls.methods.get("__init__"), cls.methods.get("recreate_network")
            if init is None or rec is None:
                continue
            icfg, rcfg = CFG(init.node), CFG(rec.node)
            params = set(init.named_params[1:])
            pmap = {p: p for p in params}
            for a in walk_no_nested(init.node):
                if isinstance(a, ast.Assign) and len(a.targets) == 1 and dotted(a.targets[0]).startswith("self.") and isinstance(a.value, ast.Name) and a.value.id in params:
                    pmap[a.value.id] = dotted(a.targets[0])[5:]
            # self.X = nn.Linear(A, B, ...) in __init__
            for a in walk_no_nested(init.node):
                if not (isinstance(a, ast.Assign) and dotted(a.targets[0]).startswith("self.") and isinstance(a.value, ast.Call) and call_name(a.value) == "nn.Linear"):
                    continue
                attr = dotted(a.targets[0])[5:]
                # the rebuilt layer: a local bound to nn.Linear(...) that flows into self.<attr>
                rebuilt = []
                for b in walk_no_nested(rec.node):
                    if isinstance(b, ast.Assign) and isinstance(b.value, ast.Call) and call_name(b.value) == "nn.Linear":
                        tgt = dotted(b.targets[0])
                        if tgt == f"self.{attr}" or any(isinstance(c, ast.Assign) and dotted(c.targets[0]) == f"self.{attr}" and any(isinstance(x, ast.Name) and x.id == tgt for x in ast.walk(c.value))
                                                       for c in walk_no_nested(rec.node)):
                            rebuilt.append(b)
                for b in rebuilt:
                    for pos in range(min(len(a.value.args), len(b.value.args), 2)):
                        n += 1
                        ia = _resolve_local(icfg, icfg.node_of(a), a.value.args[pos])
                        # attributes that __init__ itself computes by calling one of its own methods stand for that call
                        computed = {dotted(x.targets[0])[5:]: x.value for x in walk_no_nested(init.node) if isinstance(x, ast.Assign) and dotted(x.targets[0]).startswith("self.")
                                    and isinstance(x.value, ast.Call) and dotted(x.value.func).startswith("self.")}

                        class S(ast.NodeTransformer):
                            def visit_Attribute(self, nd):
                                if dotted(nd.value) == "self" and nd.attr in computed:
                                    return copy.deepcopy(computed[nd.attr])
                                return self.generic_visit(nd)
                        ia = S().visit(ia)
                        ra = _resolve_local(rcfg, rcfg.node_of(b), b.value.args[pos])
                        ci, cr = _canon(ia, pmap), _canon(ra, {})
                        ck.ob("C03.12", rec, b, ci == cr, f"{cls.name}.{attr}: size {pos} of the rebuilt layer is computed as in __init__",
                              detail=f"__init__: {ci}; recreate_network: {cr} — after a mutation the layer no longer fits the features it receives (forward raises a shape error) "
                                     "and the constructor description builds a different layer than the live one",
                              construct=f"{cls.name}.{attr}: nn.Linear size {pos}")
    ck.floor("C03.12", n, 2, "positional layer sizes compared between __init__ and recreate_network")


# ------------------------------------------------------------------------------------------------ C03.13
def _forwarded_follow_replacement(ck: Check, repo: Repo) -> None:
    ck.rule("C03.13", "forwarded mutation methods follow a replaced sub-module: ModuleMeta installs, on every new instance, wrappers around the bound methods of "
                      "its sub-modules (`encoder.add_node` ...); when a rebuild assigns a new sub-module under the same name, EvolvableModule.__setattr__ "
                      "re-installs those wrappers around the new module's methods (otherwise a second mutation on the same instance changes the discarded module)")
    meta = repo.fn("agilerl.modules.base", "ModuleMeta.__call__")
    installs = [c for c in calls_in(meta.node, nested=True) if call_name(c) == "setattr" and len(c.args) == 3 and isinstance(c.args[2], ast.Call)
                and call_name(c.args[2]) == "_mutation_wrapper"]
    ck.ob("C03.13", meta, installs[0] if installs else meta.node, bool(installs), "ModuleMeta.__call__ installs instance-level wrappers for (nested) mutation methods",
          construct="ModuleMeta.__call__: wrapper installation")
    sa = repo.fn("agilerl.modules.base", "EvolvableModule.__setattr__")
    cfg = CFG(sa.node)
    value_p = sa.named_params[2] if len(sa.named_params) > 2 else "value"
    sup = [cfg.node_of(c) for c in calls_in(sa.node) if last_attr(c) == "__setattr__" and isinstance(c.func.value, ast.Call) and call_name(c.func.value) == "super"]
    re_installs = []
    for lp in [x for x in ast.walk(sa.node) if isinstance(x, ast.For)]:
        over_new = any(isinstance(c, ast.Call) and last_attr(c) == "get_mutation_methods" and dotted(c.func.value) == value_p for c in ast.walk(lp.iter))
        if not over_new:
            continue
        for c in calls_in(lp, nested=True):
            if (call_name(c) in ("setattr", "object.__setattr__") or last_attr(c) == "__setattr__") and c.args and isinstance(c.args[-1], ast.Call) \
                    and call_name(c.args[-1]) == "_mutation_wrapper":
                re_installs.append(c)
    ok = bool(installs) and bool(re_installs)
    ck.ob("C03.13", sa, re_installs[0] if re_installs else sa.node, ok or not installs,
          "EvolvableModule.__setattr__ re-installs the forwarded wrappers around the methods of a newly assigned sub-module",
          detail="no re-installation found: after a network-level mutation (add_latent_node ...) replaced the encoder, `encoder.add_node` on the same instance still calls the "
                 "discarded encoder — QNetwork(Box(4), Discrete(3), latent_dim=16): add_latent_node(); getattr(q, 'encoder.add_node')() leaves hidden_size [16, 48] with "
                 "weights of the old shape and last_mutation_attr None; q.clone() then computes different outputs (0.108 in the probe)",
          construct="EvolvableModule.__setattr__: re-installation of forwarded wrappers")


# ------------------------------------------------------------------------------------------------ C03.14
def _aliases(fn: Fn, params: Set[str]) -> Dict[str, str]:
    """local -> parameter, for locals whose every definition is `local = <parameter>` (what the front end produces when it inlines a helper
    that re-binds its own parameter, and what a developer writes as `layer = hidden_layer`)."""
    defs: Dict[str, List[ast.AST]] = {}
    for x in walk_no_nested(fn.node):
        if isinstance(x, ast.Assign) and len(x.targets) == 1 and isinstance(x.targets[0], ast.Name):
            defs.setdefault(x.targets[0].id, []).append(x.value)
        elif isinstance(x, (ast.AugAssign, ast.AnnAssign)) and isinstance(x.target, ast.Name):
            defs.setdefault(x.target.id, []).append(None)
        elif isinstance(x, (ast.For, ast.comprehension)):
            for n in ast.walk(x.target):
                if isinstance(n, ast.Name):
                    defs.setdefault(n.id, []).append(None)
    out: Dict[str, str] = {}
    for name, vals in defs.items():
        if name in params:
            continue
        # first definition is the parameter itself; later re-bindings (the resolved value) end the alias only for uses after them — the truth
        # test that matters is the one applied to the value as passed, so an alias is a local whose FIRST definition is the bare parameter
        if vals and isinstance(vals[0], ast.Name) and vals[0].id in params:
            out[name] = vals[0].id
    return out


def _truth_tests(fn: Fn, names: Dict[str, str]) -> List[Tuple[ast.AST, str]]:
    """(node, parameter) for every use of one of the names as a truth value: `if p`, `if not p`, `p or d`, `p and x`, `x if p else y`, `while p`."""
    hits: List[Tuple[ast.AST, str]] = []

    def direct(e: ast.AST) -> Optional[str]:
        while isinstance(e, ast.UnaryOp) and isinstance(e.op, ast.Not):
            e = e.operand
        return names.get(e.id) if isinstance(e, ast.Name) else None

    for x in walk_no_nested(fn.node):
        tests: List[ast.AST] = []
        if isinstance(x, (ast.If, ast.While, ast.IfExp)):
            tests.append(x.test)
        elif isinstance(x, ast.Assert):
            tests.append(x.test)
        elif isinstance(x, ast.BoolOp):
            tests.extend(x.values[:-1] if isinstance(x.op, ast.Or) else x.values)
        for t in tests:
            for d in ([t] + (list(t.values) if isinstance(t, ast.BoolOp) else [])):
                p = direct(d)
                if p is not None:
                    hits.append((d, p))
    return hits


def _optional_args_by_identity(ck: Check, repo: Repo) -> None:
    ck.rule("C03.14", "an advertised mutation does what its arguments say: an optional numeric argument (layer index, number of nodes / channels) that defaults to None "
                      "is recognised as absent by `is None` only — a truth test would treat the legal value 0 (the first layer) as 'not given' and re-draw it, "
                      "so a mutation replayed on a critic with the policy's recorded arguments lands on another layer")
    from .c03 import mutation_methods
    n_params = 0
    for mod in repo.mods.values():
        if not mod.name.startswith("agilerl.modules") and not mod.name.startswith("agilerl.networks") and mod.name != "agilerl.wrappers.make_evolvable":
            continue
        for cls in mod.classes.values():
            for fn, _kind, _ in mutation_methods(cls):
                a = fn.node.args
                pos = a.args[-len(a.defaults):] if a.defaults else []
                opt = {p.arg for p, d in zip(pos, a.defaults) if isinstance(d, ast.Constant) and d.value is None}
                opt |= {p.arg for p, d in zip(a.kwonlyargs, a.kw_defaults) if isinstance(d, ast.Constant) and d.value is None}
                # numeric ones: annotated Optional[int] / Optional[float] / int | None, or unannotated
                def numeric(arg: ast.arg) -> bool:
                    t = ast.unparse(arg.annotation) if arg.annotation is not None else ""
                    return t == "" or any(k in t for k in ("int", "float", "Number"))
                opt = {p.arg for p in list(a.args) + list(a.kwonlyargs) if p.arg in opt and numeric(p)}
                if not opt:
                    continue
                n_params += len(opt)
                names = {p: p for p in opt}
                names.update(_aliases(fn, opt))
                hits = _truth_tests(fn, names)
                seen: Set[str] = set()
                for node, p in hits:
                    if p in seen:
                        continue
                    seen.add(p)
                    ck.ob("C03.14", fn, node, False, f"{fn.qualname}: the optional argument `{p}` is tested against None, not by its truth value",
                          detail=f"`{short(node, 60)}` is also false for {p}=0", construct=f"{fn.qualname}: presence test of `{p}`")
                for p in sorted(opt - seen):
                    ck.ob("C03.14", fn, fn.node, True, f"{fn.qualname}: the optional argument `{p}` is tested against None, not by its truth value",
                          construct=f"{fn.qualname}: presence test of `{p}`")
    ck.floor("C03.14", n_params, 20, "optional numeric arguments of advertised mutation methods")


# ------------------------------------------------------------------------------------------------ C03.15
def _init_params(fn: Fn) -> List[str]:
    a = fn.node.args
    return [x.arg for x in a.args[1:]] + [x.arg for x in a.kwonlyargs]


def _constructor_forwarding(ck: Check, repo: Repo) -> None:
    ck.rule("C03.15", "declared bounds reach the class that enforces them: a constructor parameter that the base-class constructor also takes (min / max sizes, "
                      "latent width bounds, device, ...) is forwarded in the super().__init__ call — otherwise the base class silently applies its own default "
                      "and the network mutates outside the range it was declared with")
    n = 0
    for mod in repo.mods.values():
        if not (mod.name.startswith("agilerl.modules") or mod.name.startswith("agilerl.networks")):
            continue
        for cls in mod.classes.values():
            init = cls.methods.get("__init__")
            if init is None:
                continue
            sup = [c for c in calls_in(init.node) if isinstance(c.func, ast.Attribute) and c.func.attr == "__init__" and isinstance(c.func.value, ast.Call)
                   and call_name(c.func.value) == "super"]
            if len(sup) != 1:
                continue
            base = next((b for b in repo.mro(cls)[1:] if "__init__" in b.methods), None)
            if base is None:
                continue
            bp = _init_params(base.methods["__init__"])
            own = _init_params(init)
            c = sup[0]
            if any(k.arg is None for k in c.keywords) or any(isinstance(a, ast.Starred) for a in c.args):
                continue
            passed: Dict[str, ast.AST] = {k.arg: k.value for k in c.keywords if k.arg}
            for i, a in enumerate(c.args):
                if i < len(bp):
                    passed[bp[i]] = a
            shared = [p for p in own if p in bp]
            if not shared:
                continue
            n += 1
            missing = [p for p in shared if p not in passed]
            ck.ob("C03.15", init, c, not missing, f"{cls.name}.__init__ forwards every parameter it shares with {base.name}.__init__",
                  detail=f"not forwarded: {missing} — {base.name} applies its own default for them" if missing else "",
                  construct=f"{cls.name}: super().__init__ forwarding")
    ck.floor("C03.15", n, 15, "constructors that share parameters with their base-class constructor")


# ------------------------------------------------------------------------------------------------ C03.16
def _head_names(ck: Check, repo: Repo) -> None:
    """The constructor description rebuilds an architecture that accepts the current weights: a head that is built under one name and rebuilt
    under another changes every state-dict key (obligations of C04.9, which compares build_network_head with recreate_network)."""
    from dataclasses import replace
    from . import c04
    sub = Check("C04", ck.tier, ck.repo_root)
    sub.known = []
    sub.rule("C04.9", "shared")
    c04._head_agreement(sub, repo)
    ck.rule("C03.16", "a network head is rebuilt the way it was built (same builder, same name and keyword set in build_network_head and recreate_network): the state-dict "
                      "keys of a mutated network are the ones its constructor description produces (obligations of C04.9, shared with the C04 check)")
    taken = [replace(o, rule="C03.16") for o in sub.obs if o.rule == "C04.9"]
    if len(taken) < 4:
        raise AnalysisError(f"C03.16: only {len(taken)} obligations taken over from C04.9")
    ck.obs.extend(taken)
