"""C11.10 – C11.11 (helper module of c11), added after the fifth round of seeded changes.

* C11.10  the exponent alpha is fixed at construction: after the constructor has run, NO method of the prioritised buffer changes it.  Every
          path through a method — including the calls it makes on the same object (`self.m(...)`, `super().m(...)`, `Base.m(self, ...)`, and in
          particular a re-run of `self.__init__(...)`) — either does not write the exponent attribute or writes it from the attribute itself
          (`self.alpha`, directly, through temporaries or through the parameter of the callee that the call binds to it).  The leaves of both trees
          are priority ** alpha ("samples index i with probability proportional to priority_i^alpha ... for every alpha"): a `clear()` that
          re-runs the constructor without handing alpha on silently continues with the DEFAULT exponent, a setter leaves old leaves under the
          old exponent.  The attribute is found by its role: the right operand of `**` in `_update_priority`.
* C11.11  a wrapper that samples from the buffer on behalf of a caller who names beta forwards THAT beta: in every function of the sampler
          module with a parameter named like the buffer's exponent parameter (third parameter of `PrioritizedReplayBuffer.sample`), every call
          `<buffer>.sample(...)` carries, in the exponent slot (that keyword or that position), a value whose every reaching definition is the
          wrapper's own parameter — a definition from anything else, or a call that leaves the slot to the buffer's default, is allowed only
          where the path is guarded by `<parameter> is None`; and no path leaves the wrapper normally without such a call.  The weights are
          "(N x P(i))^-beta ... for every beta": `if not beta:` treats the legitimate beta = 0 (all weights 1) as "not given" and the buffer's
          default exponent is used instead.
"""
from __future__ import annotations

import ast
from typing import Dict, List, Optional, Tuple

from ..cfg import CFG, Node
from ..core import Cls, Fn, Repo, call_name, calls_in, dotted, short, walk_no_nested
from ..report import Check

RB = "agilerl.components.replay_buffer"
SAMPLER = "agilerl.components.sampler"

# a frame of the interprocedural walk: (function, its CFG, parameter -> (argument expression, node of the call, frame of the caller))
_Frame = Tuple[Fn, CFG, Dict[str, tuple], bool]


def _origins(cfg: CFG, e: ast.AST, at: Node, _depth: int = 0) -> List[Tuple[str, ast.AST, Node]]:
    """where the value of `e` at `at` comes from: ("param", Name, entry) for a parameter of the function, ("expr", e, node) otherwise;
    looks through conditional expressions and plain local bindings (every reaching definition)."""
    if _depth > 12:
        return [("expr", e, at)]
    if isinstance(e, ast.IfExp):
        return _origins(cfg, e.body, at, _depth + 1) + _origins(cfg, e.orelse, at, _depth + 1)
    if isinstance(e, ast.NamedExpr):
        return _origins(cfg, e.value, at, _depth + 1)
    if isinstance(e, ast.Name):
        out: List[Tuple[str, ast.AST, Node]] = []
        for d in cfg.defs_reaching(at, e.id):
            if d.kind == "entry":
                out.append(("param", e, d))
                continue
            v = cfg.value_of_def(d, e.id)
            if v is None or d is at:
                out.append(("expr", e, d))
            else:
                out += _origins(cfg, v, d, _depth + 1)
        return out or [("expr", e, at)]
    return [("expr", e, at)]


# ---------------------------------------------------------------------------------------------------------------- C11.10
def _exponent_attr(repo: Repo, cls: Cls) -> str:
    """the attribute of the buffer that is the right operand of `**` where a priority is written to the trees."""
    f = repo.find_method(cls, "_update_priority")
    if f is not None:
        me = f.params[0] if f.params else "self"
        for x in walk_no_nested(f.node):
            if isinstance(x, ast.BinOp) and isinstance(x.op, ast.Pow) and isinstance(x.right, ast.Attribute) and dotted(x.right.value) == me:
                return x.right.attr
    return "alpha"


def _self_calls(repo: Repo, recv: Cls, fn: Fn) -> List[Tuple[ast.Call, Fn, bool]]:
    """calls `fn` makes on the object it runs on: (call, callee resolved for an object of class `recv`, True when self is bound implicitly)."""
    me = fn.params[0] if fn.params else "self"
    out: List[Tuple[ast.Call, Fn, bool]] = []
    for c in calls_in(fn.node):
        f = c.func
        if not isinstance(f, ast.Attribute):
            continue
        v, g, implicit = f.value, None, True
        if isinstance(v, ast.Name) and v.id == me:
            g = repo.find_method(recv, f.attr)
        elif isinstance(v, ast.Call) and call_name(v) == "super":
            mro = repo.mro(recv)
            k = next((i for i, c2 in enumerate(mro) if fn.cls is not None and c2 is fn.cls), None)
            for c2 in (mro[k + 1:] if k is not None else []):
                if f.attr in c2.methods:
                    g = c2.methods[f.attr]
                    break
        elif isinstance(v, ast.Name) and c.args and dotted(c.args[0]) == me:
            tgt = repo.resolve(fn.mod, v.id)
            if isinstance(tgt, Cls):
                g, implicit = repo.find_method(tgt, f.attr), False
        if g is not None:
            out.append((c, g, implicit))
    return out


def _bind(call: ast.Call, g: Fn, implicit: bool) -> Tuple[Dict[str, ast.AST], bool]:
    """parameter of g -> argument expression of the call; the flag says that the call has * / ** arguments (binding not known)."""
    a = g.node.args
    pos = [x.arg for x in a.posonlyargs + a.args]
    if implicit and pos:
        pos = pos[1:]
    env: Dict[str, ast.AST] = {}
    opaque = False
    for i, x in enumerate(call.args):
        if isinstance(x, ast.Starred):
            opaque = True
            break
        if i < len(pos):
            env[pos[i]] = x
    for k in call.keywords:
        if k.arg is None:
            opaque = True
        else:
            env[k.arg] = k.value
    return env, opaque


def _kept(frame: _Frame, e: ast.AST, at: Node, attr: str, _depth: int = 0) -> Optional[str]:
    """None when the value of `e` at `at` is the object's own exponent attribute on every path; otherwise what else it may be."""
    fn, cfg, env, opaque = frame
    me = fn.params[0] if fn.params else "self"
    for kind, x, d in _origins(cfg, e, at):
        if kind == "expr":
            if not (isinstance(x, ast.Attribute) and x.attr == attr and dotted(x.value) == me):
                return f"`{short(x, 80)}` ({fn.qualname}, line {getattr(x, 'lineno', d.lineno)})"
            continue
        name = x.id  # type: ignore[attr-defined]
        if name in env and _depth < 8:
            arg, call_at, caller = env[name]
            why = _kept(caller, arg, call_at, attr, _depth + 1)
            if why is not None:
                return why
        elif opaque:
            return f"parameter `{name}` of {fn.qualname}, bound by a * / ** argument"
        elif env is _TOP:
            return f"parameter `{name}` of {fn.qualname} (a caller-supplied value)"
        else:
            return f"the DEFAULT of parameter `{name}` of {fn.qualname} (the call does not hand the exponent on)"
    return None


_TOP: Dict[str, tuple] = {}


def _exponent_writes(repo: Repo, recv: Cls, frame: _Frame, attr: str, stack: List[Fn], via: str, out: List[Tuple[ast.AST, str]], top_node: Optional[ast.AST] = None) -> None:
    fn, cfg, _env, _opq = frame
    me = fn.params[0] if fn.params else "self"
    key = f"{me}.{attr}"
    for n in cfg.live_nodes():
        if n.kind not in ("stmt", "with", "for") or not any(k == key for k, _s in cfg.defs_at(n)):
            continue
        v = cfg.value_of_def(n, key)
        why = "an in-place update / unpacking" if v is None else _kept(frame, v, n, attr)
        if why is not None:
            out.append((top_node if top_node is not None else n.ast, f"{via}`{short(n.ast, 80)}` in {fn.qualname} writes the exponent from {why}"))
    if len(stack) > 6:
        return
    for call, g, implicit in _self_calls(repo, recv, fn):
        if g in stack:
            continue
        at = cfg.node_of(call)
        if at is None:
            continue
        binding, opaque = _bind(call, g, implicit)
        env = {p: (e, at, frame) for p, e in binding.items()}
        _exponent_writes(repo, recv, (g, CFG(g.node), env, opaque), attr, stack + [g], f"{via}`{short(call, 80)}` -> ", out,
                         top_node if top_node is not None else call)


def _exponent_is_fixed(ck: Check, repo: Repo) -> None:
    ck.rule("C11.10", "the exponent alpha is fixed at construction: every path through a method of the prioritised buffer other than the constructor — including the calls it "
                      "makes on the same object (self.m(), super().m(), a re-run of self.__init__()) — either does not write self.alpha or writes it from self.alpha "
                      "(directly, through temporaries, or through the callee parameter the call binds to it); leaves are priority ** alpha for the alpha the buffer was built with")
    per = repo.cls(RB, "PrioritizedReplayBuffer")
    n = 0
    for recv in [per] + [c for c in repo.subclasses("PrioritizedReplayBuffer")]:
        attr = _exponent_attr(repo, recv)
        names: List[str] = []
        for c in repo.mro(recv):
            names += [m for m in c.methods if m not in names]
        for name in names:
            if name in ("__init__", "__new__", "__init_subclass__"):
                continue
            fn = repo.find_method(recv, name)
            if fn is None or not fn.params or fn.has_decorator("staticmethod") or fn.has_decorator("classmethod"):
                continue
            n += 1
            bad: List[Tuple[ast.AST, str]] = []
            _exponent_writes(repo, recv, (fn, CFG(fn.node), _TOP, False), attr, [fn], "", bad)
            ck.ob("C11.10", fn, bad[0][0] if bad else fn.node, not bad, f"{recv.name}.{name} leaves the construction-time exponent self.{attr} unchanged",
                  detail="; ".join(w for _x, w in bad[:3]), construct=f"{recv.name}.{name}: writes of self.{attr} (own and through calls on self)")
    ck.floor("C11.10", n, 8, "methods of the prioritised buffer (own and inherited) examined for writes of the exponent")


# ---------------------------------------------------------------------------------------------------------------- C11.11
def _is_none_test(t: ast.AST, cfg: CFG, at: Node, param: str) -> bool:
    if isinstance(t, ast.Compare) and len(t.ops) == 1 and isinstance(t.ops[0], ast.Is) and isinstance(t.left, ast.Name) \
            and isinstance(t.comparators[0], ast.Constant) and t.comparators[0].value is None:
        return all(k == "param" and x.id == param for k, x, _d in _origins(cfg, t.left, at))  # type: ignore[attr-defined]
    return False


def _not_given(cfg: CFG, n: Node, param: str) -> bool:
    """`n` is only reached when `<param> is None` holds."""
    return any(pol and _is_none_test(t, cfg, tn, param) for t, pol, tn in cfg.guards_at(n))


def _beta_is_forwarded(ck: Check, repo: Repo) -> None:
    ck.rule("C11.11", "a sampler wrapper with the buffer's exponent parameter (beta) forwards the caller's beta: every <buffer>.sample(...) call in it carries, in the beta slot, "
                      "a value whose reaching definitions are the wrapper's own parameter — another value, or leaving the slot to the buffer's default, only on paths guarded by "
                      "`beta is None` — and no path returns normally without such a call (weights are (N P(i))^-beta for every beta, including beta = 0)")
    per = repo.cls(RB, "PrioritizedReplayBuffer")
    smp = repo.find_method(per, "sample")
    if smp is None or len(smp.params) < 3:
        ck.floor("C11.11", 0, 1, "exponent parameter of PrioritizedReplayBuffer.sample")
        return
    bname, bpos = smp.params[2], 1
    mod = repo.mod(SAMPLER)
    wrappers = [f for c in mod.classes.values() for f in c.methods.values() if bname in f.params] + [f for f in mod.functions.values() if bname in f.params]
    ck.floor("C11.11", len(wrappers), 1, f"functions of the sampler module with a `{bname}` parameter")
    for fn in wrappers:
        cfg = CFG(fn.node)
        me = fn.params[0] if fn.params else "self"
        sites: List[Tuple[ast.Call, Node]] = []
        for c in calls_in(fn.node):
            if isinstance(c.func, ast.Attribute) and c.func.attr == smp.name and dotted(c.func.value) not in ("", me) and cfg.node_of(c) is not None:
                sites.append((c, cfg.node_of(c)))
        ck.floor("C11.11", len(sites), 1, f"calls of <buffer>.{smp.name}(...)", fn=fn)
        for c, at in sites:
            slot = next((k.value for k in c.keywords if k.arg == bname), None)
            opaque = any(isinstance(a, ast.Starred) for a in c.args[: bpos + 1]) or any(k.arg is None for k in c.keywords)
            if slot is None and len(c.args) > bpos and not opaque:
                slot = c.args[bpos]
            if slot is None:
                ok = _not_given(cfg, at, bname) and not opaque
                ck.ob("C11.11", fn, c, ok, f"{fn.qualname}: `{short(c, 80)}` leaves `{bname}` to the buffer's default only where the caller gave none (`{bname} is None`)",
                      detail="" if ok else "the call does not carry the caller's exponent; it is reached under " +
                      (", ".join(f"`{short(t, 40)}` is {pol}" for t, pol, _n in cfg.guards_at(at)) or "no guard") +
                      f" — a falsy but legitimate {bname} (0) is replaced by the buffer's default",
                      construct=f"{fn.qualname}: {bname} slot of {short(c.func, 60)}(...)")
                continue
            bad = [f"`{short(x, 60)}` (line {d.lineno})" for k, x, d in _origins(cfg, slot, at)
                   if not (k == "param" and x.id == bname) and not _not_given(cfg, d, bname)]  # type: ignore[attr-defined]
            ck.ob("C11.11", fn, c, not bad, f"{fn.qualname}: the `{bname}` handed to `{short(c.func, 60)}` is the caller's `{bname}` (anything else only where `{bname} is None`)",
                  detail="" if not bad else "it may be " + ", ".join(bad[:3]), construct=f"{fn.qualname}: {bname} slot of {short(c.func, 60)}(...)")
        if sites:
            gap = cfg.path_avoiding(cfg.entry, {cfg.exit.id}, {at.id for _c, at in sites})
            ck.ob("C11.11", fn, fn.node, gap is None, f"{fn.qualname}: no path returns without sampling from the buffer with the caller's `{bname}`",
                  detail="" if gap is None else "path through lines " + ", ".join(str(x.lineno) for x in gap if x.lineno)[:120],
                  construct=f"{fn.qualname}: every path calls <buffer>.{smp.name}")


def run_r5(ck: Check, repo: Repo) -> None:
    _exponent_is_fixed(ck, repo)
    _beta_is_forwarded(ck, repo)
