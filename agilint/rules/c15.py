"""C15 — observation handling is value-correct and batch-, agent- and env-consistent."""
from __future__ import annotations

import ast
from typing import Dict, List, Optional, Set, Tuple

from ..cfg import CFG, Node
from ..core import AnalysisError, Cls, Fn, Repo, call_name, calls_in, const_value, dotted, get_kw, last_attr, short, walk_no_nested
from ..pat import _tree_of, has, has_kw
from ..report import Check
from ..terms import Poly, TermBuilder, single_atom

AU = "agilerl.utils.algo_utils"
BASE = "agilerl.algorithms.core.base"
LEAF = {"Box", "Discrete", "MultiDiscrete", "MultiBinary"}
CONTAINER = {"Dict", "Tuple"}


def _space_branches(fn: Fn, var: str) -> Tuple[Dict[str, ast.AST], Optional[List[ast.stmt]]]:
    """kinds tested with isinstance(<var>, spaces.K) at any nesting level of the if/elif chains (or chained conditional expressions) on `var`; the final else
    body of the outermost chain (a choice nested inside one of its branches refines that branch, it does not replace the chain's default)."""
    kinds: Dict[str, ast.AST] = {}
    last_else: Optional[List[ast.stmt]] = None
    nested: Set[int] = set()  # dispatch nodes that sit inside a branch (not the else-chain) of another dispatch node
    for n in ast.walk(fn.node):
        if isinstance(n, (ast.If, ast.IfExp)) and isinstance(n.test, ast.Call) and call_name(n.test) == "isinstance" and len(n.test.args) == 2 and dotted(n.test.args[0]) == var:
            t = n.test.args[1]
            for x in (t.elts if isinstance(t, ast.Tuple) else [t]):
                d = dotted(x)
                if d.startswith("spaces."):
                    kinds.setdefault(d.split(".")[1], n)
            for b in (n.body if isinstance(n, ast.If) else [n.body]):
                nested |= {id(x) for x in ast.walk(b)}
            # the same dispatch spelled with a conditional expression: its else arm is a branch that cannot raise
            orelse = n.orelse if isinstance(n, ast.If) else ([] if isinstance(n.orelse, ast.IfExp) else [ast.copy_location(ast.Expr(value=n.orelse), n.orelse)])
            if orelse and not (len(orelse) == 1 and isinstance(orelse[0], ast.If)) and id(n) not in nested:
                last_else = orelse
    return kinds, last_else


def _default_exits(fn: Fn, var: str, kind: Optional[str] = None) -> List[ast.stmt]:
    """What a space of kind `kind` runs into (the tests that name spaces.<kind> are left by their true edge); with kind=None, what a space of none of the tested kinds runs into: the `return` / `raise` statements on the paths that leave every `if isinstance(<var>, ...)` test by
    its false edge.  The default of a dispatcher is a set of paths, not a piece of syntax: a final `else:` block, the statements that follow a chain of
    `if K: return ...` guard clauses and a chain that is continued by a second chain are the same program.  (A dispatch spelled as a conditional expression
    is not a test of the control-flow graph: the statement that contains it is an exit of the path through it.)"""
    cfg = CFG(fn.node)
    seen: Set[int] = set()
    out: List[ast.stmt] = []
    todo = [cfg.entry]
    while todo:
        n = todo.pop()
        if n.id in seen:
            continue
        seen.add(n.id)
        if n.kind == "stmt" and isinstance(n.ast, (ast.Return, ast.Raise)):
            out.append(n.ast)
            continue
        nxt = [x for x in n.succ if x.id not in n.exc_succ]
        if n.kind == "test" and isinstance(n.stmt, ast.If):
            t, pol = n.ast, True
            while isinstance(t, ast.UnaryOp) and isinstance(t.op, ast.Not):
                t, pol = t.operand, not pol
            if isinstance(t, ast.Call) and call_name(t) == "isinstance" and len(t.args) == 2 and dotted(t.args[0]) == var:
                false_side = [n.false_succ] if n.false_succ is not None else [x for x in nxt if x is not n.true_succ]
                true_side = [n.true_succ] if n.true_succ is not None else []
                tested = {dotted(x) for x in (t.args[1].elts if isinstance(t.args[1], ast.Tuple) else [t.args[1]])}
                holds = kind is not None and f"spaces.{kind}" in tested
                nxt = true_side if holds == pol else false_side
        todo += nxt
    return out


def _subst(cfg: CFG, at: Optional[Node], e: Optional[ast.AST], depth: int = 0) -> Optional[ast.AST]:
    """`e` as a reader sees it who looks through the temporaries: every local with exactly one reaching plain binding at `at` is replaced by the bound
    expression (itself read at the binding, repeatedly).  Parameters, loop / comprehension variables and locals with several bindings stand for themselves."""
    if e is None or at is None:
        return e
    import copy
    own = {x.id for c in ast.walk(e) if isinstance(c, ast.comprehension) for x in ast.walk(c.target) if isinstance(x, ast.Name)}

    class _T(ast.NodeTransformer):
        def visit_Name(self, n: ast.Name) -> ast.AST:
            if isinstance(n.ctx, ast.Load) and n.id not in own and depth < 6:
                defs = cfg.defs_reaching(at, n.id)
                if len(defs) == 1 and defs[0].kind == "stmt" and defs[0] is not at:
                    v = cfg.value_of_def(defs[0], n.id)
                    if v is not None and not isinstance(v, ast.IfExp):
                        return _subst(cfg, defs[0], v, depth + 1)
            return n
    return _T().visit(copy.deepcopy(e))


# ------------------------------------------------------------------------------------------------ one verdict for both spellings of a choice
# `x = a if c else b` and `if c: x = a` / `else: x = b` are the same program.  The rules below never look at "the" definition of a local or at a conditional
# expression as such: they look at the alternatives of a value (one per reaching definition and per arm of a conditional expression), at the guards of an
# expression (the enclosing `if` tests plus the tests of the conditional expressions it is an arm of) and, where a pattern contains a conditional expression,
# at both spellings of the code.
def _arms(v: Optional[ast.AST]) -> List[Optional[ast.AST]]:
    """The alternatives of a value: the arms of a conditional expression (nested ones flattened), the value itself otherwise."""
    if isinstance(v, ast.IfExp):
        return _arms(v.body) + _arms(v.orelse)
    return [v]


def _alt_values(cfg: CFG, at: Optional[Node], name: str) -> List[Optional[ast.AST]]:
    """Every value `name` may hold at `at`: one per reaching definition and per arm of a conditional expression (None for an opaque definition)."""
    out: List[Optional[ast.AST]] = []
    for d in (cfg.defs_reaching(at, name) if at is not None else []):
        out += _arms(cfg.value_of_def(d, name))
    return out


def _arm_tests(root: ast.AST, x: ast.AST) -> List[Tuple[ast.AST, bool]]:
    """(test, polarity) of the conditional expressions inside `root` that decide whether the sub-expression `x` is evaluated."""
    def go(n: ast.AST, acc: List[Tuple[ast.AST, bool]]) -> Optional[List[Tuple[ast.AST, bool]]]:
        if n is x:
            return acc
        if isinstance(n, ast.IfExp):
            for ch, extra in ((n.test, []), (n.body, [(n.test, True)]), (n.orelse, [(n.test, False)])):
                r = go(ch, acc + extra)
                if r is not None:
                    return r
            return None
        for ch in ast.iter_child_nodes(n):
            r = go(ch, acc)
            if r is not None:
                return r
        return None
    return go(root, []) or []


def _expr_guards(cfg: CFG, x: ast.AST) -> List[Tuple[ast.AST, bool]]:
    """(test, polarity) of everything known where the expression `x` is evaluated: the `if` tests around its statement and the tests of the conditional
    expressions it is an arm of (leading negations folded into the polarity)."""
    n = cfg.node_of(x)
    if n is None:
        return []
    out = [(g, pol) for g, pol, _ in cfg.guards_at(n)]
    for root in n.exprs():
        for t, pol in _arm_tests(root, x):
            while isinstance(t, ast.UnaryOp) and isinstance(t.op, ast.Not):
                t, pol = t.operand, not pol
            out.append((t, pol))
    return out


def _folded(stmts: List[ast.stmt]) -> Optional[ast.stmt]:
    """A branch that is one plain binding / return, or a two-way `if` over such branches for the same target, written as ONE statement with a conditional
    expression: `if c: T = a` / `else: T = b` -> `T = a if c else b` (also `return`, augmented assignments; nested choices fold into nested expressions)."""
    if len(stmts) != 1:
        return None
    s = stmts[0]
    if isinstance(s, (ast.Return, ast.AugAssign)) or (isinstance(s, ast.Assign) and len(s.targets) == 1):
        return s if getattr(s, "value", None) is not None else None
    if isinstance(s, ast.If) and s.orelse:
        a, b = _folded(s.body), _folded(s.orelse)
        if a is None or b is None or type(a) is not type(b):
            return None
        val = ast.IfExp(test=s.test, body=a.value, orelse=b.value)
        if isinstance(a, ast.Return):
            new: ast.stmt = ast.Return(value=val)
        elif isinstance(a, ast.Assign):
            if ast.dump(a.targets[0]) != ast.dump(b.targets[0]):
                return None
            new = ast.Assign(targets=a.targets, value=val)
        else:
            if ast.dump(a.target) != ast.dump(b.target) or type(a.op) is not type(b.op):
                return None
            new = ast.AugAssign(target=a.target, op=a.op, value=val)
        return ast.fix_missing_locations(ast.copy_location(new, s))
    return None


def _choice_view(root: ast.AST) -> ast.Module:
    """Every two-way choice of `root` that is spelled as a statement, re-spelled with a conditional expression (outermost choices only: nested ones are
    part of the folded expression)."""
    out: List[ast.stmt] = []

    def walk(n: ast.AST) -> None:
        if isinstance(n, ast.If):
            f = _folded([n])
            if f is not None:
                out.append(f)
                return
        for ch in ast.iter_child_nodes(n):
            walk(ch)
    walk(root)
    return ast.Module(body=out, type_ignores=[])


def _has_choice(target, pattern: str) -> bool:
    """`has` for a pattern that contains a conditional expression; the code may spell the choice as an expression or as an if / else statement
    (metavariables are shared with the other patterns matched on `target`)."""
    tree = _tree_of(target)
    return has(tree, pattern, env_key=tree) or has(_choice_view(tree), pattern, env_key=tree)


def run(ck: Check, repo: Repo) -> None:
    ck.not_decided += ["row-by-row equality of batch and single preprocessing (runtime values)",
                       "that the greedy action / value estimate is independent of the other rows of a batch (network semantics)"]
    ck.trusted += ["F.one_hot(x, num_classes=n) maps value v to the v-th unit vector of length n", "torch.cat / torch.stack semantics"]
    ck.rule("C15.1", "dispatch exhaustiveness and agreement: every dispatcher on the space kind handles the four leaf kinds (Box, Discrete, MultiDiscrete, "
                     "MultiBinary) explicitly or by a non-raising default, container-level dispatchers handle Dict and Tuple, and explicit chains end in a raise")
    ck.rule("C15.2", "rank arithmetic is well-typed: len(x.shape) is compared only with len(y.shape) or integers, never with a shape tuple")
    ck.rule("C15.3", "one-hot widths come from the space: Discrete uses n, MultiDiscrete uses nvec[idx] of the same component that is being encoded")
    ck.rule("C15.4", "image scaling is (x - low) / (high - low) with low / high from the space, applied exactly for rank-3 Box spaces when normalisation is on")
    ck.rule("C15.5", "maybe_add_batch_dim distinguishes rank, rank + 1 and rank + 2 and rejects everything else")
    ck.rule("C15.6", "agent wrappers preprocess each agent's observation with that agent's own space; the centralised critic input concatenates "
                     "vector features on the feature axis and stacks images on a new axis 2, in every branch")
    ck.rule("C15.7", "container recursion passes everything through: each recursive preprocess_observation call for a Dict / Tuple member receives that member "
                     "together with the sub-space found under the same key / at the same position, and the caller's own `device` and `normalize_images`")
    ck.rule("C15.8", "preparation is pure: no in-place tensor operation, augmented assignment or element store is applied to the observation handed in "
                     "(obs_to_tensor does not copy float32 input, so the caller's array would change and a second preparation would differ)")
    ck.rule("C15.9", "agents are visited in the algorithm's own order (self.agent_ids), never in the iteration order of the caller's dictionary, wherever "
                     "per-agent tensors are paired with per-agent networks by position or stacked for a shared policy and handed back by position")
    ck.rule("C15.10", "the shape passed to maybe_add_batch_dim describes the tensor at that point: before one-hot encoding the raw space shape, not the encoded width")
    ck.rule("C15.11", "batch independence of acting: a get_action that accepts batches evaluates its networks in evaluation mode (eval() before the forward pass), "
                      "as its siblings do — in training mode BatchNorm encoders normalise with the statistics of the batch at hand, so an observation's action and value "
                      "depend on the other rows (exempt: RainbowDQN, whose noisy layers explore only in training mode)")
    _acting_mode(ck, repo)
    _recursion(ck, repo)
    _purity(ck, repo)
    _agent_order(ck, repo)
    _pre_encoding_shape(ck, repo)
    _dispatch(ck, repo)
    _rank_lint(ck, repo)
    _one_hot(ck, repo)
    _image(ck, repo)
    _batch_dim(ck, repo)
    _agents(ck, repo)
    from ._c15_r3b import run_r3b
    run_r3b(ck, repo)
    from ._c15_r5 import run_r5
    run_r5(ck, repo)


# ------------------------------------------------------------------------------------------------ C15.11
_ACTING = [("agilerl.algorithms.dqn", "DQN", ["get_action", "_get_action"]), ("agilerl.algorithms.cqn", "CQN", ["get_action"]),
           ("agilerl.algorithms.ddpg", "DDPG", ["get_action"]), ("agilerl.algorithms.td3", "TD3", ["get_action"]),
           ("agilerl.algorithms.ppo", "PPO", ["get_action", "_get_action_and_values"]), ("agilerl.algorithms.ippo", "IPPO", ["get_action"]),
           ("agilerl.algorithms.maddpg", "MADDPG", ["get_action"]), ("agilerl.algorithms.matd3", "MATD3", ["get_action"])]


def _acting_mode(ck: Check, repo: Repo) -> None:
    n = 0
    for modname, cname, meths in _ACTING:
        cls = repo.cls(modname, cname)
        evals = 0
        first = None
        for mn in meths:
            m = cls.methods.get(mn)
            if m is None:
                continue
            first = first or m
            evals += sum(1 for c in calls_in(m.node, nested=True) if last_attr(c) == "eval" and not c.args)
        n += 1
        ck.ob("C15.11", first, first.node, evals >= 1, f"{cname}.get_action puts the acting network into evaluation mode for the forward pass",
              detail="no eval() on the acting path: with a BatchNorm encoder (CNN with layer_norm=True) rows 0-1 of a 5-image batch differ from the same two images evaluated alone "
                     "(about 3e-3 in the seeding agent's probe), i.e. the action / value of one observation depends on which other observations share the call",
              construct=f"{cname}.get_action: evaluation mode")
    ck.floor("C15.11", n, 8, "batched get_action implementations")


# ------------------------------------------------------------------------------------------------ C15.7
def _bind_call(fn: Fn, c: ast.Call) -> Dict[str, ast.AST]:
    names = fn.named_params
    out: Dict[str, ast.AST] = {}
    for i, a in enumerate(c.args):
        if i < len(names) and not isinstance(a, ast.Starred):
            out[names[i]] = a
    for k in c.keywords:
        if k.arg:
            out[k.arg] = k.value
    return out


def _binders(root: ast.AST, call: ast.Call) -> List[Tuple[ast.AST, ast.AST]]:
    """(target, iter) of every for-loop / comprehension clause that encloses `call`."""
    out = []
    for n in ast.walk(root):
        if isinstance(n, ast.For) and any(x is call for x in ast.walk(n)):
            out.append((n.target, n.iter))
        elif isinstance(n, (ast.ListComp, ast.SetComp, ast.GeneratorExp, ast.DictComp)) and any(x is call for x in ast.walk(n)):
            for g in n.generators:
                out.append((g.target, g.iter))
    return out


def _recursion(ck: Check, repo: Repo) -> None:
    po = repo.fn(AU, "preprocess_observation")
    cfg = CFG(po.node)
    rec = [c for c in calls_in(po.node, nested=True) if call_name(c) == "preprocess_observation"]
    ck.floor("C15.7", len(rec), 2, "recursive calls for Dict / Tuple members", fn=po)
    for c in rec:
        b = _bind_call(po, c)
        for prm in ("device", "normalize_images"):
            ck.ob("C15.7", po, c, prm in b and dotted(b[prm]) == prm, f"the member is prepared with the caller's own `{prm}`",
                  detail=f"`{prm}` is {'passed as ' + short(b[prm], 40) if prm in b else 'not passed: the member falls back to the default of the signature'}",
                  construct=f"preprocess_observation recursion: {prm} ({short(c, 50)})")
        obs_e, sp_e = b.get("observation"), b.get("observation_space")
        binders = _binders(po.node, c)
        ok = False
        why = f"observation={short(obs_e, 40) if obs_e is not None else None}, observation_space={short(sp_e, 40) if sp_e is not None else None}"
        if obs_e is not None and sp_e is not None:
            for tgt, it in binders:
                its = ast.unparse(it)
                if isinstance(tgt, ast.Tuple) and len(tgt.elts) == 2 and all(isinstance(e, ast.Name) for e in tgt.elts):
                    k, v = tgt.elts[0].id, tgt.elts[1].id
                    # for K, O in observation.items(): member O with space observation_space[K]
                    if its == "observation.items()" and dotted(obs_e) == v and ast.unparse(sp_e) in (f"observation_space[{k}]", f"observation_space.spaces[{k}]"):
                        ok = True
                    # for O, S in zip(observation, observation_space.spaces)
                    if its in ("zip(observation, observation_space.spaces)", "zip(observation, observation_space)") and dotted(obs_e) == k and dotted(sp_e) == v:
                        ok = True
                    # for I, O in enumerate(observation)
                    if its == "enumerate(observation)" and dotted(obs_e) == v and ast.unparse(sp_e) in (f"observation_space[{k}]", f"observation_space.spaces[{k}]"):
                        ok = True
                elif isinstance(tgt, ast.Name):
                    k = tgt.id
                    if ast.unparse(obs_e) == f"observation[{k}]" and ast.unparse(sp_e) in (f"observation_space[{k}]", f"observation_space.spaces[{k}]"):
                        ok = True
        ck.ob("C15.7", po, c, ok, "the member and its sub-space are taken under the same key / at the same position", detail=why,
              construct=f"preprocess_observation recursion: member/space pairing ({short(c, 50)})")


# ------------------------------------------------------------------------------------------------ C15.8
_PURE_FNS = ["preprocess_observation", "apply_image_normalization", "maybe_add_batch_dim", "obs_to_tensor"]


def _purity(ck: Check, repo: Repo) -> None:
    n = 0
    for q in _PURE_FNS:
        fn = repo.fn(AU, q)
        first = fn.named_params[0]
        cfg = CFG(fn.node)
        # names that may alias the observation handed in: the first parameter and every local assigned from an expression that is (a view of) it
        bad = []
        for x in walk_no_nested(fn.node):
            recv = None
            how = ""
            if isinstance(x, ast.Call) and isinstance(x.func, ast.Attribute) and x.func.attr.endswith("_") and not x.func.attr.startswith("_"):
                recv, how = x.func.value, f".{x.func.attr}()"
            elif isinstance(x, ast.AugAssign):
                recv, how = x.target, "augmented assignment"
            elif isinstance(x, ast.Assign) and isinstance(x.targets[0], ast.Subscript):
                recv, how = x.targets[0].value, "element store"
            elif isinstance(x, ast.Call) and get_kw(x, "out") is not None:
                recv, how = get_kw(x, "out"), "out= argument"
            if recv is None:
                continue
            base = recv
            while isinstance(base, (ast.Subscript, ast.Attribute, ast.Call)):
                base = base.value if not isinstance(base, ast.Call) else base.func
            if isinstance(base, ast.Name) and _may_be_input(cfg, fn, base.id, cfg.node_of(x), first):
                bad.append((x, how))
        n += 1
        for x, how in bad or [(None, "")]:
            ck.ob("C15.8", fn, x if x is not None else fn.node, x is None, f"{q}: the observation handed in is not modified in place",
                  detail=f"{how} on a value that may still be the caller's own tensor / array (obs_to_tensor shares memory with float32 input): preparing the same "
                         "observation twice, or reusing it afterwards (replay buffer), sees the already transformed data",
                  construct=f"{q}: in-place {how} {short(x, 50) if x is not None else ''}".strip())
    ck.floor("C15.8", n, 4, "functions on the preparation path examined for in-place writes")


def _may_be_input(cfg: CFG, fn: Fn, name: str, at: Optional[Node], first: str, depth: int = 0) -> bool:
    """May `name` at `at` still denote (a view of / the same storage as) the first parameter?  Fresh results of arithmetic, F.one_hot, torch.cat, .float()
    on a non-float ... are treated as possibly shared only when they are the parameter itself, a subscript / attribute view of it, or the result of the
    repository's own non-copying helpers."""
    if depth > 6 or at is None:
        return name == first
    defs = cfg.defs_reaching(at, name)
    if not defs:
        return name == first
    for d in defs:
        v = cfg.value_of_def(d, name)
        if v is None:
            # parameter entry definition or an opaque one
            if name == first:
                return True
            continue
        if _aliases(cfg, fn, v, d, first, depth):
            return True
    return False


_NON_COPYING = {"obs_to_tensor", "maybe_add_batch_dim", "torch.as_tensor", "torch.from_numpy", "np.asarray", "apply_image_normalization"}
_VIEW_METHODS = {"float", "view", "reshape", "squeeze", "unsqueeze", "to", "contiguous", "detach", "T", "transpose", "permute", "expand"}


def _aliases(cfg: CFG, fn: Fn, v: ast.AST, at: Node, first: str, depth: int) -> bool:
    if isinstance(v, ast.Name):
        return _may_be_input(cfg, fn, v.id, at, first, depth + 1)
    if isinstance(v, (ast.Subscript, ast.Attribute)):
        return _aliases(cfg, fn, v.value, at, first, depth)
    if isinstance(v, ast.IfExp):
        return _aliases(cfg, fn, v.body, at, first, depth) or _aliases(cfg, fn, v.orelse, at, first, depth)
    if isinstance(v, ast.Call):
        nm = call_name(v)
        if nm in _NON_COPYING and v.args:
            return _aliases(cfg, fn, v.args[0], at, first, depth)
        if isinstance(v.func, ast.Attribute) and v.func.attr in _VIEW_METHODS:
            return _aliases(cfg, fn, v.func.value, at, first, depth)
    return False


# ------------------------------------------------------------------------------------------------ C15.9
def _agent_order(ck: Check, repo: Repo) -> None:
    n = 0
    # (1) positional pairing with per-agent networks: zip(self.agent_ids, X, self.actors)
    for modname, q in (("agilerl.algorithms.maddpg", "MADDPG.get_action"), ("agilerl.algorithms.matd3", "MATD3.get_action")):
        fn = repo.fn(modname, q)
        cfg = CFG(fn.node)
        zips = [c for c in calls_in(fn.node) if call_name(c) == "zip" and any(dotted(a) == "self.actors" for a in c.args)]
        for z in zips:
            node = cfg.node_of(z)
            for a in z.args:
                if dotted(a).startswith("self."):
                    continue
                vals = _arms(a)
                if isinstance(a, ast.Name) and node is not None:
                    vals = _alt_values(cfg, node, a.id)
                for v in vals:
                    n += 1
                    ok = isinstance(v, ast.ListComp) and len(v.generators) == 1 and dotted(v.generators[0].iter) == "self.agent_ids" \
                        and isinstance(v.elt, ast.Subscript) and dotted(v.elt.slice) == dotted(v.generators[0].target)
                    ck.ob("C15.9", fn, v if v is not None else z, ok, f"{q}: the per-agent observations paired with self.actors are looked up by agent id in self.agent_ids order",
                          detail=f"built by `{short(v, 70) if v is not None else '?'}`: the k-th actor receives the k-th value of the caller's dictionary, i.e. another "
                                 "agent's observation when the dictionary lists the agents in a different order",
                          construct=f"{q}: observations zipped with self.actors <- {short(v, 60) if v is not None else '?'}")
    # (2) stacking for a shared policy: appends to the per-group lists happen in a loop over self.agent_ids
    ip = "agilerl.algorithms.ippo"
    for q in ("IPPO.preprocess_observation", "IPPO.extract_action_masks"):
        fn = repo.fn(ip, q)
        for lp in [x for x in walk_no_nested(fn.node) if isinstance(x, ast.For)]:
            apps = [c for c in calls_in(lp, nested=True) if last_attr(c) == "append" and isinstance(c.func.value, ast.Subscript)]
            if not apps:
                continue
            n += 1
            it = lp.iter
            ok = dotted(it) == "self.agent_ids" or (isinstance(it, (ast.ListComp, ast.GeneratorExp)) and dotted(it.generators[0].iter) == "self.agent_ids")
            ck.ob("C15.9", fn, lp, ok, f"{q}: the agents of a shared-policy group are stacked in self.agent_ids order (the order in which their outputs are handed back)",
                  detail=f"the stacking loop runs over `{short(it, 50)}`: rows are handed back by position in self.agent_ids order, so with another order an agent "
                         "receives the action / value computed from a different agent's observation",
                  construct=f"{q}: stacking loop over {short(it, 50)}")
    ck.floor("C15.9", n, 4, "places where per-agent tensors are ordered")


# ------------------------------------------------------------------------------------------------ C15.10
def _pre_encoding_shape(ck: Check, repo: Repo) -> None:
    po = repo.fn(AU, "preprocess_observation")
    cfg = CFG(po.node)
    n = 0
    ohs = [cfg.node_of(c) for c in calls_in(po.node, nested=True) if call_name(c) == "F.one_hot"]
    for c in calls_in(po.node):
        if call_name(c) != "maybe_add_batch_dim" or len(c.args) < 2:
            continue
        node = cfg.node_of(c)
        if node is None:
            continue
        # does an encoding happen after this call on the same path?
        later = [o for o in ohs if o is not None and o.id != node.id and o.id in cfg.reachable_from(node)]
        if not later:
            continue
        n += 1
        sh = c.args[1]
        vals = _arms(sh)
        if isinstance(sh, ast.Name):
            vals = _alt_values(cfg, node, sh.id)
        for v in vals:
            src = ast.unparse(v) if v is not None else "?"
            ok = v is not None and "sum(" not in src and ("observation_space.shape" in src or "len(observation_space.nvec)" in src)
            ck.ob("C15.10", po, c, ok, "the batch axis is added to the raw MultiDiscrete observation using the raw shape of the space",
                  detail=f"shape = {src}: the tensor still has len(nvec) columns here; with the encoded width a (step, env, len(nvec)) input is reshaped with "
                         "view(-1, sum(nvec)), which fails or silently mixes rows",
                  construct="preprocess_observation: maybe_add_batch_dim before one-hot encoding")
    ck.floor("C15.10", n, 1, "maybe_add_batch_dim call preceding an encoding", fn=po)


def _dispatch(ck: Check, repo: Repo) -> None:
    table = [
        (repo.fn(AU, "preprocess_observation"), "observation_space", True, True),
        (repo.fn(BASE, "EvolvableAlgorithm.get_state_dim"), "observation_space", True, True),
        (repo.fn(AU, "get_vect_dim"), "observation_space", True, False),
        (repo.fn(AU, "get_space_shape"), "space", False, True),
        (repo.fn(BASE, "EvolvableAlgorithm.get_action_dim"), "action_space", False, True),
    ]
    for fn, var, containers, must_raise in table:
        kinds, _ = _space_branches(fn, var)
        exits = _default_exits(fn, var)
        rejects = any(isinstance(x, ast.Raise) for x in exits)
        default_ok = bool(exits) and not rejects
        ck.floor("C15.1", len(kinds), 2, f"{fn.qualname}: space kinds dispatched on")
        for k in sorted(LEAF):
            ck.ob("C15.1", fn, kinds.get(k).test if k in kinds else fn.node, k in kinds or default_ok,
                  f"{fn.qualname}: handles {k} spaces", detail=f"explicit kinds {sorted(kinds)}, default branch {'present' if default_ok else 'raises/absent'}",
                  construct=f"{fn.qualname}: kind {k}")
        if containers:
            for k in sorted(CONTAINER):
                ck.ob("C15.1", fn, kinds.get(k).test if k in kinds else fn.node, k in kinds, f"{fn.qualname}: handles {k} spaces member by member", construct=f"{fn.qualname}: kind {k}")
        if must_raise:
            ck.ob("C15.1", fn, fn.node, rejects, f"{fn.qualname}: an unsupported space kind is rejected with an error", construct=f"{fn.qualname}: final else")
    po = repo.fn(AU, "preprocess_observation")
    src = ast.unparse(po.node)
    # every leaf path ends in maybe_add_batch_dim with that kind's shape
    cfg = CFG(po.node)
    rets = [n for n in cfg.live_nodes() if n.kind == "stmt" and isinstance(n.ast, ast.Return) and dotted(n.ast.value) == "observation"]
    # the local holding the leaf kind's network input shape = second argument of the maybe_add_batch_dim(observation, <shape>) call
    mbc = [c for c in calls_in(po.node) if call_name(c) == "maybe_add_batch_dim" and len(c.args) >= 2 and dotted(c.args[0]) == "observation" and isinstance(c.args[1], ast.Name)]
    shape_var = mbc[0].args[1].id if mbc else "?"
    mb = [cfg.node_of(c) for c in mbc if c.args[1].id == shape_var]
    ck.ob("C15.1", po, rets[0].ast if rets else po.node, bool(rets) and bool(mb) and any(m is not None and cfg.dominates(m, rets[0]) for m in mb),
          "every leaf kind receives its batch dimension before the tensor is returned")
    shapes = {}
    for n in cfg.live_nodes():
        if n.kind == "stmt" and isinstance(n.ast, ast.Assign) and dotted(n.ast.targets[0]) == shape_var:
            for v in _arms(n.ast.value):
                g = [ast.unparse(gg) for gg, pol in _expr_guards(cfg, v) if pol and "isinstance(observation_space" in ast.unparse(gg)]
                kind = g[-1].split("spaces.")[-1].rstrip(")") if g else "?"
                txt = ast.unparse(v)
                shapes[kind] = txt if shapes.get(kind) in (None, txt) else f"{shapes[kind]} | {txt}"  # two different shapes for one kind agree with nothing
    want = {"Box": "observation_space.shape", "Discrete": "(observation_space.n,)", "MultiDiscrete": "(sum(observation_space.nvec),)", "MultiBinary": "(observation_space.n,)"}
    for k, w in want.items():
        ck.ob("C15.1", po, po.node, shapes.get(k) == w, f"the network input shape used for {k} is {w}", detail=f"found {shapes.get(k)}", construct=f"space_shape for {k}")
    sd = repo.fn(BASE, "EvolvableAlgorithm.get_state_dim")
    # everything get_state_dim can return: one entry per return statement and per arm of a conditional expression
    s2 = {"return " + ast.unparse(a) for r in walk_no_nested(sd.node) if isinstance(r, ast.Return) and r.value is not None for a in _arms(r.value)}
    for k, frag in (("Discrete", "return (observation_space.n,)"), ("MultiDiscrete", "return (sum(observation_space.nvec),)"), ("Box", "return observation_space.shape"), ("MultiBinary", "return (observation_space.n,)")):
        ck.ob("C15.1", sd, sd.node, frag in s2, f"get_state_dim agrees with preprocess_observation on the input shape of {k}", construct=f"get_state_dim {k}")
    ot = repo.fn(AU, "obs_to_tensor")
    s3 = ast.unparse(ot.node)
    ck.ob("C15.1", ot, ot.node, all(k in s3 for k in ("TensorDict", "torch.Tensor", "np.ndarray", "dict", "tuple", "Number")) and "raise Exception" in s3,
          "obs_to_tensor accepts arrays, tensors, TensorDicts, dicts, tuples and numbers and rejects anything else", construct="obs_to_tensor kinds")
    ck.ob("C15.1", ot, ot.node, s3.count(".float()") >= 5, "every converted observation becomes a float tensor", construct="obs_to_tensor float")


def _rank_lint(ck: Check, repo: Repo) -> None:
    """Whole utils/algo_utils + core/base: comparisons whose one side is len(<x>.shape) and other side is a bare `.shape`."""
    n_cmp = 0
    for modname in (AU, BASE, "agilerl.utils.evolvable_networks"):
        m = repo.mod(modname)
        for f in list(m.functions.values()) + [x for c in m.classes.values() for x in c.methods.values()]:
            cfg: Optional[CFG] = None
            for n in walk_no_nested(f.node):
                if isinstance(n, ast.Compare) and len(n.ops) == 1:
                    sides = [n.left, n.comparators[0]]
                    # a rank or a shape kept in a single-definition temporary (`ndim = len(x.shape)`, `shp = x.shape ... len(shp)`) is the same operand
                    if any(isinstance(x, ast.Name) for s in sides for x in ([s] + list(s.args) if isinstance(s, ast.Call) and call_name(s) == "len" else [s])):
                        cfg = cfg or CFG(f.node)
                        at = cfg.node_of(n)
                        sides = [_subst(cfg, at, s) for s in sides]
                    is_rank = [isinstance(s, ast.Call) and call_name(s) == "len" and s.args and isinstance(s.args[0], ast.Attribute) and s.args[0].attr == "shape" for s in sides]
                    if not any(is_rank):
                        continue
                    n_cmp += 1
                    other = sides[1] if is_rank[0] else sides[0]
                    bad = isinstance(other, ast.Attribute) and other.attr in ("shape", "size")
                    ck.ob("C15.2", f, n, not bad, f"{f.qualname}: a rank is compared with a rank or an integer",
                          detail=f"`{short(n, 80)}` compares an int with the shape tuple `{short(other, 40)}` (TypeError at run time)")
    ck.floor("C15.2", n_cmp, 8, "rank comparisons in the observation utilities")


# ---- one-hot widths by def-use: the width and the encoded value are followed through temporaries and through the clause (for-loop or comprehension) that
# binds them; `for i, x in enumerate(S)` / `zip(S, W)` pair a component with its own width whichever way the iteration is spelled
def _unwrap(e: Optional[ast.AST], fns: Tuple[str, ...] = (), meths: Tuple[str, ...] = ()) -> Optional[ast.AST]:
    """`e` without value-neutral wrappers: `int(e)` (fns), `e.long()` (meths)."""
    while isinstance(e, ast.Call):
        if isinstance(e.func, ast.Name) and e.func.id in fns and len(e.args) == 1 and not e.keywords:
            e = e.args[0]
        elif isinstance(e.func, ast.Attribute) and e.func.attr in meths and not e.args and not e.keywords:
            e = e.func.value
        else:
            break
    return e


def _alt_defs(cfg: CFG, at: Optional[Node], e: Optional[ast.AST], depth: int = 0) -> List[ast.AST]:
    """The expressions `e` may stand for at `at`: a local is replaced by the values of its reaching plain bindings (both arms of a conditional expression),
    repeatedly; anything else (and a local that is not plainly bound: a loop variable, a parameter) stands for itself."""
    if isinstance(e, ast.IfExp):
        return _alt_defs(cfg, at, e.body, depth) + _alt_defs(cfg, at, e.orelse, depth)
    if isinstance(e, ast.Name) and at is not None and depth < 6:
        out: List[ast.AST] = []
        defs = cfg.defs_reaching(at, e.id)
        for d in defs:
            v = cfg.value_of_def(d, e.id) if d.kind == "stmt" else None
            out += _alt_defs(cfg, d, v, depth + 1) if v is not None else [e]
        return out or [e]
    return [e] if e is not None else []


def _iteration_role(fn: Fn, cfg: CFG, use: ast.AST, name: str) -> Optional[Tuple[ast.AST, str, ast.AST]]:
    """How the iteration that binds `name` where `use` is evaluated produces it: (binding clause, "counter" | "elem", the iterable that is counted / whose
    elements are taken).  The clause is the innermost comprehension clause around `use` that binds the name, otherwise the for-loop whose header is the
    only definition reaching `use`."""
    tgt = it = key = None
    for n in ast.walk(fn.node):
        if isinstance(n, (ast.ListComp, ast.SetComp, ast.GeneratorExp, ast.DictComp)) and any(x is use for x in ast.walk(n)):
            for g in n.generators:
                if any(isinstance(x, ast.Name) and x.id == name for x in ast.walk(g.target)):
                    tgt, it, key = g.target, g.iter, g
    if key is None:
        node = cfg.node_of(use)
        defs = cfg.defs_reaching(node, name) if node is not None else []
        if len(defs) != 1 or defs[0].kind != "for":
            return None
        tgt, it, key = defs[0].ast.target, defs[0].ast.iter, defs[0].ast
    is_name = lambda t: isinstance(t, ast.Name) and t.id == name
    if isinstance(it, ast.Call) and call_name(it) == "enumerate" and len(it.args) == 1 and not it.keywords and isinstance(tgt, ast.Tuple) and len(tgt.elts) == 2:
        if is_name(tgt.elts[0]):
            return key, "counter", it.args[0]
        if is_name(tgt.elts[1]):
            return key, "elem", it.args[0]
        return None
    if isinstance(it, ast.Call) and call_name(it) == "zip" and isinstance(tgt, ast.Tuple) and len(tgt.elts) == len(it.args) and not any(isinstance(a, ast.Starred) for a in it.args):
        for t, a in zip(tgt.elts, it.args):
            if is_name(t):
                return key, "elem", a
        return None
    if is_name(tgt):
        return key, "elem", it
    return None


def _is_column_split(fn: Fn, cfg: CFG, s: ast.AST) -> bool:
    """`s` (through temporaries) is the raw observation cut into its columns: torch.split(<observation>[.long()], 1, dim=1) or <observation>[.long()].split(1, dim=1)."""
    alts = _alt_defs(cfg, cfg.node_of(s), s)
    def one(v: ast.AST) -> bool:
        if not isinstance(v, ast.Call):
            return False
        if call_name(v) == "torch.split" and v.args:
            src, size, dim = v.args[0], get_kw(v, "split_size_or_sections", 1), get_kw(v, "dim", 2)
        elif isinstance(v.func, ast.Attribute) and v.func.attr == "split":
            src, size, dim = v.func.value, get_kw(v, "split_size", 0), get_kw(v, "dim", 1)
        else:
            return False
        return dotted(_unwrap(src, meths=("long",))) == fn.named_params[0] and const_value(size) == 1 and const_value(dim) == 1
    return bool(alts) and all(one(v) for v in alts)


_SHAPE_ONLY = {"squeeze", "unsqueeze", "view", "reshape", "flatten", "contiguous", "clone", "detach"}
_INT_DTYPES = {"torch.long", "torch.int64"}


def _index_typed(fn: Fn, cfg: CFG, e: Optional[ast.AST], depth: int = 0) -> bool:
    """`e` is an integer (index) tensor: the result of .long() / .to(torch.long), possibly cut, viewed or iterated afterwards."""
    if e is None or depth > 6:
        return False
    if isinstance(e, ast.Call) and call_name(e) in ("torch.split", "torch.unbind", "torch.chunk"):
        return bool(e.args) and _index_typed(fn, cfg, e.args[0], depth + 1)
    if isinstance(e, ast.Call) and isinstance(e.func, ast.Attribute):
        if e.func.attr == "long" and not e.args:
            return True
        if e.func.attr in ("to", "type") and any(dotted(a) in _INT_DTYPES for a in list(e.args) + [k.value for k in e.keywords]):
            return True
        if e.func.attr in _SHAPE_ONLY or e.func.attr in ("split", "unbind", "chunk"):
            return _index_typed(fn, cfg, e.func.value, depth + 1)
    if isinstance(e, ast.Subscript):
        return _index_typed(fn, cfg, e.value, depth + 1)
    if isinstance(e, ast.Name):
        role = _iteration_role(fn, cfg, e, e.id)
        if role is not None:
            return role[1] == "elem" and _index_typed(fn, cfg, role[2], depth + 1)
        alts = _alt_defs(cfg, cfg.node_of(e), e)
        return bool(alts) and all(a is not e and not (isinstance(a, ast.Name) and a.id == e.id) and _index_typed(fn, cfg, a, depth + 1) for a in alts)
    return False


def _one_hot(ck: Check, repo: Repo) -> None:
    po = repo.fn(AU, "preprocess_observation")
    cfg = CFG(po.node)
    ohs = [c for c in calls_in(po.node, nested=True) if call_name(c) == "F.one_hot"]
    ck.floor("C15.3", len(ohs), 2, "one-hot encodings in preprocess_observation", fn=po)
    for c in ohs:
        nc = get_kw(c, "num_classes", 1)
        s = ast.unparse(nc) if nc is not None else ""
        g = [ast.unparse(gg) for gg, pol in _expr_guards(cfg, c) if pol and "isinstance(observation_space" in ast.unparse(gg)]
        kind = g[-1].split("spaces.")[-1].rstrip(")") if g else "?"
        # every value the width may hold where the encoding happens (a temporary is looked through)
        widths = [_unwrap(w, fns=("int",)) for w in _alt_defs(cfg, cfg.node_of(c), nc)]
        if kind == "Discrete":
            ck.ob("C15.3", po, c, bool(widths) and all(dotted(w) == "observation_space.n" for w in widths), "Discrete values are one-hot encoded with width n of the space", detail=s)
        else:
            # the encoded value is an element of the column split of the raw observation; the width is nvec[<counter of the same iteration>] (or the element of
            # nvec that the same iteration pairs with the column)
            enc = _unwrap(c.args[0], meths=("long",)) if c.args else None
            r0 = _iteration_role(po, cfg, enc, enc.id) if isinstance(enc, ast.Name) else None
            ok = r0 is not None and r0[1] == "elem" and _is_column_split(po, cfg, r0[2]) and bool(widths)
            for w in widths if ok else []:
                if isinstance(w, ast.Subscript) and dotted(w.value) == "observation_space.nvec" and isinstance(w.slice, ast.Name):
                    r1 = _iteration_role(po, cfg, w, w.slice.id)
                    ok = ok and r1 is not None and r1[0] is r0[0] and r1[1] == "counter" and r1[2] is r0[2]
                elif isinstance(w, ast.Name):
                    r1 = _iteration_role(po, cfg, c, w.id)
                    ok = ok and r1 is not None and r1[0] is r0[0] and r1[1] == "elem" and dotted(r1[2]) == "observation_space.nvec"
                else:
                    ok = False
            ck.ob("C15.3", po, c, ok, "MultiDiscrete component idx is encoded with width nvec[idx] of the same component", detail=s)
        ck.ob("C15.3", po, c, bool(c.args) and _index_typed(po, cfg, c.args[0]), "the encoded value is converted to an integer index")
    src = ast.unparse(po.node)
    ck.ob("C15.3", po, po.node, "dim=-1" in src and "torch.cat(" in src, "MultiDiscrete encodings are concatenated on the feature axis in component order", construct="multi-discrete concat")


def _predicate_atoms(repo: Repo, fn: Fn, atom: ast.AST, pol: bool, depth: int = 0) -> List[Tuple[ast.AST, bool]]:
    """What is known when `atom` has the truth value `pol`: the atom itself and, when it holds and is a call of a function of the package whose body is a
    single `return <condition>` (a named predicate such as is_image_space), the conjuncts of that condition with the arguments put in for the parameters."""
    out: List[Tuple[ast.AST, bool]] = [(atom, pol)]
    if not (pol and isinstance(atom, ast.Call) and depth < 3) or any(isinstance(a, ast.Starred) for a in atom.args) or any(k.arg is None for k in atom.keywords):
        return out
    callee = repo.resolve(fn.mod, call_name(atom))
    if not isinstance(callee, Fn):
        return out
    body = [s for s in callee.node.body if not (isinstance(s, ast.Expr) and isinstance(s.value, ast.Constant) and isinstance(s.value.value, str))]
    if len(body) != 1 or not isinstance(body[0], ast.Return) or body[0].value is None:
        return out
    bound = _bind_call(callee, atom)
    if set(callee.named_params) - set(bound):
        return out  # a parameter left to its default: not expanded
    import copy
    from ..domains import conjuncts
    from ..inline import _Renamer
    cond = _Renamer(dict(bound), {}).visit(copy.deepcopy(body[0].value))
    for a, p in conjuncts(cond, True):
        out += _predicate_atoms(repo, callee, a, p, depth + 1)
    return out


def _reads_attr(cfg: CFG, v: ast.AST, path: str, depth: int = 0) -> bool:
    """`v` is computed from the attribute `path` (e.g. observation_space.low): it reads it directly or through locals that are bound to values which do."""
    for x in ast.walk(v):
        if isinstance(x, ast.Attribute) and dotted(x) == path:
            return True
    for x in ast.walk(v):
        if isinstance(x, ast.Name) and isinstance(x.ctx, ast.Load) and depth < 4:
            alts = _alt_defs(cfg, cfg.node_of(x), x)
            if alts and all(a is not x and not (isinstance(a, ast.Name) and a.id == x.id) and _reads_attr(cfg, a, path, depth + 1) for a in alts):
                return True
    return False


def _image(ck: Check, repo: Repo) -> None:
    fn = repo.fn(AU, "apply_image_normalization")
    cfg = CFG(fn.node)
    tb = TermBuilder(repo, fn, cfg=cfg, depth=0)
    # the returned values: every arm of the returned expression, looked through one temporary (all its alternatives)
    def _ret_values(n: Node) -> List[ast.AST]:
        out: List[ast.AST] = []
        for v in _arms(n.ast.value):
            vs = _alt_values(cfg, n, v.id) if isinstance(v, ast.Name) else []
            out += vs if vs and all(x is not None for x in vs) else [v]
        return out

    rets = [(n, v) for n in cfg.live_nodes() if n.kind == "stmt" and isinstance(n.ast, ast.Return) and n.ast.value is not None for v in _ret_values(n) if isinstance(v, ast.BinOp)]
    ck.floor("C15.4", len(rets), 1, "scaling return in apply_image_normalization", fn=fn)
    for r, v in rets:
        ok = isinstance(v.op, ast.Div) and isinstance(v.left, ast.BinOp) and isinstance(v.left.op, ast.Sub) and isinstance(v.right, ast.BinOp) and isinstance(v.right.op, ast.Sub)
        lo = hi = "?"
        if ok:
            # roles: (observation - LO) / (HI - LO) with LO, HI two different locals
            ok = dotted(v.left.left) == "observation" and isinstance(v.left.right, ast.Name) and isinstance(v.right.left, ast.Name) \
                and dotted(v.right.right) == v.left.right.id and v.right.left.id != v.left.right.id
            if ok:
                lo, hi = v.left.right.id, v.right.left.id
        ck.ob("C15.4", fn, r.ast, ok, "the scaled value is (observation - low) / (high - low)", detail=short(v, 80))
        for nm, attr in ((lo, "low"), (hi, "high")):
            alts = [x for x in _alt_values(cfg, r, nm) if x is not None]
            vals = [ast.unparse(x) for x in alts]
            ck.ob("C15.4", fn, r.ast, bool(alts) and all(_reads_attr(cfg, x, f"observation_space.{attr}") for x in alts), f"`{attr}` is the space's {attr} bound", detail=str(vals)[:120])
    po = repo.fn(AU, "preprocess_observation")
    pcfg = CFG(po.node)
    calls = [c for c in calls_in(po.node) if call_name(c) == "apply_image_normalization"]
    ok = len(calls) == 1
    if ok:
        atoms = []
        from ..domains import conjuncts
        for g, pol in _expr_guards(pcfg, calls[0]):
            for a, p in conjuncts(g, pol):
                atoms += [(ast.unparse(a2), p2) for a2, p2 in _predicate_atoms(repo, po, a, p)]
        ok = ("len(observation_space.shape) == 3", True) in atoms and ("normalize_images", True) in atoms and ("isinstance(observation_space, spaces.Box)", True) in atoms \
            and [dotted(a) for a in calls[0].args] == ["observation", "observation_space"]
    ck.ob("C15.4", po, calls[0] if calls else po.node, ok, "normalisation is applied exactly to rank-3 Box observations when normalize_images is on, with the space of that observation")


def _guarded_values(cfg: CFG, r: Node) -> List[Tuple[Optional[ast.AST], List[Tuple[ast.AST, bool, Optional[Node]]]]]:
    """(value, guards) of everything the return statement `r` may hand back: a returned local stands for the values of its reaching bindings (each under the
    guards of its binding), a conditional expression for its arms; the guards are (test, polarity, test node of the graph or None for the test of a
    conditional expression).  `if c: x = f(x)` ... `return x` and `if c: return f(x)` hand back the same values under the same guards."""
    def guards(x: ast.AST, n: Node) -> List[Tuple[ast.AST, bool, Optional[Node]]]:
        out: List[Tuple[ast.AST, bool, Optional[Node]]] = list(cfg.guards_at(n))
        for root in n.exprs():
            for t, pol in _arm_tests(root, x):
                while isinstance(t, ast.UnaryOp) and isinstance(t.op, ast.Not):
                    t, pol = t.operand, not pol
                out.append((t, pol, None))
        return out

    out: List[Tuple[Optional[ast.AST], List[Tuple[ast.AST, bool, Optional[Node]]]]] = []
    for v in _arms(r.ast.value):
        if isinstance(v, ast.Name):
            for d in cfg.defs_reaching(r, v.id):
                dv = cfg.value_of_def(d, v.id) if d.kind == "stmt" else None
                out += [(a, guards(a, d)) for a in _arms(dv)] if dv is not None else [(None, list(cfg.guards_at(d)) if d.kind == "stmt" else [])]
        else:
            out.append((v, guards(v, r)))
    return out


def _batch_dim(ck: Check, repo: Repo) -> None:
    fn = repo.fn(AU, "maybe_add_batch_dim")
    cfg = CFG(fn.node)
    tb = TermBuilder(repo, fn, cfg=cfg, depth=0)
    p_obs, p_shape = fn.named_params[0], fn.named_params[1]
    # the tests that compare the observation's rank with something (the ranks may be kept in temporaries: terms look through them)
    offs = {}
    for t in [n for n in cfg.live_nodes() if n.kind == "test" and isinstance(n.ast, ast.Compare) and len(n.ast.ops) == 1]:
        R = tb.term(ast.parse(f"len({p_shape})", mode="eval").body, t)
        O = tb.term(ast.parse(f"len({p_obs}.shape)", mode="eval").body, t)
        l, r = tb.term(t.ast.left, t), tb.term(t.ast.comparators[0], t)
        if l != O and r != O:
            continue
        d = (r - R).const_value() if l == O else (l - R).const_value()
        offs[int(d) if d is not None else None] = (type(t.ast.ops[0]).__name__, t)
    ck.ob("C15.5", fn, fn.node, set(offs) == {0, 1, 2}, "the observation's rank is compared with the space's rank, rank + 1 and rank + 2", detail=str({k: v[0] for k, v in offs.items()}),
          construct="maybe_add_batch_dim cases")
    rets = [n for n in cfg.live_nodes() if n.kind == "stmt" and isinstance(n.ast, ast.Return) and n.ast.value is not None]
    handed = [(v, g) for r in rets for v, g in _guarded_values(cfg, r)]
    if set(offs) == {0, 1, 2}:
        t0, t1, t2 = offs[0][1], offs[1][1], offs[2][1]
        # what is handed back when the test holds: the values bound / returned under the test (array and tensor spelling of the same operation)
        under = lambda t: {ast.unparse(v) for v, g in handed if v is not None and any(tn is t and pol for _, pol, tn in g)}
        ck.ob("C15.5", fn, t0.ast, offs[0][0] == "Eq" and under(t0) == {f"np.expand_dims({p_obs}, 0)", f"{p_obs}.unsqueeze(0)"}, "rank == space rank: a leading batch axis of size 1 is added",
              detail=str(sorted(under(t0))))
        ck.ob("C15.5", fn, t2.ast, offs[2][0] == "Eq" and under(t2) == {f"{p_obs}.reshape(-1, *{p_shape})", f"{p_obs}.view(-1, *{p_shape})"}, "rank == space rank + 2: (step, env) axes are merged into one batch axis",
              detail=str(sorted(under(t2))))
        rejected = any(n.kind == "stmt" and isinstance(n.ast, ast.Raise) and "ValueError" in ast.unparse(n.ast) and any(tn is t1 and pol for _, pol, tn in cfg.guards_at(n)) for n in cfg.live_nodes())
        ck.ob("C15.5", fn, t1.ast, offs[1][0] == "NotEq" and rejected, "any other rank than space rank + 1 is rejected")
    # every value handed back is the observation itself or one operation applied to it (first argument / receiver), never something else
    def _of_obs(v: Optional[ast.AST]) -> bool:
        if v is None or (isinstance(v, ast.Name) and v.id == p_obs):
            return True  # the parameter as handed in
        while isinstance(v, ast.Call):  # f(obs, ...) / obs.m(...) / obs.m(...).n(...): operations applied to the observation
            recv = v.func.value if isinstance(v.func, ast.Attribute) else None
            if recv is not None and dotted(recv).split(".")[0] in ("np", "torch"):
                recv = None
            v = recv if recv is not None else (v.args[0] if v.args else None)
        return isinstance(v, ast.Name) and v.id == p_obs
    ck.ob("C15.5", fn, rets[0].ast if rets else fn.node, bool(rets) and all(_of_obs(v) for v, _ in handed), "the (possibly reshaped) observation is returned")
    gv = repo.fn(AU, "get_vect_dim")
    src = ast.unparse(gv.node)
    not_by_rank = _more_axes_choice(gv)
    ck.ob("C15.5", gv, gv.node, not not_by_rank, "a vectorised observation is recognised by having more axes than its space",
          detail=f"for {', '.join(not_by_rank)} spaces the answer is not `shape[0] if len(shape) > len({gv.named_params[1]}.shape) else 1` of the observation's shape", construct="get_vect_dim generic branch")
    ck.ob("C15.5", gv, gv.node, has(src, 'get_vect_dim($first_obs, $observation_space[$first_key])') and has(src, 'get_vect_dim($observation[0], $observation_space[0])'),
          "for Dict / Tuple observations the member and its own sub-space decide", construct="get_vect_dim containers")


def _more_axes_choice(gv: Fn) -> List[str]:
    """The leaf kinds for which get_vect_dim does NOT answer with the choice `S[0] if len(S) > len(<space>.shape) else 1`: on the paths a space of that kind
    takes (an explicit branch or the default: an `else`, the statements after the guard clauses) every returned value must be an arm of such a choice, written
    as a conditional expression or as an if / else over two returns, the comparison either way round, the shape S and the two ranks spelled out or kept in
    single-definition temporaries.  <space> is the function's own space parameter: a rank obtained in another way (a helper's idea of the shape) is not the
    rank of the space."""
    space = gv.named_params[1]
    cfg = CFG(gv.node)
    cands: List[ast.IfExp] = []
    for n in walk_no_nested(gv.node):
        f = n if isinstance(n, ast.Return) else (_folded([n]) if isinstance(n, ast.If) else None)
        todo = [f.value] if isinstance(f, ast.Return) and f.value is not None else []
        while todo:
            c = todo.pop()
            if isinstance(c, ast.IfExp):
                cands.append(c)
                todo += [c.body, c.orelse]
    covered: Set[int] = set()
    for c in cands:
        t, pol, a, b = c.test, True, c.body, c.orelse
        while isinstance(t, ast.UnaryOp) and isinstance(t.op, ast.Not):
            t, pol = t.operand, not pol
        if not (isinstance(t, ast.Compare) and len(t.ops) == 1):
            continue
        op = type(t.ops[0]).__name__
        neg = {"Gt": "LtE", "Lt": "GtE", "GtE": "Lt", "LtE": "Gt"}
        if not pol:
            op = neg.get(op, "?")  # `x if not (p <= q) else y` reads `x if p > q else y`
        if op in ("LtE", "GtE"):
            op, a, b = neg[op], b, a  # `y if p <= q else x` reads `x if p > q else y`
        if op not in ("Gt", "Lt"):
            continue
        big, small = (t.left, t.comparators[0]) if op == "Gt" else (t.comparators[0], t.left)
        at = cfg.node_of(t)
        sb, ss = _subst(cfg, at, big), _subst(cfg, at, small)
        sa = _subst(cfg, cfg.node_of(a), a)
        if sb is None or ss is None or sa is None or const_value(b) != 1:
            continue
        if ast.unparse(ss) == f"len({space}.shape)" and isinstance(sb, ast.Call) and call_name(sb) == "len" and len(sb.args) == 1 and ast.unparse(sa) == f"{ast.unparse(sb.args[0])}[0]":
            covered |= {id(a), id(b)}
    bad: List[str] = []
    for k in sorted(LEAF):
        exits = [x for x in _default_exits(gv, space, k) if isinstance(x, ast.Return) and x.value is not None]
        if not exits or not all(id(v) in covered for x in exits for v in _arms(x.value)):
            bad.append(k)
    return bad


def _keyed_stores(root: ast.AST, call: ast.Call) -> List[Tuple[ast.AST, ast.AST, ast.AST, Optional[ast.AST]]]:
    """The iterations that compute `call` once per item: (node, target, iterable, key under which the result of the call is stored) for every for-loop with
    a `D[key] = ... call ...` store in its body and every dict comprehension with `call` in its value (`key: ... call ... for target in iterable`); the key is
    None when the result is not stored under a key.  The loop that fills a dictionary and the comprehension that builds it are the same iteration."""
    out: List[Tuple[ast.AST, ast.AST, ast.AST, Optional[ast.AST]]] = []
    for n in ast.walk(root):
        if isinstance(n, ast.For) and any(x is call for x in ast.walk(n)):
            keys = [st.targets[0].slice for st in ast.walk(n) if isinstance(st, ast.Assign) and isinstance(st.targets[0], ast.Subscript) and isinstance(st.targets[0].value, ast.Name)
                    and any(x is call for x in ast.walk(st.value))]
            out.append((n, n.target, n.iter, keys[0] if keys else None))
        elif isinstance(n, (ast.ListComp, ast.SetComp, ast.GeneratorExp, ast.DictComp)) and any(x is call for x in ast.walk(n)):
            stored = isinstance(n, ast.DictComp) and any(x is call for x in ast.walk(n.value))
            out += [(n, g.target, g.iter, n.key if stored else None) for g in n.generators]
    return out


def _callee(repo: Repo, fn: Fn, c: ast.Call) -> Optional[Fn]:
    """The function of the package that the call `c` inside `fn` runs: a method of fn's own class called through the instance, the class or `cls`
    (`self.m(...)`, `C.m(...)`: a static method is reached either way), otherwise whatever the name resolves to in fn's module."""
    nm = call_name(c)
    parts = nm.split(".")
    if fn.cls is not None and len(parts) == 2 and parts[0] in ((fn.params[0] if fn.params and not fn.has_decorator("staticmethod") else "self"), "cls", fn.cls.name):
        return fn.cls.methods.get(parts[1])
    r = repo.resolve(fn.mod, nm) if nm and "?" not in nm else None
    return r if isinstance(r, Fn) else None


def _join_sites(repo: Repo, fn: Fn, outer: Optional[List[Tuple[str, bool]]] = None, depth: int = 0) -> List[Tuple[str, ast.Call, Fn, List[Tuple[str, bool]]]]:
    """(torch.stack | torch.cat, call, function it is written in, guards) for every joining call that `fn` runs: written in `fn` itself or in a private helper
    of the package that `fn` calls (the helper's sites are listed once per call site, under the guards of that call site followed by their own guards inside the
    helper).  Three copies of `stack if image else cat` and three calls of one helper that makes the choice are the same program."""
    cfg = CFG(fn.node)
    out: List[Tuple[str, ast.Call, Fn, List[Tuple[str, bool]]]] = []
    for c in calls_in(fn.node):
        g = list(outer or []) + [(ast.unparse(gg), pol) for gg, pol in _expr_guards(cfg, c)]
        if call_name(c) in ("torch.stack", "torch.cat"):
            out.append((call_name(c), c, fn, g))
        elif depth < 2:
            callee = _callee(repo, fn, c)
            if callee is not None and callee is not fn and callee.name.startswith("_") and not callee.name.startswith("__"):
                out += _join_sites(repo, callee, g, depth + 1)
    return out


def _agents(ck: Check, repo: Repo) -> None:
    for q, space_expr in (("RLAlgorithm.preprocess_observation", "self.observation_space"), ("MultiAgentRLAlgorithm.preprocess_observation", "self.observation_space.get(agent_id)")):
        fn = repo.fn(BASE, q)
        calls = [c for c in calls_in(fn.node) if call_name(c) == "preprocess_observation"]
        ok = len(calls) == 1
        its: List[Tuple[ast.AST, ast.AST, ast.AST, Optional[ast.AST]]] = []
        if ok:
            c = calls[0]
            if "MultiAgent" in q:
                # the space is looked up with the iteration's own key variable (for <key>, <obs> in observation.items(): loop or comprehension)
                its = [x for x in _keyed_stores(fn.node, c) if isinstance(x[1], ast.Tuple) and len(x[1].elts) == 2 and isinstance(x[1].elts[0], ast.Name)]
                space_expr = f"self.observation_space.get({its[0][1].elts[0].id})" if its else space_expr
            ok = ast.unparse(get_kw(c, "observation_space", 1)) == space_expr and dotted(get_kw(c, "device", 2)) == "self.device" and dotted(get_kw(c, "normalize_images", 3)) == "self.normalize_images"
        ck.ob("C15.6", fn, calls[0] if calls else fn.node, ok, f"{q}: delegates to the shared preprocessing with the agent's own space, device and normalisation flag")
        if "MultiAgent" in q and ok:
            every = _keyed_stores(fn.node, calls[0])
            okl = len(every) == 1 and len(its) == 1 and ast.unparse(its[0][2]) == "observation.items()" and dotted(get_kw(calls[0], "observation", 0)) == dotted(its[0][1].elts[1]) \
                and its[0][3] is not None and dotted(its[0][3]) == dotted(its[0][1].elts[0])
            ck.ob("C15.6", fn, every[0][0] if every else fn.node, okl, f"{q}: every agent's observation is prepared on its own and stored under that agent's id")
    ip = repo.fn("agilerl.algorithms.ippo", "IPPO.preprocess_observation")
    src = ast.unparse(ip.node)
    ck.ob("C15.6", ip, ip.node, has_kw(src, 'observation_space', 'self.observation_space.get($agent_id)') and has(src, '$homo_id = self.get_homo_id($agent_id)') and has(src, '$preprocessed[$homo_id].append($_)')
          and has(src, 'concatenate_tensors($preprocessed[$homo_id])'), "IPPO: agents sharing a policy are prepared one by one with their own space and concatenated in agent order",
          construct="IPPO.preprocess_observation")
    sc = repo.fn(BASE, "MultiAgentRLAlgorithm.stack_critic_observations")
    # the joining calls stack_critic_observations runs, in its own body or through a private helper, each under the guards that lead to it
    sites = _join_sites(repo, sc)
    def _case(g: List[Tuple[str, bool]]) -> str:
        pos = [k for k in ("Dict", "Tuple") for t, pol in g if pol and "isinstance(" in t and f"spaces.{k}" in t]
        neg = {k for k in ("Dict", "Tuple") for t, pol in g if not pol and "isinstance(" in t and f"spaces.{k}" in t}
        return pos[0] if pos else ("plain" if neg == {"Dict", "Tuple"} else "?")
    have = {(_case(g), nm) for nm, _, _, g in sites}
    ck.ob("C15.6", sc, sc.node, all((k, nm) in have for k in ("Dict", "Tuple", "plain") for nm in ("torch.stack", "torch.cat")),
          "Dict, Tuple and plain observation spaces each have an image branch and a vector branch", detail=f"found {sorted(have)}", construct="stack_critic_observations branches")
    uniq: Dict[int, Tuple[str, ast.Call, Fn, List[List[Tuple[str, bool]]]]] = {}
    for nm, c, f, g in sites:
        uniq.setdefault(id(c), (nm, c, f, []))[3].append(g)
    stacks = [x for x in uniq.values() if x[0] == "torch.stack"]
    cats = [x for x in uniq.values() if x[0] == "torch.cat"]
    for _, c, f, _ in stacks:
        ck.ob("C15.6", f, c, const_value(get_kw(c, "dim")) == 2, "images of the agents are stacked on a new axis 2 (depth for 3-d convolutions)")
    for _, c, f, _ in cats:
        ck.ob("C15.6", f, c, const_value(get_kw(c, "dim")) == 1, "vector observations of the agents are concatenated on the feature axis")
    for _, c, f, gs in stacks:
        ck.ob("C15.6", f, c, all(any("is_image_space" in t and pol for t, pol in g) for g in gs), "stacking is used exactly for image spaces", construct=f"stack guard {short(c, 50)}")
    for _, c, f, gs in cats:
        ck.ob("C15.6", f, c, all(any("is_image_space" in t and not pol for t, pol in g) for g in gs), "concatenation is used exactly for non-image spaces", construct=f"cat guard {short(c, 50)}")
    src = ast.unparse(sc.node)
    ck.ob("C15.6", sc, sc.node, has(src, 'for $i in range(self.n_agents):\n    ...') and has(src, 'for $j in range(self.n_agents):\n    ...'), "members are gathered from every agent in agent order", construct="stack_critic_observations agent order")


_AUF = "agilerl/utils/algo_utils.py"
_BF = "agilerl/algorithms/core/base.py"
_IP = "agilerl/algorithms/ippo.py"
_MAF = "agilerl/algorithms/maddpg.py"
_MD_COMP = ("        observation = torch.cat(\n            [\n                F.one_hot(\n                    obs_.long(), num_classes=int(observation_space.nvec[idx])\n                ).float()\n"
            "                for idx, obs_ in enumerate(torch.split(observation.long(), 1, dim=1))\n            ],\n            dim=-1,\n        )\n")
_DIS = ("            homo_outputs[unique_id] = np.reshape(\n                homo_outputs[unique_id],\n                (len(self.homogeneous_agents[unique_id]), vect_dim, -1),\n            )\n"
        "            for i, homo_id in enumerate(self.homogeneous_agents[unique_id]):\n                output_dict[homo_id] = homo_outputs[unique_id][i]\n")
VARIANTS = [
    ("dict-member-loses-normalize-flag", _AUF, "                observation_space=observation_space[key],\n                device=device,\n                normalize_images=normalize_images,\n", "                observation_space=observation_space[key],\n                device=device,\n", "fire", "C15.7"),
    ("dict-recursion-as-comprehension-ok", _AUF, "        preprocessed_obs = {}\n        for key, _obs in observation.items():\n            preprocessed_obs[key] = preprocess_observation(\n                observation=_obs,\n                observation_space=observation_space[key],\n                device=device,\n                normalize_images=normalize_images,\n            )\n\n        return preprocessed_obs\n",
     "        return {\n            key: preprocess_observation(_obs, observation_space[key], device, normalize_images)\n            for key, _obs in observation.items()\n        }\n", "silent", None),
    ("image-normalisation-in-place", _AUF, "    return (observation - low) / (high - low)", "    return observation.sub_(low).div_(high - low)", "fire", "C15.8"),
    ("batch-dim-in-place-ok-on-fresh", _AUF, "    return (observation - low) / (high - low)", "    scaled = (observation - low) / (high - low)\n    scaled.mul_(1.0)\n    return scaled", "silent", None),
    ("maddpg-observations-by-dict-order", _MAF, "        preprocessed_states = [preprocessed[agent_id] for agent_id in self.agent_ids]\n", "        preprocessed_states = list(preprocessed.values())\n", "fire", "C15.9"),
    ("ippo-stack-in-dict-order", _IP, "        for agent_id in self.agent_ids:\n            if agent_id not in observation:\n                continue\n", "        for agent_id in observation:\n", "fire", "C15.9"),
    ("ippo-stack-sorted", _IP, "        for agent_id in self.agent_ids:\n            if agent_id not in observation:\n                continue\n", "        for agent_id in sorted(observation):\n", "fire", "C15.9"),
    ("ippo-stack-filtered-comprehension-ok", _IP, "        for agent_id in self.agent_ids:\n            if agent_id not in observation:\n                continue\n", "        for agent_id in [a for a in self.agent_ids if a in observation]:\n", "silent", None),
    ("multibinary-dropped", _AUF, "    elif isinstance(observation_space, spaces.MultiBinary):\n        observation = observation.float()\n        space_shape = (observation_space.n,)\n", "", "fire", "C15.1"),
    ("rank-vs-shape", _AUF, "            if len(observation.shape) > len(observation_space.shape)\n            else 1\n        )\n    else:", "            if len(observation.shape) > observation_space.shape\n            else 1\n        )\n    else:", "fire", "C15.2"),
    ("onehot-width-max", _AUF, "observation.long(), num_classes=int(observation_space.n)", "observation.long(), num_classes=int(observation.max()) + 1", "fire", "C15.3"),
    ("onehot-nvec-first", _AUF, "obs_.long(), num_classes=int(observation_space.nvec[idx])", "obs_.long(), num_classes=int(observation_space.nvec[0])", "fire", "C15.3"),
    ("image-scale-by-high", _AUF, "    return (observation - low) / (high - low)", "    return (observation - low) / high", "fire", "C15.4"),
    ("image-norm-any-rank", _AUF, "        if len(observation_space.shape) == 3 and normalize_images:", "        if normalize_images:", "fire", "C15.4"),
    ("image-norm-flag-ignored", _AUF, "        if len(observation_space.shape) == 3 and normalize_images:", "        if len(observation_space.shape) == 3:", "fire", "C15.4"),
    ("batchdim-plus-two-off", _AUF, "    elif len(obs.shape) == len(space_shape) + 2:", "    elif len(obs.shape) >= len(space_shape) + 2:", "fire", "C15.5"),
    ("batchdim-no-reject", _AUF, "    elif len(obs.shape) != len(space_shape) + 1:\n        raise ValueError(\n            f\"Expected observation to have {len(space_shape) + 1} dimensions, got {len(obs.shape)}.\"\n        )\n", "", "fire", "C15.5"),
    ("dict-wrong-subspace", _AUF, "                observation_space=observation_space[key],\n", "                observation_space=observation_space,\n", "fire", "C15.7"),
    ("discrete-shape-one", _AUF, "        space_shape = (observation_space.n,)\n\n    elif isinstance(observation_space, spaces.MultiDiscrete):", "        space_shape = (1,)\n\n    elif isinstance(observation_space, spaces.MultiDiscrete):", "fire", "C15.1"),
    ("agents-shared-space", _BF, "                observation_space=self.observation_space.get(agent_id),\n                device=self.device,\n                normalize_images=self.normalize_images,\n            )\n\n        return preprocessed\n\n    def extract_action_masks",
     "                observation_space=self.single_space,\n                device=self.device,\n                normalize_images=self.normalize_images,\n            )\n\n        return preprocessed\n\n    def extract_action_masks", "fire", "C15.6"),
    ("critic-images-cat", _BF, "        elif is_image_space(self.single_space):\n            processed_obs = torch.stack(obs, dim=2)", "        elif is_image_space(self.single_space):\n            processed_obs = torch.cat(obs, dim=1)", "fire", "C15.6"),
    ("critic-vectors-dim0", _BF, "        else:\n            processed_obs = torch.cat(obs, dim=1)\n\n        return processed_obs", "        else:\n            processed_obs = torch.cat(obs, dim=0)\n\n        return processed_obs", "fire", "C15.6"),
    # one verdict for both spellings of a two-way choice (conditional expression <-> if / else statement)
    ("vect-dim-choice-as-statement-ok", _AUF, "        return array_shape[0] if len(array_shape) > len(observation_space.shape) else 1\n",
     "        if len(array_shape) > len(observation_space.shape):\n            return array_shape[0]\n        else:\n            return 1\n", "silent", None),
    ("vect-dim-statement-same-rank-counts-as-vectorised", _AUF, "        return array_shape[0] if len(array_shape) > len(observation_space.shape) else 1\n",
     "        if len(array_shape) >= len(observation_space.shape):\n            return array_shape[0]\n        else:\n            return 1\n", "fire", "C15.5"),
    ("critic-leaf-choice-as-expression-ok", _BF, "        elif is_image_space(self.single_space):\n            processed_obs = torch.stack(obs, dim=2)\n        else:\n            processed_obs = torch.cat(obs, dim=1)\n",
     "        else:\n            processed_obs = torch.stack(obs, dim=2) if is_image_space(self.single_space) else torch.cat(obs, dim=1)\n", "silent", None),
    ("critic-leaf-choice-as-expression-arms-swapped", _BF, "        elif is_image_space(self.single_space):\n            processed_obs = torch.stack(obs, dim=2)\n        else:\n            processed_obs = torch.cat(obs, dim=1)\n",
     "        else:\n            processed_obs = torch.cat(obs, dim=1) if is_image_space(self.single_space) else torch.stack(obs, dim=2)\n", "fire", "C15.6"),
    ("image-bounds-choice-as-expressions-ok", _AUF, '    if isinstance(observation, torch.Tensor):\n        low = torch.tensor(\n            observation_space.low, device=observation.device, dtype=observation.dtype\n        )\n        high = torch.tensor(\n            observation_space.high, device=observation.device, dtype=observation.dtype\n        )\n    else:\n        low = observation_space.low\n        high = observation_space.high\n',
     '    is_t = isinstance(observation, torch.Tensor)\n    low = torch.tensor(observation_space.low, device=observation.device, dtype=observation.dtype) if is_t else observation_space.low\n    high = torch.tensor(observation_space.high, device=observation.device, dtype=observation.dtype) if is_t else observation_space.high\n', "silent", None),
    ("image-high-constant-on-the-array-arm", _AUF, '    if isinstance(observation, torch.Tensor):\n        low = torch.tensor(\n            observation_space.low, device=observation.device, dtype=observation.dtype\n        )\n        high = torch.tensor(\n            observation_space.high, device=observation.device, dtype=observation.dtype\n        )\n    else:\n        low = observation_space.low\n        high = observation_space.high\n',
     '    is_t = isinstance(observation, torch.Tensor)\n    low = torch.tensor(observation_space.low, device=observation.device, dtype=observation.dtype) if is_t else observation_space.low\n    high = torch.tensor(observation_space.high, device=observation.device, dtype=observation.dtype) if is_t else 255.0\n', "fire", "C15.4"),
    ('state-dim-leaf-choice-as-expression-ok', _BF, '        elif isinstance(observation_space, spaces.Box):\n            return observation_space.shape\n        elif isinstance(observation_space, spaces.MultiBinary):\n            return (observation_space.n,)\n        else:\n            raise AttributeError(\n                f"Can\'t access state dimensions for',
     '        elif isinstance(observation_space, (spaces.Box, spaces.MultiBinary)):\n            return observation_space.shape if isinstance(observation_space, spaces.Box) else (observation_space.n,)\n        else:\n            raise AttributeError(\n                f"Can\'t access state dimensions for', 'silent', None),
    ('state-dim-leaf-choice-as-nested-statement-ok', _BF, '        elif isinstance(observation_space, spaces.Box):\n            return observation_space.shape\n        elif isinstance(observation_space, spaces.MultiBinary):\n            return (observation_space.n,)\n        else:\n            raise AttributeError(\n                f"Can\'t access state dimensions for',
     '        elif isinstance(observation_space, (spaces.Box, spaces.MultiBinary)):\n            if isinstance(observation_space, spaces.Box):\n                return observation_space.shape\n            else:\n                return (observation_space.n,)\n        else:\n            raise AttributeError(\n                f"Can\'t access state dimensions for', 'silent', None),
    ('state-dim-expression-box-flattened', _BF, '        elif isinstance(observation_space, spaces.Box):\n            return observation_space.shape\n        elif isinstance(observation_space, spaces.MultiBinary):\n            return (observation_space.n,)\n        else:\n            raise AttributeError(\n                f"Can\'t access state dimensions for',
     '        elif isinstance(observation_space, (spaces.Box, spaces.MultiBinary)):\n            return (int(np.prod(observation_space.shape)),) if isinstance(observation_space, spaces.Box) else (observation_space.n,)\n        else:\n            raise AttributeError(\n                f"Can\'t access state dimensions for', 'fire', 'C15.1'),
    # ---- third round: re-spellings of the leaf branches of preprocess_observation (one verdict whichever way a width / a guard / an iteration is written)
    ("discrete-width-through-a-local-ok", _AUF, "        observation = F.one_hot(\n            observation.long(), num_classes=int(observation_space.n)\n        ).float()\n",
     "        num_classes = int(observation_space.n)\n        observation = F.one_hot(observation.long(), num_classes=num_classes).float()\n", "silent", None),
    ("discrete-width-local-from-the-data", _AUF, "        observation = F.one_hot(\n            observation.long(), num_classes=int(observation_space.n)\n        ).float()\n",
     "        num_classes = int(observation.max()) + 1\n        observation = F.one_hot(observation.long(), num_classes=num_classes).float()\n", "fire", "C15.3"),
    ("multidiscrete-encoding-as-explicit-loop-ok", _AUF, _MD_COMP,
     "        columns = torch.split(observation.long(), 1, dim=1)\n        one_hots = []\n        for idx, column in enumerate(columns):\n            num_classes = int(observation_space.nvec[idx])\n"
     "            one_hots.append(F.one_hot(column, num_classes=num_classes).float())\n\n        observation = torch.cat(one_hots, dim=-1)\n", "silent", None),
    ("multidiscrete-encoding-zipped-with-its-widths-ok", _AUF, _MD_COMP,
     "        one_hots = []\n        for column, width in zip(torch.split(observation.long(), 1, dim=1), observation_space.nvec):\n"
     "            one_hots.append(F.one_hot(column, num_classes=int(width)).float())\n        observation = torch.cat(one_hots, dim=-1)\n", "silent", None),
    ("multidiscrete-loop-width-of-the-first-component", _AUF, _MD_COMP,
     "        columns = torch.split(observation.long(), 1, dim=1)\n        one_hots = []\n        for idx, column in enumerate(columns):\n            num_classes = int(observation_space.nvec[0])\n"
     "            one_hots.append(F.one_hot(column, num_classes=num_classes).float())\n\n        observation = torch.cat(one_hots, dim=-1)\n", "fire", "C15.3"),
    ("multidiscrete-loop-counter-of-another-enumeration", _AUF, _MD_COMP,
     "        columns = torch.split(observation.long(), 1, dim=1)\n        one_hots = []\n        for idx, _ in enumerate(observation_space.shape):\n            for column in columns:\n"
     "                one_hots.append(F.one_hot(column, num_classes=int(observation_space.nvec[idx])).float())\n\n        observation = torch.cat(one_hots, dim=-1)\n", "fire", "C15.3"),
    ("multidiscrete-loop-columns-not-integer", _AUF, _MD_COMP,
     "        columns = torch.split(observation, 1, dim=1)\n        one_hots = []\n        for idx, column in enumerate(columns):\n"
     "            one_hots.append(F.one_hot(column, num_classes=int(observation_space.nvec[idx])).float())\n\n        observation = torch.cat(one_hots, dim=-1)\n", "fire", "C15.3"),
    ("image-check-through-is-image-space-ok", _AUF, "        if len(observation_space.shape) == 3 and normalize_images:", "        if normalize_images and is_image_space(observation_space):", "silent", None),
    # ---- C15.12: no branch on the observed values
    ("normalisation-skipped-when-the-data-looks-scaled", _AUF, "    if np.all(observation_space.high == 1) and np.all(observation_space.low == 0):\n        return observation\n",
     "    if np.all(observation_space.high == 1) and np.all(observation_space.low == 0):\n        return observation\n\n    if observation.min() >= 0 and observation.max() <= 1:\n        return observation\n", "fire", "C15.12"),
    ("normalisation-skipped-on-the-batch-peak-through-a-local", _AUF, "    if np.all(observation_space.high == 1) and np.all(observation_space.low == 0):\n        return observation\n",
     "    if np.all(observation_space.high == 1) and np.all(observation_space.low == 0):\n        return observation\n\n    peak = observation.max()\n    if peak <= 1:\n        return observation\n", "fire", "C15.12"),
    ("normalisation-only-for-bright-batches", _AUF, "        if len(observation_space.shape) == 3 and normalize_images:", "        if len(observation_space.shape) == 3 and normalize_images and bool((observation > 1).any()):", "fire", "C15.12"),
    ("tensor-test-through-torch-is-tensor-ok", _AUF, "    if isinstance(observation, torch.Tensor):\n        low = torch.tensor(", "    if torch.is_tensor(observation):\n        low = torch.tensor(", "silent", None),
    ("device-test-as-statement-ok", _AUF, "        return obs if obs.device == device else obs.to(device)\n", "        same_device = obs.device == device\n        if same_device:\n            return obs\n        return obs.to(device)\n", "silent", None),
    # ---- C15.13: the bounds are the space's arrays
    ("image-bounds-scalar-extremes-on-the-tensor-path", _AUF, "        low = torch.tensor(\n            observation_space.low, device=observation.device, dtype=observation.dtype\n        )\n        high = torch.tensor(\n            observation_space.high, device=observation.device, dtype=observation.dtype\n        )\n",
     "        low = float(observation_space.low.min())\n        high = float(observation_space.high.max())\n", "fire", "C15.13"),
    ("image-bounds-extremes-on-the-array-path", _AUF, "        low = observation_space.low\n        high = observation_space.high\n", "        low = observation_space.low.min()\n        high = observation_space.high.max()\n", "fire", "C15.13"),
    ("image-bounds-first-element", _AUF, "        low = observation_space.low\n        high = observation_space.high\n", "        low = observation_space.low.flat[0]\n        high = observation_space.high.flat[0]\n", "fire", "C15.13"),
    ("image-bounds-as-tensor-then-moved-ok", _AUF, "        low = torch.tensor(\n            observation_space.low, device=observation.device, dtype=observation.dtype\n        )\n        high = torch.tensor(\n            observation_space.high, device=observation.device, dtype=observation.dtype\n        )\n",
     "        low = torch.as_tensor(observation_space.low).to(device=observation.device, dtype=observation.dtype)\n        high_np = observation_space.high\n        high = torch.from_numpy(high_np).to(observation.device).type(observation.dtype)\n", "silent", None),
    # ---- C15.14: row layout of a shared policy's batch, producer vs consumer
    ("disassemble-one-column-per-agent", _BF, _DIS, "            homo_ids = self.homogeneous_agents[unique_id]\n            grouped = np.reshape(\n                homo_outputs[unique_id], (vect_dim, len(homo_ids), -1)\n            )\n"
     "            output_dict.update(zip(homo_ids, np.moveaxis(grouped, 1, 0)))\n", "fire", "C15.14"),
    ("disassemble-sizes-swapped", _BF, "                (len(self.homogeneous_agents[unique_id]), vect_dim, -1),\n", "                (vect_dim, len(self.homogeneous_agents[unique_id]), -1),\n", "fire", "C15.14"),
    ("disassemble-agent-taken-on-the-env-axis", _BF, "                output_dict[homo_id] = homo_outputs[unique_id][i]\n", "                output_dict[homo_id] = homo_outputs[unique_id][:, i]\n", "fire", "C15.14"),
    ("shared-batch-joined-env-major", _AUF, "        return torch.cat(tensors, dim=0)\n", "        return torch.stack(tensors, dim=1).flatten(0, 1)\n", "fire", "C15.14"),
    ("disassemble-zip-over-the-leading-axis-ok", _BF, _DIS, "            homo_ids = self.homogeneous_agents[unique_id]\n            grouped = np.reshape(homo_outputs[unique_id], (len(homo_ids), vect_dim, -1))\n"
     "            output_dict.update(zip(homo_ids, grouped))\n", "silent", None),
    ("disassemble-comprehension-over-a-transposed-view-ok", _BF, _DIS, "            homo_ids = self.homogeneous_agents[unique_id]\n            n_homo = len(homo_ids)\n            by_env = np.swapaxes(np.reshape(homo_outputs[unique_id], (n_homo, vect_dim, -1)), 0, 1)\n"
     "            output_dict.update({homo_id: by_env[:, k] for k, homo_id in enumerate(homo_ids)})\n", "silent", None),
    ("shared-batch-stacked-then-merged-ok", _AUF, "        return torch.cat(tensors, dim=0)\n", "        return torch.stack(tensors, dim=0).flatten(0, 1)\n", "silent", None),
    # ---- fourth round: guard clauses / fall-through defaults, ranks kept in locals, comprehensions, one private helper for a choice written three times
    ('batch-dim-ranks-in-locals-early-returns-ok', _AUF, '    if len(obs.shape) == len(space_shape):\n        if isinstance(obs, np.ndarray):\n            obs = np.expand_dims(obs, 0)\n        else:\n            obs = obs.unsqueeze(0)\n    elif len(obs.shape) == len(space_shape) + 2:\n        if isinstance(obs, np.ndarray):\n            obs = obs.reshape(-1, *space_shape)\n        else:\n            obs = obs.view(-1, *space_shape)\n    elif len(obs.shape) != len(space_shape) + 1:\n        raise ValueError(\n            f"Expected observation to have {len(space_shape) + 1} dimensions, got {len(obs.shape)}."\n        )\n\n    return obs\n',
     '    obs_ndim = len(obs.shape)\n    space_ndim = len(space_shape)\n    is_numpy = isinstance(obs, np.ndarray)\n    if obs_ndim == space_ndim:\n        return np.expand_dims(obs, 0) if is_numpy else obs.unsqueeze(0)\n    if obs_ndim == space_ndim + 2:\n        return obs.reshape(-1, *space_shape) if is_numpy else obs.view(-1, *space_shape)\n    if obs_ndim != space_ndim + 1:\n        raise ValueError(f"Expected observation to have {space_ndim + 1} dimensions, got {obs_ndim}.")\n\n    return obs\n', 'silent', None),
    ('batch-dim-early-returns-cases-swapped', _AUF, '    if len(obs.shape) == len(space_shape):\n        if isinstance(obs, np.ndarray):\n            obs = np.expand_dims(obs, 0)\n        else:\n            obs = obs.unsqueeze(0)\n    elif len(obs.shape) == len(space_shape) + 2:\n        if isinstance(obs, np.ndarray):\n            obs = obs.reshape(-1, *space_shape)\n        else:\n            obs = obs.view(-1, *space_shape)\n    elif len(obs.shape) != len(space_shape) + 1:\n        raise ValueError(\n            f"Expected observation to have {len(space_shape) + 1} dimensions, got {len(obs.shape)}."\n        )\n\n    return obs\n',
     '    obs_ndim = len(obs.shape)\n    space_ndim = len(space_shape)\n    is_numpy = isinstance(obs, np.ndarray)\n    if obs_ndim == space_ndim:\n        return obs.reshape(-1, *space_shape) if is_numpy else obs.view(-1, *space_shape)\n    if obs_ndim == space_ndim + 2:\n        return np.expand_dims(obs, 0) if is_numpy else obs.unsqueeze(0)\n    if obs_ndim != space_ndim + 1:\n        raise ValueError(f"Expected observation to have {space_ndim + 1} dimensions, got {obs_ndim}.")\n\n    return obs\n', 'fire', 'C15.5'),
    ('batch-dim-early-returns-no-reject-of-lower-ranks', _AUF, '    if len(obs.shape) == len(space_shape):\n        if isinstance(obs, np.ndarray):\n            obs = np.expand_dims(obs, 0)\n        else:\n            obs = obs.unsqueeze(0)\n    elif len(obs.shape) == len(space_shape) + 2:\n        if isinstance(obs, np.ndarray):\n            obs = obs.reshape(-1, *space_shape)\n        else:\n            obs = obs.view(-1, *space_shape)\n    elif len(obs.shape) != len(space_shape) + 1:\n        raise ValueError(\n            f"Expected observation to have {len(space_shape) + 1} dimensions, got {len(obs.shape)}."\n        )\n\n    return obs\n',
     '    obs_ndim = len(obs.shape)\n    space_ndim = len(space_shape)\n    is_numpy = isinstance(obs, np.ndarray)\n    if obs_ndim == space_ndim:\n        return np.expand_dims(obs, 0) if is_numpy else obs.unsqueeze(0)\n    if obs_ndim == space_ndim + 2:\n        return obs.reshape(-1, *space_shape) if is_numpy else obs.view(-1, *space_shape)\n    if obs_ndim > space_ndim + 2:\n        raise ValueError(f"Expected observation to have {space_ndim + 1} dimensions, got {obs_ndim}.")\n\n    return obs\n', 'fire', 'C15.5'),
    ('vect-dim-leaf-kinds-as-fall-through-with-locals-ok', _AUF, '    elif isinstance(observation_space, spaces.MultiBinary):\n        return (\n            observation.shape[0]\n            if len(observation.shape) > len(observation_space.shape)\n            else 1\n        )\n    else:\n        array_shape = observation.shape\n        return array_shape[0] if len(array_shape) > len(observation_space.shape) else 1\n',
     '\n    obs_shape = observation.shape\n    space_ndim = len(observation_space.shape)\n    return obs_shape[0] if len(obs_shape) > space_ndim else 1\n', 'silent', None),
    ('vect-dim-fall-through-rank-from-a-helper', _AUF, '    elif isinstance(observation_space, spaces.MultiBinary):\n        return (\n            observation.shape[0]\n            if len(observation.shape) > len(observation_space.shape)\n            else 1\n        )\n    else:\n        array_shape = observation.shape\n        return array_shape[0] if len(array_shape) > len(observation_space.shape) else 1\n',
     '\n    obs_shape = observation.shape\n    space_ndim = len(get_space_shape(observation_space))\n    return obs_shape[0] if len(obs_shape) > space_ndim else 1\n', 'fire', 'C15.5'),
    ('vect-dim-fall-through-rank-local-holds-the-shape', _AUF, '    elif isinstance(observation_space, spaces.MultiBinary):\n        return (\n            observation.shape[0]\n            if len(observation.shape) > len(observation_space.shape)\n            else 1\n        )\n    else:\n        array_shape = observation.shape\n        return array_shape[0] if len(array_shape) > len(observation_space.shape) else 1\n',
     '\n    obs_shape = observation.shape\n    space_ndim = observation_space.shape\n    return obs_shape[0] if len(obs_shape) > space_ndim else 1\n', 'fire', 'C15.2'),
    ('vect-dim-fall-through-rejects-the-other-leaf-kinds', _AUF, '    else:\n        array_shape = observation.shape\n        return array_shape[0] if len(array_shape) > len(observation_space.shape) else 1\n',
     '    raise TypeError(f"Unsupported space type: {type(observation_space)}")\n', 'fire', 'C15.1'),
    ('agents-prepared-by-dict-comprehension-ok', _BF, '        preprocessed = {}\n        for agent_id, obs in observation.items():\n            preprocessed[agent_id] = preprocess_observation(\n                observation=obs,\n                observation_space=self.observation_space.get(agent_id),\n                device=self.device,\n                normalize_images=self.normalize_images,\n            )\n\n        return preprocessed\n',
     '        return {\n            agent_id: preprocess_observation(\n                observation=agent_obs,\n                observation_space=self.observation_space.get(agent_id),\n                device=self.device,\n                normalize_images=self.normalize_images,\n            )\n            for agent_id, agent_obs in observation.items()\n        }\n', 'silent', None),
    ('agents-comprehension-pairs-ids-with-values-by-position', _BF, '        preprocessed = {}\n        for agent_id, obs in observation.items():\n            preprocessed[agent_id] = preprocess_observation(\n                observation=obs,\n                observation_space=self.observation_space.get(agent_id),\n                device=self.device,\n                normalize_images=self.normalize_images,\n            )\n\n        return preprocessed\n',
     '        return {\n            agent_id: preprocess_observation(\n                observation=agent_obs,\n                observation_space=self.observation_space.get(agent_id),\n                device=self.device,\n                normalize_images=self.normalize_images,\n            )\n            for agent_id, agent_obs in zip(self.agent_ids, observation.values())\n        }\n', 'fire', 'C15.6'),
    ('critic-join-choice-in-one-private-helper-ok', _BF, '        obs = list(obs.values())\n        if isinstance(self.single_space, spaces.Dict):\n            processed_obs = {}\n            for key, space in self.single_space.spaces.items():\n                if is_image_space(space):\n                    processed_obs[key] = torch.stack(\n                        [obs[i][key] for i in range(self.n_agents)], dim=2\n                    )\n                else:\n                    processed_obs[key] = torch.cat(\n                        [obs[i][key] for i in range(self.n_agents)], dim=1\n                    )\n\n        elif isinstance(self.single_space, spaces.Tuple):\n            processed_obs = []\n            for i, space in enumerate(self.single_space):\n                if is_image_space(space):\n                    processed_obs.append(\n                        torch.stack([obs[j][i] for j in range(self.n_agents)], dim=2)\n                    )\n                else:\n                    processed_obs.append(\n                        torch.cat([obs[j][i] for j in range(self.n_agents)], dim=1)\n                    )\n            processed_obs = tuple(processed_obs)\n\n        elif is_image_space(self.single_space):\n            processed_obs = torch.stack(obs, dim=2)\n        else:\n            processed_obs = torch.cat(obs, dim=1)\n\n        return processed_obs\n',
     '        obs = list(obs.values())\n        if isinstance(self.single_space, spaces.Dict):\n            return {\n                key: self._join([obs[i][key] for i in range(self.n_agents)], space)\n                for key, space in self.single_space.spaces.items()\n            }\n\n        if isinstance(self.single_space, spaces.Tuple):\n            return tuple(\n                self._join([obs[j][i] for j in range(self.n_agents)], space)\n                for i, space in enumerate(self.single_space)\n            )\n\n        return MultiAgentRLAlgorithm._join(obs, self.single_space)\n\n    @staticmethod\n    def _join(tensors, space):\n        if is_image_space(space):\n            return torch.stack(tensors, dim=2)\n\n        return torch.cat(tensors, dim=1)\n', 'silent', None),
    ('critic-join-helper-arms-swapped', _BF, '        obs = list(obs.values())\n        if isinstance(self.single_space, spaces.Dict):\n            processed_obs = {}\n            for key, space in self.single_space.spaces.items():\n                if is_image_space(space):\n                    processed_obs[key] = torch.stack(\n                        [obs[i][key] for i in range(self.n_agents)], dim=2\n                    )\n                else:\n                    processed_obs[key] = torch.cat(\n                        [obs[i][key] for i in range(self.n_agents)], dim=1\n                    )\n\n        elif isinstance(self.single_space, spaces.Tuple):\n            processed_obs = []\n            for i, space in enumerate(self.single_space):\n                if is_image_space(space):\n                    processed_obs.append(\n                        torch.stack([obs[j][i] for j in range(self.n_agents)], dim=2)\n                    )\n                else:\n                    processed_obs.append(\n                        torch.cat([obs[j][i] for j in range(self.n_agents)], dim=1)\n                    )\n            processed_obs = tuple(processed_obs)\n\n        elif is_image_space(self.single_space):\n            processed_obs = torch.stack(obs, dim=2)\n        else:\n            processed_obs = torch.cat(obs, dim=1)\n\n        return processed_obs\n',
     '        obs = list(obs.values())\n        if isinstance(self.single_space, spaces.Dict):\n            return {\n                key: self._join([obs[i][key] for i in range(self.n_agents)], space)\n                for key, space in self.single_space.spaces.items()\n            }\n\n        if isinstance(self.single_space, spaces.Tuple):\n            return tuple(\n                self._join([obs[j][i] for j in range(self.n_agents)], space)\n                for i, space in enumerate(self.single_space)\n            )\n\n        return MultiAgentRLAlgorithm._join(obs, self.single_space)\n\n    @staticmethod\n    def _join(tensors, space):\n        if not is_image_space(space):\n            return torch.stack(tensors, dim=2)\n\n        return torch.cat(tensors, dim=1)\n', 'fire', 'C15.6'),
    ('critic-join-helper-bypassed-for-tuple-members', _BF, '        obs = list(obs.values())\n        if isinstance(self.single_space, spaces.Dict):\n            processed_obs = {}\n            for key, space in self.single_space.spaces.items():\n                if is_image_space(space):\n                    processed_obs[key] = torch.stack(\n                        [obs[i][key] for i in range(self.n_agents)], dim=2\n                    )\n                else:\n                    processed_obs[key] = torch.cat(\n                        [obs[i][key] for i in range(self.n_agents)], dim=1\n                    )\n\n        elif isinstance(self.single_space, spaces.Tuple):\n            processed_obs = []\n            for i, space in enumerate(self.single_space):\n                if is_image_space(space):\n                    processed_obs.append(\n                        torch.stack([obs[j][i] for j in range(self.n_agents)], dim=2)\n                    )\n                else:\n                    processed_obs.append(\n                        torch.cat([obs[j][i] for j in range(self.n_agents)], dim=1)\n                    )\n            processed_obs = tuple(processed_obs)\n\n        elif is_image_space(self.single_space):\n            processed_obs = torch.stack(obs, dim=2)\n        else:\n            processed_obs = torch.cat(obs, dim=1)\n\n        return processed_obs\n',
     '        obs = list(obs.values())\n        if isinstance(self.single_space, spaces.Dict):\n            return {\n                key: self._join([obs[i][key] for i in range(self.n_agents)], space)\n                for key, space in self.single_space.spaces.items()\n            }\n\n        if isinstance(self.single_space, spaces.Tuple):\n            return tuple(\n                torch.cat([obs[j][i] for j in range(self.n_agents)], dim=1)\n                for i, space in enumerate(self.single_space)\n            )\n\n        return MultiAgentRLAlgorithm._join(obs, self.single_space)\n\n    @staticmethod\n    def _join(tensors, space):\n        if is_image_space(space):\n            return torch.stack(tensors, dim=2)\n\n        return torch.cat(tensors, dim=1)\n', 'fire', 'C15.6'),
]
