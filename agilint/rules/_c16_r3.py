"""C16.11 (helper module of c16), added after the third round of seeded changes.

The log-probability that is stored with an action belongs to that action: on PPO's acting path the (action, log-probability, entropy) triple is
taken from the policy HEAD (`forward_head` / the distribution wrapper), i.e. the action is the sample the density was evaluated at.
`StochasticActor.forward` additionally rescales a squashed Box action to [low, high] (`scale_action`): an acting path that calls the network's
`forward` returns an action outside the (-1, 1) support of the squashed distribution together with the log-probability of the unscaled one.

IPPO's acting path does call `actor(obs, ...)`; a squashed policy cannot be configured for IPPO today (its constructor hands `squash_output`
on to the critic's constructor, which rejects it), so that site cannot reach the rescaling and is recorded, not judged.
"""
from __future__ import annotations

import ast
from typing import List, Set

from ..core import Fn, Repo, call_name, calls_in, dotted, last_attr, short, walk_no_nested
from ..report import Check


def _rescaling_methods(repo: Repo) -> Set[str]:
    """methods of StochasticActor that hand back an action they passed through scale_action"""
    cls = repo.cls("agilerl.networks.actors", "StochasticActor")
    out: Set[str] = set()
    for name, m in cls.methods.items():
        if name == "scale_action":
            continue
        if any(last_attr(c) == "scale_action" for c in calls_in(m.node)):
            out.add(m.name)
    return out


def run_r3(ck: Check, repo: Repo) -> None:
    ck.rule("C16.11", "the stored log-probability belongs to the stored action: PPO's acting path takes (action, log_prob, entropy) from the policy head, never from a network "
                      "method that rescales the action it returns (StochasticActor.forward applies scale_action to squashed Box actions)")
    resc = _rescaling_methods(repo)
    ck.floor("C16.11", len(resc), 1, "StochasticActor methods that rescale the returned action")
    n = 0
    for modname, cname in (("agilerl.algorithms.ppo", "PPO"),):
        cls = repo.cls(modname, cname)
        for m in cls.methods.values():
            if m.name in ("test", "learn", "evaluate_actions") or m.name.startswith("__"):
                continue
            for s in walk_no_nested(m.node):
                # (action, log_prob, entropy) = <call on the actor>
                if not (isinstance(s, ast.Assign) and len(s.targets) == 1 and isinstance(s.targets[0], ast.Tuple) and len(s.targets[0].elts) == 3 and isinstance(s.value, ast.Call)):
                    continue
                c = s.value
                f = c.func
                recv = f.value if isinstance(f, ast.Attribute) else f
                if "actor" not in dotted(recv) and "actor" not in dotted(f):
                    continue
                n += 1
                # which method of which object runs?  `actor(...)` is the actor's forward; `actor.m(...)` is m; `actor.head_net(...)` / `actor.head_net.forward(...)`
                # run the head (a sub-module of the actor), which never rescales
                def _is_actor(e: ast.AST) -> bool:
                    return dotted(e).split(".")[-1].startswith("actor")
                if _is_actor(f):
                    meth = "forward"
                elif isinstance(f, ast.Attribute) and _is_actor(f.value):
                    meth = f.attr
                else:
                    meth = "<head>"
                ok = meth not in resc
                ck.ob("C16.11", m, c, ok, f"{cname}.{m.name}: the action / log-probability pair comes from the policy head",
                      detail="" if ok else f"`{short(c, 60)}` runs StochasticActor.{meth}, which rescales a squashed action after its log-probability was taken: the action returned "
                                           f"to the rollout lies outside the distribution's support and its stored log-probability is that of another point",
                      construct=f"{cname}.{m.name}: source of (action, log_prob, entropy)")
    ck.floor("C16.11", n, 1, "acting-path calls that return (action, log_prob, entropy)")
    ck.analysed.setdefault("C16.11_not_judged", []).append("IPPO.get_action calls actor(obs, ...): squash_output cannot be configured for IPPO (constructor passes it to the critic, which rejects it)")
