"""C06 — hyper-parameter mutation stays in its configured range and takes effect."""
from __future__ import annotations

import ast
from typing import Dict, List, Optional, Set

from ..cfg import CFG, Node
from ..core import AnalysisError, Cls, Fn, Repo, call_name, calls_in, const_value, dotted, get_kw, last_attr, short, walk_no_nested
from ..registry import extract_all
from ..pat import has
from ..report import Check
from ..terms import Atom, Poly, TermBuilder, expand_phi, mentions, single_atom

REG = "agilerl.algorithms.core.registry"
MUT = "agilerl.hpo.mutation"
BASE = "agilerl.algorithms.core.base"


def run(ck: Check, repo: Repo) -> None:
    ck.not_decided += ["numeric drift over generations (follows from C06.1-2 but is not computed)",
                       "that grow and shrink are equally likely (probabilistic)"]
    ck.rule("C06.6", "the learning-rate name an optimizer is registered under is the one of its construction site: algorithms with several learning "
                     "rates pass lr_name= explicitly (run-time inference by the identity of a float cannot tell two equal learning rates apart) and the wrapper uses the given name")
    ck.rule("C06.1", "RLParameter.mutate: the candidate is value*shrink_factor or value*grow_factor (or a bound), the result is a "
                     "recognised clip to [min, max], converted with self.dtype, stored and returned")
    ck.rule("C06.2", "the value that is mutated is the individual's own current value: it is (re)loaded from getattr(individual, name) "
                     "on every path before mutate(), or the registry owns a private copy of the configuration")
    ck.rule("C06.3", "exactly one hyper-parameter is sampled per call, the mutated value is written back to that attribute of the "
                     "individual, and the individual reports the attribute's name")
    ck.rule("C06.4", "a mutated learning rate takes effect in every optimizer registered for that lr name (no projection to the first "
                     "match while an algorithm registers several optimizers per lr)")
    ck.rule("C06.5", "re-created optimizers read networks and learning rate from the individual at call time; configured names are "
                     "checked against the agent at construction")
    # the post-mutation work of Mutations.mutation (hooks that consume hyper-parameters, e.g. lamb -> sigma_inv of the bandits) also runs after an
    # RL-hyper-parameter mutation: obligations of C02.3 on the population loop (nested check first: it resets the per-run pattern environments)
    from dataclasses import replace
    from . import c02
    sub = Check("C02", ck.tier, ck.repo_root)
    sub.known = []
    sub.rule("C02.3", "shared")
    c02._shared_rebuilt(sub, repo)
    ck.rule("C06.7", "the new value is what the agent subsequently uses, also where a hook derives state from it: Mutations.mutation runs the individual's mutation "
                     "hooks and the shared-network rebuild on every iteration whatever kind of mutation was applied (obligations of C02.3, shared with the C02 check)")
    taken = [replace(o, rule="C06.7") for o in sub.obs if o.rule == "C02.3"]
    if len(taken) < 6:
        raise AnalysisError(f"C06.7: only {len(taken)} obligations taken over from C02.3")
    ck.obs.extend(taken)
    ck.rule("C06.8", "an optimizer is always built with the learning rate it is given: every parameter group / optimizer constructor receives the `lr` argument, and "
                     "the stored optimizer_kwargs (kept by the wrapper and the registry and handed back by reinit_opt and clone) are never written to")
    _wrapper_kwargs(ck, repo)
    _mutate(ck, repo)
    _hp_mutation(ck, repo)
    _reinit_opt(ck, repo)

    _lr_names(ck, repo)

_DICT_WRITES = {"setdefault", "update", "pop", "popitem", "clear", "__setitem__", "__delitem__"}


def _wrapper_kwargs(ck: Check, repo: Repo) -> None:
    mod = repo.mod("agilerl.algorithms.core.wrappers")
    fns: List[Fn] = list(mod.functions.values()) + [m for c in mod.classes.values() for m in c.methods.values()]
    n_sites = 0
    for fn in fns:
        has_param = "optimizer_kwargs" in fn.params
        reads_attr = any(isinstance(x, ast.Attribute) and x.attr == "optimizer_kwargs" for x in ast.walk(fn.node))
        if not (has_param or reads_attr):
            continue
        # names that may denote the stored kwargs (or one element of a list of them)
        roots: Set[str] = {"optimizer_kwargs"} if has_param else set()

        def denotes(e: ast.AST) -> bool:
            if isinstance(e, ast.Name):
                return e.id in roots
            if isinstance(e, ast.Attribute):
                return e.attr == "optimizer_kwargs"
            if isinstance(e, ast.Subscript):
                return denotes(e.value)
            if isinstance(e, ast.IfExp):
                return denotes(e.body) or denotes(e.orelse)
            return False
        changed = True
        while changed:
            changed = False
            for x in walk_no_nested(fn.node):
                if isinstance(x, ast.Assign) and len(x.targets) == 1 and isinstance(x.targets[0], ast.Name) and x.targets[0].id not in roots and denotes(x.value):
                    roots.add(x.targets[0].id)
                    changed = True
        writes: List[ast.AST] = []
        for x in walk_no_nested(fn.node):
            if isinstance(x, ast.Call) and isinstance(x.func, ast.Attribute) and x.func.attr in _DICT_WRITES and denotes(x.func.value):
                writes.append(x)
            elif isinstance(x, (ast.Assign, ast.AugAssign, ast.Delete)):
                tg = x.targets if isinstance(x, (ast.Assign, ast.Delete)) else [x.target]
                for t in tg:
                    if isinstance(t, ast.Subscript) and denotes(t.value):
                        writes.append(x)
        n_sites += 1
        ck.ob("C06.8", fn, writes[0] if writes else fn.node, not writes, f"{fn.qualname} does not write to the optimizer keyword arguments it was given / stores",
              detail=f"`{short(writes[0], 70)}` changes the dictionary that the wrapper and the registry keep: whatever it records (a learning rate) is handed to every later "
                     f"re-creation of the optimizer, after an lr mutation too" if writes else "", construct=f"{fn.qualname}: writes to optimizer_kwargs")
        # every group / constructor gets lr from the lr argument
        if "lr" in fn.params:
            groups = [d for d in walk_no_nested(fn.node) if isinstance(d, ast.Dict) and any(const_value(k) == "params" for k in d.keys if k is not None)]
            ctors = [c for c in calls_in(fn.node) if any(k.arg is None and denotes(k.value) for k in c.keywords)]
            for d in groups:
                v = next((v for k, v in zip(d.keys, d.values) if k is not None and const_value(k) == "lr"), None)
                ck.ob("C06.8", fn, d, isinstance(v, ast.Name) and v.id == "lr", f"{fn.qualname}: every parameter group is given the `lr` argument explicitly",
                      detail="" if v is not None else "the group has no \"lr\" entry of its own: its learning rate is whatever the keyword dictionary carries")
            for c in ctors:
                v = get_kw(c, "lr", None)
                ck.ob("C06.8", fn, c, isinstance(v, ast.Name) and v.id == "lr", f"{fn.qualname}: the optimizer constructor is given the `lr` argument explicitly")
    ck.floor("C06.8", n_sites, 3, "functions of the optimizer wrapper module that handle optimizer_kwargs")


def _is_attr(tb: TermBuilder, p: Poly, name: str) -> bool:
    a = single_atom(tb, p)
    return a is not None and a.kind == "attr" and a.name == f"self.{name}"


def _clip_parts(tb: TermBuilder, p: Poly):
    """(x, lo, hi) if p is min(max(x, lo), hi) / max(min(x, hi), lo) / np.clip(x, lo, hi) / x.clip(lo, hi)."""
    a = single_atom(tb, p)
    if a is None or a.kind != "call":
        return None
    args = list(a.sub)
    if a.name in ("min", "max") and len(args) == 2:
        outer = a.name
        for i in (0, 1):
            inner = single_atom(tb, args[i])
            other = args[1 - i]
            if inner is not None and inner.kind == "call" and inner.name in ("min", "max") and inner.name != outer and len(inner.sub) == 2:
                for j in (0, 1):
                    x, b = inner.sub[j], inner.sub[1 - j]
                    # outer min -> other is hi, inner max -> b is lo
                    lo, hi = (b, other) if outer == "min" else (other, b)
                    xa = single_atom(tb, b)
                    if xa is not None and xa.kind == "attr":
                        return x, lo, hi
    if a.name in ("clip", "clamp") and len(args) >= 3:
        if isinstance(a.node, ast.Call) and isinstance(a.node.func, ast.Attribute) and call_name(a.node) in ("np.clip", "numpy.clip", "torch.clamp", "torch.clip"):
            return args[1], args[2], args[3] if len(args) > 3 else None
        return args[0], args[1], args[2]
    return None


def _mutate(ck: Check, repo: Repo) -> None:
    fn = repo.fn(REG, "RLParameter.mutate")
    cfg = CFG(fn.node)
    tb = TermBuilder(repo, fn, cfg=cfg, depth=0)
    stores = [n for n in cfg.live_nodes() if n.kind == "stmt" and isinstance(n.ast, ast.Assign) and dotted(n.ast.targets[0]) == "self.value"]
    rets = [n for n in cfg.live_nodes() if n.kind == "stmt" and isinstance(n.ast, ast.Return)]
    ck.ob("C06.1", fn, fn.node, len(stores) >= 1 and len(rets) >= 1, "mutate stores and returns the new value", construct="store/return in mutate")
    for s in stores:
        v = s.ast.value
        ok = isinstance(v, ast.Call) and dotted(v.func) == "self.dtype" and len(v.args) == 1
        ck.ob("C06.1", fn, s.ast, ok, "the stored value is converted with the configured number type (self.dtype)")
        ck.ob("C06.1", fn, s.ast, cfg.postdominates(s, cfg.entry), "the store happens on every path")
        if not ok:
            continue
        t = tb.term(v.args[0], s)
        parts = _clip_parts(tb, t)
        ck.ob("C06.1", fn, s.ast, parts is not None, "the value converted is a clip of the candidate to a range",
              detail=f"value = {t.key()[:160]}")
        if parts is None:
            continue
        x, lo, hi = parts
        ck.ob("C06.1", fn, s.ast, _is_attr(tb, lo, "min") and hi is not None and _is_attr(tb, hi, "max"),
              "the clip range is [self.min, self.max]", detail=f"lo = {lo.key()[:60]}, hi = {hi.key()[:60] if hi is not None else None}")
        alts = expand_phi(tb, x)
        V = Poly.atom("attr:self.value")
        want = {"shrink": V * Poly.atom("attr:self.shrink_factor"), "grow": V * Poly.atom("attr:self.grow_factor"),
                "min": Poly.atom("attr:self.min"), "max": Poly.atom("attr:self.max")}
        names = []
        bad = []
        for a in alts:
            hit = [k for k, w in want.items() if a == w]
            if hit:
                names.append(hit[0])
            else:
                bad.append(a.key()[:80])
        ck.ob("C06.1", fn, s.ast, not bad and {"shrink", "grow"} <= set(names),
              "the candidate is the current value times the shrink factor or times the grow factor (or a bound)",
              detail=f"candidates: {sorted(set(names))}; unexpected: {bad}")
    for r in rets:
        ck.ob("C06.1", fn, r.ast, dotted(r.ast.value) == "self.value" and any(cfg.dominates(s, r) for s in stores),
              "what is returned is the stored (clipped, converted) value")
    # branch guards agree with their own bound (a wrong direction would be masked by the clip only partly)
    for n in cfg.live_nodes():
        if n.kind == "test" and isinstance(n.ast, ast.Compare) and len(n.ast.ops) == 1 and "factor" in ast.unparse(n.ast):
            l = tb.term(n.ast.left, n)
            r = tb.term(n.ast.comparators[0], n)
            op = type(n.ast.ops[0])
            V = Poly.atom("attr:self.value")
            # comparisons are canonicalised on loading (`a > b` is seen as `b < a`): accept both operand orders explicitly
            shrunk, grown = V * Poly.atom("attr:self.shrink_factor"), V * Poly.atom("attr:self.grow_factor")
            lt = op in (ast.Lt, ast.LtE)
            gt = op in (ast.Gt, ast.GtE)
            if l == shrunk:
                ok = gt and _is_attr(tb, r, "min")
            elif r == shrunk:
                ok = lt and _is_attr(tb, l, "min")
            elif l == grown:
                ok = lt and _is_attr(tb, r, "max")
            elif r == grown:
                ok = gt and _is_attr(tb, l, "max")
            else:
                ok = False
            ck.ob("C06.1", fn, n.ast, ok, "a shrunk value is compared with min (>) and a grown value with max (<)")


def _sources(cfg: CFG, n: Optional[Node], e: ast.AST) -> List[Optional[ast.AST]]:
    """The expressions `e` stands for at node n: a local name is replaced by the values of its reaching definitions
    (None for a definition that is not a plain binding); anything else stands for itself.  Independent of how a local is spelled."""
    if isinstance(e, ast.Name) and n is not None:
        defs = [d for d in cfg.defs_reaching(n, e.id) if d.kind != "entry"]
        if defs:
            return [cfg.value_of_def(d, e.id) for d in defs]
    return [e]


def _is_own_config(cfg: CFG, n: Optional[Node], e: ast.AST) -> bool:
    """e is individual.registry.hp_config, directly or through a local bound to exactly that on every path."""
    src = _sources(cfg, n, e)
    return bool(src) and all(v is not None and dotted(v) == "individual.registry.hp_config" for v in src)


def _hp_mutation(ck: Check, repo: Repo) -> None:
    fn = repo.fn(MUT, "Mutations.rl_hyperparam_mutation")
    cfg = CFG(fn.node)
    tb = TermBuilder(repo, fn, cfg=cfg, depth=0)
    # the sampling of a hyper-parameter: `<receiver>.sample()` unpacked into two names (name, parameter) or drawn from
    # something that is (bound to) an `.hp_config` attribute
    samples = []
    for c in calls_in(fn.node):
        if last_attr(c) != "sample" or not isinstance(c.func, ast.Attribute):
            continue
        cn = cfg.node_of(c)
        from_cfg = any(v is not None and dotted(v).split(".")[-1] == "hp_config" for v in _sources(cfg, cn, c.func.value))
        unpack2 = cn is not None and isinstance(cn.ast, ast.Assign) and cn.ast.value is c and isinstance(cn.ast.targets[0], ast.Tuple) \
            and len(cn.ast.targets[0].elts) == 2 and not c.args and not c.keywords
        if from_cfg or unpack2:
            samples.append(c)
    ck.ob("C06.3", fn, samples[0] if samples else fn.node, len(samples) == 1 and not any(
        isinstance(x, (ast.For, ast.While)) and any(y is samples[0] for y in ast.walk(x)) for x in ast.walk(fn.node)),
        "exactly one hyper-parameter is sampled per call")
    if len(samples) != 1:
        return
    sn = cfg.node_of(samples[0])
    tg = sn.ast.targets[0] if isinstance(sn.ast, ast.Assign) else None
    if not (isinstance(tg, ast.Tuple) and len(tg.elts) == 2 and all(isinstance(e, ast.Name) for e in tg.elts)):
        raise AnalysisError("rl_hyperparam_mutation: `name, param = hp_config.sample()` shape not found")
    name_v, param_v = tg.elts[0].id, tg.elts[1].id
    ck.ob("C06.3", fn, samples[0], _is_own_config(cfg, sn, samples[0].func.value),
          "the configuration sampled from is the individual's own registry entry")
    muts = [c for c in calls_in(fn.node) if call_name(c) == f"{param_v}.mutate"]
    ck.ob("C06.3", fn, muts[0] if muts else fn.node, len(muts) == 1, "the sampled parameter is mutated once", construct=f"{param_v}.mutate() calls")
    if len(muts) != 1:
        return
    mn = cfg.node_of(muts[0])
    # ---- C06.2
    loads = [n for n in cfg.live_nodes() if n.kind == "stmt" and isinstance(n.ast, ast.Assign) and dotted(n.ast.targets[0]) == f"{param_v}.value"
             and isinstance(n.ast.value, ast.Call) and call_name(n.ast.value) == "getattr" and len(n.ast.value.args) >= 2
             and dotted(n.ast.value.args[0]) == "individual" and dotted(n.ast.value.args[1]) == name_v]
    dominating = [n for n in loads if cfg.dominates(n, mn)]
    private_copy = _registry_private_copy(repo)
    ck.ob("C06.2", fn, (loads[0].ast if loads else muts[0]), bool(dominating) or private_copy,
          "the parameter's base value is loaded from the individual's own attribute on every path before mutate()",
          detail=("the load `" + short(loads[0].ast, 80) + "` is conditional (it does not dominate mutate()): once the cached value is set it is "
                  "never refreshed, and agents built from one configuration object share the RLParameter, so an agent is mutated from "
                  "another agent's (or its own stale) value" if loads else "no load of the individual's value before mutate()"),
          construct="base value of the mutated hyper-parameter")
    # ---- C06.3 write back
    sets = [c for c in calls_in(fn.node) if call_name(c) == "setattr" and len(c.args) == 3 and dotted(c.args[0]) == "individual"]

    def _stands_for(e: ast.AST, at: Optional[Node], is_origin, depth: int = 0) -> bool:
        """e is the origin expression itself, or a local whose EVERY reaching definition binds it to (a local that stands for) the origin:
        a value handed over directly and one handed over through single-purpose temporaries are the same value."""
        if is_origin(e, at):
            return True
        if not isinstance(e, ast.Name) or at is None or depth > 4:
            return False
        defs = cfg.defs_reaching(at, e.id)
        if not defs:
            return False
        for d in defs:
            v = cfg.value_of_def(d, e.id) if d.kind != "entry" else None
            if v is None or not _stands_for(v, d, is_origin, depth + 1):
                return False
        return True

    def _is_mutated(e: ast.AST, at: Optional[Node]) -> bool:
        return e is muts[0]

    def _is_sampled_name(e: ast.AST, at: Optional[Node]) -> bool:
        # the first name of the unpacked sample, as bound by the sampling statement (and by nothing else) where it is read
        return isinstance(e, ast.Name) and e.id == name_v and at is not None and [d.id for d in cfg.defs_reaching(at, name_v)] == [sn.id]
    ok = False
    for c in sets:
        n = cfg.node_of(c)
        # (the call may be the third argument itself: then n is the node of mutate(), which trivially dominates / post-dominates itself)
        ok = n is not None and _stands_for(c.args[1], n, _is_sampled_name) and _stands_for(c.args[2], n, _is_mutated) \
            and (n is mn or (cfg.dominates(mn, n) and cfg.postdominates(n, mn)))
    ck.ob("C06.3", fn, sets[0] if sets else fn.node, ok and len(sets) == 1, "the value returned by mutate() is written to the sampled attribute of the individual, on every path",
          detail=f"setattr calls: {[short(c, 70) for c in sets]}")
    labels = [n for n in cfg.live_nodes() if n.kind == "stmt" and isinstance(n.ast, ast.Assign) and dotted(n.ast.targets[0]) == "individual.mut"]
    after = [n for n in labels if cfg.dominates(mn, n)]
    ck.ob("C06.3", fn, after[0].ast if after else fn.node, len(after) == 1 and dotted(after[0].ast.value) == name_v and cfg.postdominates(after[0], mn),
          "the individual reports the name of the mutated hyper-parameter")
    early = [n for n in labels if not cfg.dominates(mn, n)]
    for n in early:
        gs = cfg.guards_at(n)
        ck.ob("C06.3", fn, n.ast, const_value(n.ast.value) == "None" and any(
            _is_own_config(cfg, gn, g.operand if isinstance(g, ast.UnaryOp) and isinstance(g.op, ast.Not) else g)
            and (pol == (isinstance(g, ast.UnaryOp) and isinstance(g.op, ast.Not))) for g, pol, gn in gs),
              "the label 'None' is reported only when there is no configuration to mutate")
    rets = [n for n in cfg.live_nodes() if n.kind == "stmt" and isinstance(n.ast, ast.Return)]
    ck.ob("C06.3", fn, rets[0].ast if rets else fn.node, bool(rets) and all(dotted(r.ast.value) == "individual" for r in rets), "the same individual is returned")
    # ---- C06.4
    regs = extract_all(repo)
    multi = {}
    for cname, reg in regs.items():
        by_lr: Dict[str, List[str]] = {}
        for o in reg.opts:
            by_lr.setdefault(o.lr, []).append(o.name)
        for lr, opts in by_lr.items():
            if len(opts) > 1:
                multi[f"{cname}.{lr}"] = opts
    ck.note("lr_names_shared_by_several_optimizers", multi)
    reinits = [c for c in calls_in(fn.node) if call_name(c) == "self.reinit_opt"]
    # alternative mechanism: the new value is written into the parameter groups in place — acceptable only when every group is written
    all_groups, projected = [], []
    for a in walk_no_nested(fn.node):
        if isinstance(a, ast.Assign) and isinstance(a.targets[0], ast.Subscript) and const_value(a.targets[0].slice) == "lr":
            base = a.targets[0].value
            if isinstance(base, ast.Subscript) and isinstance(base.value, ast.Attribute) and base.value.attr == "param_groups":
                projected.append(a)
            elif isinstance(base, ast.Name) and any(isinstance(l, ast.For) and isinstance(l.target, ast.Name) and l.target.id == base.id and isinstance(l.iter, ast.Attribute)
                                                    and l.iter.attr == "param_groups" and any(x is a for x in ast.walk(l)) for l in ast.walk(fn.node)):
                all_groups.append(a)
    ck.ob("C06.4", fn, (reinits or all_groups or projected or [fn.node])[0], (bool(reinits) or bool(all_groups)) and not projected,
          "a mutated learning rate reaches the optimizers: they are re-created from the agent's new value, or every parameter group is updated in place",
          detail=(f"`{short(projected[0], 80)}` writes the new value into one parameter group only: an optimizer over several networks (PPO: actor and critic groups) "
                  "keeps stepping its other groups with the old learning rate") if projected else "neither reinit_opt(...) nor an in-place update of the parameter groups found",
          construct="reinit_opt call in rl_hyperparam_mutation")
    # ... and nothing afterwards restores the old optimizer's state: Optimizer.load_state_dict also restores the param_groups, i.e. the OLD learning rate
    reloads = []
    for c in calls_in(fn.node, nested=True):
        if last_attr(c) == "load_state_dict":
            n0 = cfg.node_of(c)
            if n0 is not None and any(cfg.node_of(r) is not None and n0.id in cfg.reachable_from(cfg.node_of(r)) for r in reinits):
                reloads.append(c)
    ck.ob("C06.4", fn, reloads[0] if reloads else fn.node, not reloads,
          "after the optimizers were re-created with the mutated learning rate no saved optimizer state is loaded back into them",
          detail=f"`{short(reloads[0], 70)}` runs after reinit_opt: torch's Optimizer.load_state_dict restores the param_groups of the saved state, including the old `lr`, so the agent "
                 "reports the mutated value while every optimizer group keeps stepping with the old one" if reloads else "",
          construct="rl_hyperparam_mutation: state loaded back after re-creation")
    for c in reinits:
        n = cfg.node_of(c)
        gs = cfg.guards_at(n)
        # every condition on the way to the re-creation is one of: `name in <agent>.get_lr_names()`, or the filter `<optimizer config>.lr == name` of the loop over
        # the registered optimizers (a name that is no learning rate matches none); at least one of them is there, and NOTHING ELSE can skip the re-creation
        from ..domains import conjuncts as _conj

        def _accepted(a: ast.AST) -> bool:
            if isinstance(a, ast.Compare) and len(a.ops) == 1:
                if isinstance(a.ops[0], ast.In) and dotted(a.left) == name_v and "get_lr_names" in ast.unparse(a.comparators[0]):
                    return True
                if isinstance(a.ops[0], ast.Eq) and _mentions(a, name_v) and _reads_attr(a, "lr"):
                    return True
            return False
        # (conditions under which the value was mutated at all — e.g. "a hyper-parameter configuration exists" — are not conditions between mutation and re-creation)
        before = {(ast.unparse(g), pol) for g, pol, _ in cfg.guards_at(cfg.node_of(sets[0]))} if sets and cfg.node_of(sets[0]) is not None else set()
        atoms = [(a, apol) for g, pol, _ in gs if (ast.unparse(g), pol) not in before for a, apol in _conj(g, pol)]
        foreign = [ast.unparse(a) for a, apol in atoms if not (apol and _accepted(a))]
        okg = any(apol and _accepted(a) for a, apol in atoms) and not foreign
        ck.ob("C06.4", fn, c, okg, "optimizers are re-created when (and only when) the mutated name is one of the agent's learning rates",
              detail=f"the re-creation also depends on {foreign}: on a path where that is false the optimizers keep the old learning rate" if foreign else "")
        ck.ob("C06.4", fn, c, cfg.dominates(cfg.node_of(sets[0]), n) if sets else False, "the new value is on the individual before optimizers are re-created from it")
        opt = get_kw(c, "optimizer", 1)
        if opt is None:
            ck.ob("C06.4", fn, c, True, "every optimizer is re-created (no selection)", construct="reinit_opt(individual)")
            continue
        ok, why = _covers_all_matches(cfg, n, opt, name_v, c, fn)
        ck.ob("C06.4", fn, c, ok or not multi,
              "every optimizer registered for the mutated learning rate is re-created",
              detail=why + (f"; algorithms with several optimizers per lr name: {multi}" if not ok else ""))


def _covers_all_matches(cfg: CFG, n: Node, opt: ast.AST, name_v: str, call: ast.Call, fn: Fn):
    """Is reinit_opt(optimizer=opt) executed for *every* registered optimizer whose lr equals the mutated name?"""
    # form 1: inside `for cfg_ in <optimizers>: if cfg_.lr == name: reinit_opt(optimizer=cfg_)`
    if isinstance(opt, ast.Name):
        loops = [l for l in cfg.live_nodes() if l.kind == "for" and any(x is call for x in ast.walk(l.ast))]
        for l in loops:
            tgt = l.ast.target
            if isinstance(tgt, ast.Name) and tgt.id == opt.id:
                it_src = ast.unparse(l.ast.iter)
                # the iterable is (a local bound on every path to) an expression over the registry's `.optimizers`
                its = _sources(cfg, l, l.ast.iter)
                over_all = bool(its) and all(v is not None and any(isinstance(x, ast.Attribute) and x.attr == "optimizers" for x in ast.walk(v)) for v in its)
                filt_in_iter = _reads_attr(l.ast.iter, "lr") and _mentions(l.ast.iter, name_v) and "[0]" not in it_src and not _has_const_index(l.ast.iter)
                gs = cfg.guards_at(n)
                filt_guard = any(pol and isinstance(g, ast.Compare) and isinstance(g.ops[0], ast.Eq) and _mentions(g, name_v) and _reads_attr(g, "lr") for g, pol, _ in gs)
                if over_all and (filt_guard or filt_in_iter):
                    return True, "loop over the registered optimizers with the lr-name filter"
                # iterable is a local list built by a filtering comprehension
                if isinstance(l.ast.iter, ast.Name):
                    for d in cfg.defs_reaching(l, l.ast.iter.id):
                        v = cfg.value_of_def(d, l.ast.iter.id)
                        if isinstance(v, ast.ListComp) and _reads_attr(v, "lr") and _mentions(v, name_v):
                            return True, "loop over the filtered list of matching optimizers"
        # a single name: where does it come from?
        defs = cfg.defs_reaching(n, opt.id)
        for d in defs:
            v = cfg.value_of_def(d, opt.id)
            if v is not None and _has_const_index(v):
                return False, (f"`{opt.id} = {short(v, 90)}` keeps only the first optimizer whose lr is the mutated name; the others keep "
                               "stepping with the old learning rate")
        return False, f"`{opt.id}` is a single optimizer configuration"
    if _has_const_index(opt):
        return False, f"`{short(opt, 90)}` projects the matches to one element"
    return False, f"unrecognised selection `{short(opt, 80)}`"


def _lr_names(ck: Check, repo: Repo) -> None:
    regs = extract_all(repo)
    n = 0
    for cname, reg in regs.items():
        lrs = sorted({o.lr for o in reg.opts if o.lr})
        if len(lrs) < 2:
            continue
        n += 1
        missing = [o for o in reg.opts if get_kw(o.node, "lr_name") is None]
        ck.ob("C06.6", reg.init, missing[0].node if missing else reg.init.node, not missing,
              f"{cname}: every optimizer is registered under the learning rate written at its construction site ({', '.join(lrs)})",
              detail=f"{[o.name for o in missing]} are built with lr=self.<name> only; OptimizerWrapper._infer_lr_name then looks for the attribute that IS that float object: "
                     f"with {' == '.join(lrs)} given as equal literals both optimizers register under `{lrs[0]}`, so a mutation of `{lrs[-1]}` re-creates no optimizer and the "
                     "critic keeps stepping with the old learning rate",
              construct=f"{cname}: lr name of optimizers inferred at run time")
    ck.floor("C06.6", n, 4, "algorithms with several learning rates")
    # the wrapper honours an explicitly given name on every path
    wi = repo.fn("agilerl.algorithms.core.wrappers", "OptimizerWrapper.__init__")
    wcfg = CFG(wi.node)
    stores = [n_ for n_ in wcfg.live_nodes() if n_.kind == "stmt" and isinstance(n_.ast, ast.Assign) and dotted(n_.ast.targets[0]) == "self.lr_name"]
    # the stores that are alternatives of one choice on `lr_name` (two arms of an if / else, or one conditional expression) form one obligation
    groups: Dict[tuple, list] = {}
    for st in stores:
        outer = tuple(sorted((ast.unparse(g), pol) for g, pol, _ in wcfg.guards_at(st) if "lr_name" not in ast.unparse(g)))
        groups.setdefault(outer, []).append(st)
    for outer, sts in sorted(groups.items(), key=lambda kv: min(x.lineno for x in kv[1])):
        bad = None
        for st in sts:
            v = st.ast.value
            gs = [(ast.unparse(g).replace(" ", ""), pol) for g, pol, _ in wcfg.guards_at(st)]
            ok1 = dotted(v) == "lr_name" or (isinstance(v, ast.IfExp) and "lr_name" in ast.unparse(v.test) and (dotted(v.body) == "lr_name" or dotted(v.orelse) == "lr_name")) \
                or any((t == "lr_nameisNone" and pol) or (t == "lr_nameisnotNone" and not pol) for t, pol in gs)
            if not ok1:
                bad = st
        where = " and ".join(f"{'' if pol else 'not '}({g})" for g, pol in outer) or "always"
        ck.ob("C06.6", wi, (bad or sts[0]).ast, bad is None, "OptimizerWrapper.__init__ uses an explicitly given lr_name instead of inferring one",
              detail=f"`{short(bad.ast, 80)}` ignores the lr_name argument on this path (it is only honoured together with network_names)" if bad is not None else "",
              construct=f"OptimizerWrapper.__init__: self.lr_name stored [{where}]")
    ck.floor("C06.6", len(stores), 2, "assignments of self.lr_name in OptimizerWrapper.__init__", fn=wi)


def _reads_attr(e: ast.AST, attr: str) -> bool:
    return any(isinstance(x, ast.Attribute) and x.attr == attr for x in ast.walk(e))


def _mentions(e: ast.AST, name: str) -> bool:
    return any(isinstance(x, ast.Name) and x.id == name for x in ast.walk(e))


def _has_const_index(e: ast.AST) -> bool:
    for x in ast.walk(e):
        if isinstance(x, ast.Subscript) and isinstance(x.slice, ast.Constant) and isinstance(x.slice.value, int):
            return True
        if isinstance(x, ast.Call) and call_name(x) == "next":
            return True
    return False


def _only_assigned_from(root: ast.AST, name: str, values: List[ast.AST]) -> bool:
    """Every binding of `name` under root is a plain assignment of one of `values`."""
    for x in ast.walk(root):
        if isinstance(x, ast.Name) and x.id == name and isinstance(x.ctx, (ast.Store, ast.Del)):
            if not any(isinstance(a, ast.Assign) and any(a.value is v for v in values) and any(t is x for t in a.targets) for a in ast.walk(root)):
                return False
    return True


def _registry_private_copy(repo: Repo) -> bool:
    """Does MutationRegistry keep its own deep copy of the hp_config handed to the constructor?"""
    reg = repo.cls(REG, "MutationRegistry")
    post = reg.methods.get("__post_init__")
    if post is None:
        return False
    for n in walk_no_nested(post.node):
        if isinstance(n, ast.Assign) and dotted(n.targets[0]) == "self.hp_config" and isinstance(n.value, ast.Call) \
                and call_name(n.value) in ("copy.deepcopy", "deepcopy"):
            return True
    return False


def _reinit_opt(ck: Check, repo: Repo) -> None:
    fn = repo.fn(MUT, "Mutations.reinit_opt")
    ows = [c for c in calls_in(fn.node, nested=True) if call_name(c) == "OptimizerWrapper"]
    ck.floor("C06.5", len(ows), 1, "OptimizerWrapper construction in reinit_opt", fn=fn)
    inner = [n for n in ast.walk(fn.node) if isinstance(n, ast.FunctionDef) and n is not fn.node]
    for c in ows:
        lr = get_kw(c, "lr", 2)
        ok = isinstance(lr, ast.Call) and call_name(lr) == "getattr" and dotted(lr.args[0]) == "individual" and ast.unparse(lr.args[1]).endswith(".lr_name")
        ck.ob("C06.5", fn, c, ok, "the new optimizer's learning rate is read from the individual's current attribute (getattr(individual, <lr name>))",
              detail=f"lr={short(lr, 70)}")
        # (over which networks the new optimizer is built is decided by the form-independent C02.2 obligation, taken over below)
        for kw in ("optimizer_kwargs", "network_names", "lr_name", "multiagent"):
            v = get_kw(c, kw)
            ck.ob("C06.5", fn, c, v is not None and dotted(v).split(".")[-1] == kw, f"setting `{kw}` is carried over from the optimizer being replaced",
                  construct=f"{kw}={short(v, 50)}")
    # networks and store key: the C02.2 obligations on the same function (def-use based, indifferent to closure / loop / temporaries), shared
    from dataclasses import replace as _replace
    from . import c02 as _c02
    sub2 = Check("C02", ck.tier, ck.repo_root)
    sub2.known = []
    sub2.rule("C02.2", "shared")
    _c02._reinit_opt_provenance(sub2, repo)
    for o in sub2.obs:
        if o.rule == "C02.2" and ("networks of the new optimizer" in o.what or "stored under the optimizer's registered attribute name" in o.what):
            ck.obs.append(_replace(o, rule="C06.5"))
    # ... and what is stored is the NEW wrapper: a local that is only ever bound to an OptimizerWrapper(...) construction of this function
    sets = [c for c in calls_in(fn.node, nested=True) if call_name(c) == "setattr" and len(c.args) == 3 and dotted(c.args[0]) == "individual"]
    new_opt = {t.id for a in ast.walk(fn.node) if isinstance(a, ast.Assign) and any(a.value is c for c in ows) for t in a.targets if isinstance(t, ast.Name)}
    okv = bool(sets) and all(isinstance(c.args[2], ast.Name) and c.args[2].id in new_opt and _only_assigned_from(fn.node, c.args[2].id, ows) for c in sets)
    ck.ob("C06.5", fn, sets[0] if sets else fn.node, okv, "the object stored on the individual is the newly constructed optimizer wrapper",
          construct="reinit_opt: value stored by setattr")
    # all optimizers when none is given
    # without a selection every registered optimizer is re-created: some loop runs over (a value that can be) `<individual>.registry.optimizers`, unfiltered
    fcfg = CFG(fn.node)
    over_all = False
    for L_ in [n for n in ast.walk(fn.node) if isinstance(n, ast.For)]:
        srcs = [L_.iter]
        if isinstance(L_.iter, ast.Name):
            node = next((n_ for n_ in fcfg.live_nodes() if n_.kind == "for" and n_.ast is L_), None)
            srcs = [fcfg.value_of_def(d, L_.iter.id) for d in fcfg.defs_reaching(node, L_.iter.id)] if node is not None else []
        flat = []
        for v in srcs:
            if isinstance(v, ast.IfExp):
                flat += [v.body, v.orelse]
            elif v is not None:
                flat.append(v)
        if any(isinstance(v, ast.Attribute) and v.attr == "optimizers" and "registry" in ast.unparse(v) for v in flat):
            over_all = True
    ck.ob("C06.5", fn, fn.node, over_all, "without a selection every registered optimizer is re-created", construct="reinit_opt: loop over all optimizers")
    ri = repo.fn(BASE, "EvolvableAlgorithm._registry_init")
    src = ast.unparse(ri.node)
    ck.ob("C06.5", ri, ri.node, has(src, 'for $hp in self.registry.hp_config:\n    ...') and has(src, 'if not hasattr(self, $hp):\n    ...') and has(src, 'raise AttributeError'),
          "configured hyper-parameter names are checked against the agent's attributes at construction", construct="_registry_init hp check")
    gl = repo.fn(BASE, "EvolvableAlgorithm.get_lr_names")
    ck.ob("C06.5", gl, gl.node, has(gl.node, '[$opt.lr for $opt in self.registry.optimizers]'), "lr names are those of all registered optimizers",
          construct="get_lr_names")


_MF = "agilerl/hpo/mutation.py"
_RF = "agilerl/algorithms/core/registry.py"
VARIANTS = [
    ("wrapper-setdefault-lr-into-stored-kwargs", "agilerl/algorithms/core/wrappers.py", '        opt_args.append({"params": net.parameters(), "lr": lr, **kwargs})', '        kwargs.setdefault("lr", lr)\n        opt_args.append({"params": net.parameters(), **kwargs})', "fire", "C06.8"),
    ("wrapper-single-ctor-lr-from-kwargs", "agilerl/algorithms/core/wrappers.py", "    return optimizer_cls(network.parameters(), lr=lr, **optimizer_kwargs)", "    return optimizer_cls(network.parameters(), **optimizer_kwargs)", "fire", "C06.8"),
    ("wrapper-kwargs-copied-first-ok", "agilerl/algorithms/core/wrappers.py", '        opt_args.append({"params": net.parameters(), "lr": lr, **kwargs})', '        group = {"params": net.parameters(), "lr": lr, **kwargs}\n        opt_args.append(group)', "silent", None),
    ("mutation-hooks-skipped-after-hp-mutation", _MF, "            individual.mutation_hook()", "            if individual.mut not in registry.hp_config.names():\n                individual.mutation_hook()", "fire", "C06.7"),

    ("lr-mutation-reloads-old-optimizer-state", _MF, "                    # Reinitialise every optimizer that uses the new learning rate\n                    self.reinit_opt(individual, optimizer=opt_config)", "                    old_state = getattr(individual, opt_config.name).state_dict()\n                    self.reinit_opt(individual, optimizer=opt_config)\n                    getattr(individual, opt_config.name).load_state_dict(old_state)", "fire", "C06.4"),
    ("wrapper-ignores-explicit-lr-name", "agilerl/algorithms/core/wrappers.py", "            self.lr_name = (\n                lr_name\n                if lr_name is not None\n                else self._infer_lr_name(parent_container)\n            )", "            self.lr_name = self._infer_lr_name(parent_container)", "fire", "C06.6"),
    ("ddpg-critic-optimizer-lr-name-inferred", "agilerl/algorithms/ddpg.py", "            lr=lr_critic,\n            lr_name=\"lr_critic\",\n", "            lr=lr_critic,\n", "fire", "C06.6"),
    ("lr-in-place-first-group-only", _MF, "                    # Reinitialise every optimizer that uses the new learning rate\n                    self.reinit_opt(individual, optimizer=opt_config)", "                    opt = getattr(individual, opt_config.name)\n                    opt.optimizer.param_groups[0][\"lr\"] = new_value\n                    opt.lr = new_value", "fire", "C06.4"),
    ("lr-in-place-all-groups-ok", _MF, "                    # Reinitialise every optimizer that uses the new learning rate\n                    self.reinit_opt(individual, optimizer=opt_config)", "                    opt = getattr(individual, opt_config.name)\n                    for torch_opt in (opt.optimizer if isinstance(opt.optimizer, list) else [opt.optimizer]):\n                        for group in torch_opt.param_groups:\n                            group[\"lr\"] = new_value\n                    opt.lr = new_value", "silent", None),
    ("no-clip", _RF, "        new_value = min(max(new_value, self.min), self.max)\n", "", "fire", "C06.1"),
    ("clip-swapped", _RF, "new_value = min(max(new_value, self.min), self.max)", "new_value = min(max(new_value, self.max), self.min)", "fire", "C06.1"),
    ("no-cast", _RF, "self.value = self.dtype(new_value)", "self.value = new_value", "fire", "C06.1"),
    ("grow-with-shrink", _RF, "                new_value = self.value * self.grow_factor", "                new_value = self.value * self.shrink_factor", "fire", "C06.1"),
    ("additive", _RF, "                new_value = self.value * self.shrink_factor", "                new_value = self.value - self.shrink_factor", "fire", "C06.1"),
    ("np-clip-ok", _RF, "new_value = min(max(new_value, self.min), self.max)", "new_value = max(min(new_value, self.max), self.min)", "silent", None),
    ("return-unclipped", _RF, "        self.value = self.dtype(new_value)\n        return self.value", "        self.value = self.dtype(new_value)\n        return new_value", "fire", "C06.1"),
    ("cached-base-value", _MF, "        mutate_param.value = getattr(individual, mutate_attr)\n", "        if mutate_param.value is None:\n            mutate_param.value = getattr(individual, mutate_attr)\n", "fire", "C06.2"),
    ("no-write-back", _MF, "        setattr(individual, mutate_attr, new_value)\n", "", "fire", "C06.3"),
    ("wrong-label", _MF, "        individual.mut = mutate_attr\n", "        individual.mut = \"lr\"\n", "fire", "C06.3"),
    ("first-optimizer-only", _MF, "            for opt_config in optimizer_configs:\n                if mutate_attr == opt_config.lr:\n                    # Reinitialise every optimizer that uses the new learning rate\n                    self.reinit_opt(individual, optimizer=opt_config)",
     "            to_reinit = [c for c in optimizer_configs if mutate_attr == c.lr][0]\n            self.reinit_opt(individual, optimizer=to_reinit)", "fire", "C06.4"),
    ("reinit-before-setattr", _MF, "        setattr(individual, mutate_attr, new_value)\n\n        # Need", "        # Need", "fire", "C06"),
    ("reinit-all-ok", _MF, "            for opt_config in optimizer_configs:\n                if mutate_attr == opt_config.lr:\n                    # Reinitialise every optimizer that uses the new learning rate\n                    self.reinit_opt(individual, optimizer=opt_config)",
     "            self.reinit_opt(individual)", "silent", None),
    ("lr-from-old-wrapper", _MF, "                    lr=getattr(individual, opt.lr_name),", "                    lr=opt.lr,", "fire", "C06.5"),
    # roles derived by def-use instead of by the spelling of locals
    ("config-not-the-individuals", _MF, "        hp_config = individual.registry.hp_config\n        if not hp_config:", "        hp_config = self.registry.hp_config\n        if not hp_config:", "fire", "C06.3"),
    ("store-old-wrapper", _MF, "setattr(individual, config.name, offspring_opt)", "setattr(individual, config.name, opt)", "fire", "C06.5"),
    # the mutated value reaches setattr directly or through temporaries (C06.3 follows every reaching definition)
    ("mutated-value-passed-directly-ok", _MF, "        new_value = mutate_param.mutate()\n\n        setattr(individual, mutate_attr, new_value)\n",
     "        setattr(individual, mutate_attr, mutate_param.mutate())\n", "silent", None),
    ("mutated-value-through-two-temporaries-ok", _MF, "        new_value = mutate_param.mutate()\n\n        setattr(individual, mutate_attr, new_value)\n",
     "        new_value = mutate_param.mutate()\n        written, attr = new_value, mutate_attr\n        setattr(individual, attr, written)\n", "silent", None),
    ("mutated-value-direct-to-other-attribute", _MF, "        new_value = mutate_param.mutate()\n\n        setattr(individual, mutate_attr, new_value)\n",
     "        setattr(individual, hp_config.names()[0], mutate_param.mutate())\n", "fire", "C06.3"),
    ("mutated-value-overwritten-on-one-path", _MF, "        new_value = mutate_param.mutate()\n\n        setattr(individual, mutate_attr, new_value)\n",
     "        new_value = mutate_param.mutate()\n        if mutate_attr in individual.get_lr_names():\n            new_value = getattr(individual, mutate_attr)\n        setattr(individual, mutate_attr, new_value)\n", "fire", "C06.3"),
    ("mutated-value-direct-but-conditional", _MF, "        new_value = mutate_param.mutate()\n\n        setattr(individual, mutate_attr, new_value)\n",
     "        new_value = mutate_param.mutate()\n        if new_value:\n            setattr(individual, mutate_attr, new_value)\n", "fire", "C06.3"),
    ("optimizers-of-other-registry", _MF, "            optimizer_configs = individual.registry.optimizers\n            for opt_config in optimizer_configs:\n                if mutate_attr",
     "            optimizer_configs = individual.registry.groups\n            for opt_config in optimizer_configs:\n                if mutate_attr", "fire", "C06.4"),
]
