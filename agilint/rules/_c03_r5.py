"""C03.17 – C03.18 (helper module of c03), added after the fifth round of seeded changes.

* C03.17  an explicit layer index handed to an advertised mutation is clamped to the CURRENT depth: where a mutation method subscripts one of its
          architecture lists (`self.A[i]`) with an index that comes from one of its own arguments, every argument-derived value of the index is
          `min(<argument>, len(self.A) - 1)` for a list A it is used on.  A clamp by the declared maximum (`max_hidden_layers - 1`), by the length
          itself, or no clamp lets a legal argument (the layer recorded by a deeper network, replayed on a shallower one) raise IndexError instead of
          changing the architecture in the advertised way.  The definition is followed through locals, conditional expressions and local helper
          methods (tuple results included), so where the clamp is written does not matter.
* C03.18  a clone owns its constructor description: the mapping that `clone` splats into the constructor is a deep copy of the WHOLE description
          (`copy.deepcopy(<description>)`, or an unconditional per-entry deep copy).  The building blocks keep the architecture lists of the description
          without copying and mutate them in place (`hidden_size[i] += n`, `channel_size += [..]`): a description shared entry-wise makes a mutation of
          the clone rewrite the parent's `init_dict` while the parent's weights stay, so the parent's constructor description no longer rebuilds an
          architecture that accepts its weights.
"""
from __future__ import annotations

import ast
from typing import Dict, List, Optional, Set, Tuple

from ..cfg import CFG, Node
from ..core import Cls, Fn, Repo, call_name, const_value, dotted, is_self_attr, last_attr, short, walk_no_nested
from ..report import Check


# ------------------------------------------------------------------------------------------------ value resolution (locals, helpers)
class _Ctx:
    """one function being looked at: its CFG and, for a local helper, the call it was entered through."""

    def __init__(self, repo: Repo, cls: Cls, fn: Fn, caller: Optional["_Ctx"] = None, call: Optional[ast.Call] = None, at: Optional[Node] = None):
        self.repo, self.cls, self.fn, self.caller, self.call, self.at = repo, cls, fn, caller, call, at
        self.cfg = CFG(fn.node)

    def depth(self) -> int:
        return 0 if self.caller is None else 1 + self.caller.depth()


Leaf = Tuple[_Ctx, Optional[Node], ast.AST, bool]  # (context, node the expression is evaluated at, expression, is an unmodified parameter of the OUTERMOST method)


def _helper(ctx: _Ctx, call: ast.Call) -> Optional[Fn]:
    f = call.func
    if isinstance(f, ast.Attribute) and isinstance(f.value, ast.Name) and f.value.id in ("self", "cls"):
        return ctx.repo.find_method(ctx.cls, f.attr)
    return None


def _argument(fn: Fn, call: ast.Call, pname: str) -> Optional[ast.AST]:
    for k in call.keywords:
        if k.arg == pname:
            return k.value
    names = [p for p in fn.named_params]
    if fn.cls is not None and names and not fn.has_decorator("staticmethod"):
        names = names[1:]
    if pname in names:
        i = names.index(pname)
        if i < len(call.args) and not any(isinstance(a, ast.Starred) for a in call.args[: i + 1]):
            return call.args[i]
    return None


def _returns(ctx: _Ctx) -> List[Tuple[Node, ast.AST]]:
    out = []
    for x in walk_no_nested(ctx.fn.node):
        if isinstance(x, ast.Return) and x.value is not None:
            n = ctx.cfg.node_of(x.value)
            if n is not None:
                out.append((n, x.value))
    return out


def _values(ctx: _Ctx, at: Optional[Node], e: ast.AST, fuel: int = 12) -> List[Leaf]:
    """the expressions a value can be, following locals (reaching definitions), conditional expressions, parameters of local helpers back to the
    caller's arguments and calls of local helpers to what they return; calls of anything else are leaves."""
    if fuel <= 0 or at is None:
        return [(ctx, at, e, False)]
    if isinstance(e, ast.IfExp):
        return _values(ctx, at, e.body, fuel - 1) + _values(ctx, at, e.orelse, fuel - 1)
    if isinstance(e, ast.Name):
        out: List[Leaf] = []
        for d in ctx.cfg.defs_reaching(at, e.id):
            if d.kind == "entry":
                if ctx.caller is None:
                    out.append((ctx, d, e, True))
                else:
                    a = _argument(ctx.fn, ctx.call, e.id)
                    out += _values(ctx.caller, ctx.at, a, fuel - 1) if a is not None else [(ctx, d, e, False)]
                continue
            v = ctx.cfg.value_of_def(d, e.id)
            out += _values(ctx, d, v, fuel - 1) if v is not None else [(ctx, d, e, False)]
        return out or [(ctx, at, e, False)]
    # element k of the tuple a local helper returns
    k: Optional[int] = None
    call = e
    if isinstance(e, ast.Subscript) and isinstance(e.value, ast.Call) and isinstance(const_value(e.slice), int) and hasattr(e, "_unpack_len"):
        k, call = const_value(e.slice), e.value
    if isinstance(call, ast.Call) and ctx.depth() < 3:
        h = _helper(ctx, call)
        if h is not None and h.node is not ctx.fn.node:
            sub = _Ctx(ctx.repo, ctx.cls, h, ctx, call, at)
            out = []
            for n, rv in _returns(sub):
                if k is None:
                    out += _values(sub, n, rv, fuel - 1)
                elif isinstance(rv, ast.Tuple) and k < len(rv.elts):
                    out += _values(sub, n, rv.elts[k], fuel - 1)
                else:
                    for c, m, x, _p in _values(sub, n, rv, fuel - 1):
                        if isinstance(x, ast.Tuple) and k < len(x.elts):
                            out += _values(c, m, x.elts[k], fuel - 1)
                        else:
                            out.append((c, m, e, False))
            if out:
                return out
    return [(ctx, at, e, False)]


def _from_argument(ctx: _Ctx, at: Optional[Node], e: ast.AST) -> Set[str]:
    """arguments of the outermost method that the expression is computed from (through locals and helper parameters)."""
    out: Set[str] = set()
    for x in ast.walk(e):
        if isinstance(x, ast.Name) and isinstance(x.ctx, ast.Load):
            for c, _n, leaf, is_param in _values(ctx, at, x, 6):
                if is_param and isinstance(leaf, ast.Name):
                    out.add(leaf.id)
    return out


def _length_minus(ctx: _Ctx, at: Optional[Node], e: ast.AST, fuel: int = 6) -> Optional[Tuple[str, int]]:
    """(A, c) when the expression is `len(self.A) + c` (through locals)."""
    if fuel <= 0:
        return None
    if isinstance(e, ast.Call) and call_name(e) == "len" and len(e.args) == 1 and is_self_attr(e.args[0]):
        return e.args[0].attr, 0
    if isinstance(e, ast.BinOp) and isinstance(e.op, (ast.Add, ast.Sub)):
        c = const_value(e.right)
        if isinstance(c, int) and not isinstance(c, bool):
            l = _length_minus(ctx, at, e.left, fuel - 1)
            return None if l is None else (l[0], l[1] + (c if isinstance(e.op, ast.Add) else -c))
        c = const_value(e.left)
        if isinstance(c, int) and not isinstance(c, bool) and isinstance(e.op, ast.Add):
            r = _length_minus(ctx, at, e.right, fuel - 1)
            return None if r is None else (r[0], r[1] + c)
        return None
    if isinstance(e, ast.Name):
        got = {(_length_minus(c, n, v, fuel - 1) if not (isinstance(v, ast.Name) and v is e) else None) for c, n, v, _p in _values(ctx, at, e, 6)}
        return next(iter(got)) if len(got) == 1 else None
    return None


def _mutation_classes(repo: Repo):
    from .c03 import mutation_methods
    for mod in repo.mods.values():
        if not (mod.name.startswith("agilerl.modules") or mod.name.startswith("agilerl.networks")):
            continue
        for cls in mod.classes.values():
            ms = mutation_methods(cls)
            if ms:
                yield cls, ms


def _index_clamped(ck: Check, repo: Repo) -> None:
    ck.rule("C03.17", "an advertised mutation accepts every explicit layer index: where a mutation method subscripts an architecture list `self.A[i]` with an index computed "
                      "from one of its arguments, every argument-derived value of the index is `min(<argument>, len(self.A) - 1)` — the CURRENT depth, not the declared maximum — "
                      "so an index recorded on a deeper network changes the last layer instead of raising IndexError ('an advertised mutation not stopped by a bound really "
                      "changes the architecture', 'all argument choices')")
    n_sites = 0
    for cls, methods in _mutation_classes(repo):
        for fn, _kind, _kws in methods:
            top = _Ctx(repo, cls, fn)
            params = set(fn.named_params[1:])
            uses: Dict[str, List[Tuple[str, ast.Subscript, Node]]] = {}
            for x in walk_no_nested(fn.node):
                if isinstance(x, ast.Subscript) and is_self_attr(x.value) and isinstance(x.slice, ast.Name):
                    n = top.cfg.node_of(x)
                    if n is not None:
                        uses.setdefault(x.slice.id, []).append((x.value.attr, x, n))
            for iname, sites in sorted(uses.items()):
                lists = {a for a, _x, _n in sites}
                # argument-derived values of the index, over all its uses
                bad: List[str] = []
                args: Set[str] = set()
                seen: Set[int] = set()
                first = min(sites, key=lambda s: (s[1].lineno, s[1].col_offset))
                for _a, x, n in sites:
                    for c, m, v, is_param in _values(top, n, x.slice):
                        if id(v) in seen:
                            continue
                        seen.add(id(v))
                        if is_param:
                            args.add(v.id)
                            bad.append(f"the argument `{v.id}` reaches `self.{_a}[{iname}]` as passed")
                            continue
                        src = _from_argument(c, m, v) & params
                        if not src:
                            continue
                        args |= src
                        ok = False
                        if isinstance(v, ast.Call) and last_attr(v) in ("min", "minimum") and len(v.args) == 2 and not v.keywords:
                            for own, bound in ((v.args[0], v.args[1]), (v.args[1], v.args[0])):
                                if not (_from_argument(c, m, own) & params) or (_from_argument(c, m, bound) & params):
                                    continue
                                lb = _length_minus(c, m, bound)
                                ok = ok or (lb is not None and lb[0] in lists and lb[1] == -1)
                        if not ok:
                            bad.append(f"`{short(v, 80)}` ({c.fn.qualname}) is not min(<argument>, len(self.{'/'.join(sorted(lists))}) - 1)")
                if not args:
                    continue
                n_sites += 1
                ck.ob("C03.17", fn, first[1], not bad, f"{fn.qualname}: an explicit `{'/'.join(sorted(args))}` is clamped to the current length of the list it indexes",
                      detail="; ".join(bad), construct=f"{fn.qualname}: clamp of the explicit index `{'/'.join(sorted(args))}` into self.{'/'.join(sorted(lists))}")
    ck.floor("C03.17", n_sites, 6, "mutation methods that index an architecture list by an argument")


# ------------------------------------------------------------------------------------------------ C03.18
def _is_deepcopy(e: ast.AST) -> bool:
    return isinstance(e, ast.Call) and last_attr(e) == "deepcopy" and len(e.args) >= 1


def _whole_copy(ctx: _Ctx, at: Optional[Node], e: ast.AST) -> Tuple[bool, str]:
    """is every value the mapping can be a deep copy of a whole mapping?"""
    why: List[str] = []
    for c, m, v, is_param in _values(ctx, at, e):
        if _is_deepcopy(v):
            continue
        if isinstance(v, ast.DictComp) and len(v.generators) == 1 and not v.generators[0].ifs and _is_deepcopy(v.value):
            # per-entry deep copy, unconditional: {k: deepcopy(v) for k, v in d.items()}
            tg = v.generators[0].target
            vals = {n.id for n in ast.walk(tg) if isinstance(n, ast.Name)}
            if isinstance(v.value.args[0], ast.Name) and v.value.args[0].id in vals:
                continue
        why.append(f"`{short(v, 90)}` is not a deep copy of the whole description")
    return not why, "; ".join(why)


def _clone_owns_description(ck: Check, repo: Repo) -> None:
    ck.rule("C03.18", "a clone owns its constructor description: the mapping `clone` splats into the constructor of the module's own class is a deep copy of the whole "
                      "description (every entry, lists included) — the building blocks store the architecture lists they are given and mutate them in place, so a shared list "
                      "lets a mutation of the clone rewrite the parent's init_dict under the parent's unchanged weights ('its constructor description always rebuilds an "
                      "architecture that accepts the current weights', over chains of clone-and-mutate steps)")
    n = 0
    for mod in repo.mods.values():
        if not (mod.name.startswith("agilerl.modules") or mod.name.startswith("agilerl.networks")):
            continue
        for cls in mod.classes.values():
            fn = cls.methods.get("clone")
            if fn is None:
                continue
            ctx = _Ctx(repo, cls, fn)
            for call in [x for x in walk_no_nested(fn.node) if isinstance(x, ast.Call)]:
                f = call.func
                own_class = (isinstance(f, ast.Attribute) and f.attr == "__class__" and dotted(f.value) == "self") or \
                            (isinstance(f, ast.Call) and call_name(f) == "type" and len(f.args) == 1 and dotted(f.args[0]) == "self")
                if not own_class:
                    continue
                at = ctx.cfg.node_of(call)
                for k in call.keywords:
                    if k.arg is not None:
                        continue
                    n += 1
                    ok, why = _whole_copy(ctx, at, k.value)
                    ck.ob("C03.18", fn, call, ok, f"{fn.qualname}: the constructor description handed to the clone is a deep copy of the whole description",
                          detail=why, construct=f"{fn.qualname}: description splatted into the clone's constructor")
    ck.floor("C03.18", n, 1, "clone methods that rebuild the module from its constructor description")


def run_r5(ck: Check, repo: Repo) -> None:
    _index_clamped(ck, repo)
    _clone_owns_description(ck, repo)
