"""C14.10 – C14.11 (helper module of c14), added after the third round of seeded changes.

* C14.10  rescaling a bounded network output to the action space uses the true range of the output activation: Tanh and Softsign map to (-1, 1),
          Sigmoid / Softmax / GumbelSoftmax to (0, 1).  A bounded activation filed under the wrong range is mapped below `low` (or only onto half of
          the interval); MADDPG / MATD3 return the rescaled output of evaluation mode unclamped.  The ranges are facts about the functions
          (library summary), the table the code uses is read from the code in whichever form it is written (if / elif over name lists, or a
          name -> (min, max) dictionary).
* C14.11  `get_action(..., training=...)`: where acting switches a network between its noisy (training) and noise-free (evaluation) mode, the
          switch follows the `training` ARGUMENT of the call, not the agent's own `self.training` flag — otherwise `training=False` on an agent
          that is in training mode still samples noisy-network noise and the greedy action is not the best allowed action of the policy.
"""
from __future__ import annotations

import ast
from typing import Dict, List, Optional, Tuple

from ..core import Fn, Repo, call_name, calls_in, const_value, dotted, get_kw, last_attr, short, walk_no_nested
from ..report import Check

TRUE_RANGES: Dict[str, Tuple[float, float]] = {"Tanh": (-1.0, 1.0), "Softsign": (-1.0, 1.0), "Sigmoid": (0.0, 1.0), "Softmax": (0.0, 1.0), "GumbelSoftmax": (0.0, 1.0)}


def _pair(e: Optional[ast.AST]) -> Optional[Tuple[float, float]]:
    if isinstance(e, ast.Tuple) and len(e.elts) == 2:
        a, b = const_value(e.elts[0]), const_value(e.elts[1])
        if isinstance(a, (int, float)) and isinstance(b, (int, float)):
            return float(a), float(b)
    return None


def _names_of(test: ast.AST, param: str) -> List[str]:
    """activation names a test on the parameter selects: `p in [..]`, `p == ".."`, disjunctions of these."""
    if isinstance(test, ast.BoolOp) and isinstance(test.op, ast.Or):
        return [n for v in test.values for n in _names_of(v, param)]
    if isinstance(test, ast.Compare) and len(test.ops) == 1:
        l, op, r = test.left, test.ops[0], test.comparators[0]
        if isinstance(op, ast.In) and dotted(l) == param and isinstance(r, (ast.List, ast.Tuple, ast.Set)):
            return [const_value(x) for x in r.elts if isinstance(const_value(x), str)]
        if isinstance(op, ast.Eq):
            for a, b in ((l, r), (r, l)):
                if dotted(a) == param and isinstance(const_value(b), str):
                    return [const_value(b)]
    return []


def _range_in(stmts: List[ast.stmt]) -> Optional[Tuple[float, float]]:
    """the (min, max) constants a branch binds: `lo, hi = a, b`, or two single assignments of constants in that order."""
    consts: List[float] = []
    for s in stmts:
        if isinstance(s, ast.Assign) and len(s.targets) == 1:
            if isinstance(s.targets[0], ast.Tuple) and _pair(s.value) is not None:
                return _pair(s.value)
            v = const_value(s.value)
            if isinstance(s.targets[0], ast.Name) and isinstance(v, (int, float)) and not isinstance(v, bool):
                consts.append(float(v))
    if len(consts) == 2:
        return consts[0], consts[1]
    return None


def _table(repo: Repo, fn: Fn, param: str) -> Dict[str, Tuple[Tuple[float, float], ast.AST]]:
    out: Dict[str, Tuple[Tuple[float, float], ast.AST]] = {}
    # form 1: if / elif ladder on the parameter
    for x in walk_no_nested(fn.node):
        if isinstance(x, ast.If):
            names = _names_of(x.test, param)
            rng = _range_in(x.body)
            if names and rng is not None:
                for n in names:
                    out[n] = (rng, x.test)
    # form 2: a name -> (min, max) dictionary (module level, class level or local) subscripted / .get()-ed with the parameter
    dicts: Dict[str, ast.Dict] = {}
    for scope in [fn.mod.tree] + ([fn.cls.node] if fn.cls is not None else []) + [fn.node]:
        for s in (scope.body if hasattr(scope, "body") else []):
            tg = s.targets[0] if isinstance(s, ast.Assign) and len(s.targets) == 1 else (s.target if isinstance(s, ast.AnnAssign) else None)
            v = getattr(s, "value", None)
            if isinstance(tg, ast.Name) and isinstance(v, ast.Dict):
                dicts[tg.id] = v
    used = set()
    for x in walk_no_nested(fn.node):
        if isinstance(x, ast.Subscript) and dotted(x.slice) == param and (dotted(x.value).split(".")[-1] in dicts):
            used.add(dotted(x.value).split(".")[-1])
        if isinstance(x, ast.Call) and isinstance(x.func, ast.Attribute) and x.func.attr == "get" and x.args and dotted(x.args[0]) == param \
                and dotted(x.func.value).split(".")[-1] in dicts:
            used.add(dotted(x.func.value).split(".")[-1])
    for dn in used:
        d = dicts[dn]
        for k, v in zip(d.keys, d.values):
            name, rng = const_value(k) if k is not None else None, _pair(v)
            if isinstance(name, str) and rng is not None:
                out[name] = (rng, v)
    return out


def _activation_ranges(ck: Check, repo: Repo) -> None:
    ck.rule("C14.10", "a bounded network output is rescaled from the true range of its output activation: Tanh / Softsign from (-1, 1), Sigmoid / Softmax / GumbelSoftmax "
                      "from (0, 1); every bounded activation the code knows is filed under its own range (read from the if / elif ladder or the lookup table)")
    fn = repo.fn("agilerl.networks.actors", "DeterministicActor.rescale_action")
    param = "output_activation" if "output_activation" in fn.params else (fn.params[-1] if fn.params else "output_activation")
    table = _table(repo, fn, param)
    ck.floor("C14.10", len(table), 4, "activation names with a pre-scaled range", fn=fn)
    for name in sorted(table):
        rng, node = table[name]
        if name not in TRUE_RANGES:
            ck.ob("C14.10", fn, node, False, f"rescale_action: `{name}` is a bounded activation with a known range", detail=f"`{name}` is given the range {rng} but is not one of "
                  f"{sorted(TRUE_RANGES)}", construct=f"rescale_action: range of {name}")
            continue
        ck.ob("C14.10", fn, node, rng == TRUE_RANGES[name], f"rescale_action: outputs of {name} are rescaled from {TRUE_RANGES[name]}",
              detail="" if rng == TRUE_RANGES[name] else f"the code uses {rng}: " + ("negative outputs are mapped below `low`" if rng[0] > TRUE_RANGES[name][0] else "only part of the action interval is reachable"),
              construct=f"rescale_action: range of {name}")


def _mode_follows_argument(ck: Check, repo: Repo) -> None:
    ck.rule("C14.11", "acting with training=False gives the best allowed action of the noise-free policy: where get_action switches a network's mode, the mode is the "
                      "`training` argument of the call (not the agent's own self.training flag)")
    n = 0
    for mod in repo.mods.values():
        if not mod.name.startswith("agilerl.algorithms"):
            continue
        for cls in mod.classes.values():
            fn = cls.methods.get("get_action")
            if fn is None or "training" not in fn.params:
                continue
            for c in calls_in(fn.node):
                if last_attr(c) == "train" and isinstance(c.func, ast.Attribute) and (c.args or c.keywords):
                    n += 1
                    m = get_kw(c, "mode", 0)
                    ok = m is not None and any(isinstance(x, ast.Name) and x.id == "training" for x in ast.walk(m)) and \
                        not any(isinstance(x, ast.Attribute) and x.attr == "training" for x in ast.walk(m))
                    ck.ob("C14.11", fn, c, ok, f"{cls.name}.get_action: `{short(c, 50)}` follows the training argument",
                          detail="" if ok else f"the mode is `{short(m, 40) if m is not None else '?'}`: with training=False on an agent in training mode the noisy layers keep sampling",
                          construct=f"{cls.name}.get_action: mode switch")
    ck.floor("C14.11", n, 1, "mode switches in get_action methods with a training argument")


def run_r3(ck: Check, repo: Repo) -> None:
    _activation_ranges(ck, repo)
    _mode_follows_argument(ck, repo)
