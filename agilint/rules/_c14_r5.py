"""C14.12 (helper module of c14), added after the fifth round of seeded changes.

* C14.12  a clip only brings an action into the bounds if its RESULT is what is handed on.  np.clip / torch.clamp / torch.clip and the methods
          .clip / .clamp are pure: they return a new array and leave their argument alone (unless `out=` names the array to overwrite; the
          in-place methods are spelled clip_ / clamp_).  (a) anywhere in the library a call to a pure clipping function whose value is thrown
          away (the call is a whole expression statement, no out=) clips nothing; (b) in the policy-gradient get_action functions the value
          of the evaluation-mode clip reaches the action that is returned by def-use (directly, through temporaries, through the per-group
          dictionary of IPPO, or through a helper method of the agent whose own clip reaches its return value).
"""
from __future__ import annotations

import ast
from typing import List, Optional, Set, Tuple

from ..cfg import CFG, Node
from ..core import Fn, Repo, call_name, calls_in, get_kw, last_attr, short, walk_no_nested
from ..report import Check

_PURE_CLIP_FUNCS = {"np.clip", "numpy.clip", "torch.clamp", "torch.clip"}
_PURE_CLIP_METHODS = {"clip", "clamp"}
PG_ACTING = [("agilerl.algorithms.ppo", "PPO.get_action"), ("agilerl.algorithms.ippo", "IPPO.get_action")]


def _is_pure_clip(c: ast.Call) -> bool:
    return call_name(c) in _PURE_CLIP_FUNCS or (isinstance(c.func, ast.Attribute) and c.func.attr in _PURE_CLIP_METHODS)


def _flows_to_return(cfg: CFG, call: ast.Call) -> Tuple[bool, str]:
    """Does the value of `call` reach a return statement of the function by def-use?  The statement evaluating the call is followed forwards: the
    locals it binds (or, with out=<name>, the array it overwrites), the statements reading those bindings, the locals / containers these bind."""
    start = cfg.node_of(call)
    if start is None:
        return False, "the clip is not on a live path"
    if isinstance(start.ast, ast.Return):
        return True, "returned directly"
    tainted: Set[Tuple[int, str]] = set()
    out = get_kw(call, "out")
    if isinstance(out, ast.Name):
        tainted |= {(d.id, out.id) for d in cfg.defs_reaching(start, out.id)}
    if not (isinstance(start.ast, ast.Expr) and start.ast.value is call):
        tainted |= {(start.id, k) for k, _ in cfg.defs_at(start) if "." not in k}
    if not tainted:
        return False, "the value of the clip is not bound to anything"
    live = cfg.live_nodes()
    changed = True
    while changed:
        changed = False
        for m in live:
            reads = {x.id for x in m.walk() if isinstance(x, ast.Name) and isinstance(x.ctx, ast.Load)}
            if not any((d.id, k) in tainted for k in reads for d in cfg.defs_reaching(m, k)):
                continue
            if m.kind == "stmt" and isinstance(m.ast, ast.Return):
                return True, "reaches the return value"
            for k, _ in cfg.defs_at(m):
                if "." not in k and (m.id, k) not in tainted:
                    tainted.add((m.id, k))
                    changed = True
    return False, "no return statement reads a value derived from the result of the clip"


def _helper_clips(repo: Repo, fn: Fn, c: ast.Call) -> Optional[Tuple[Fn, List[ast.Call]]]:
    """self.<m>(...) resolving to a method of the agent's class that contains a clip: (method, its clips)."""
    if not (isinstance(c.func, ast.Attribute) and isinstance(c.func.value, ast.Name) and c.func.value.id == "self" and fn.cls is not None):
        return None
    m = repo.find_method(fn.cls, c.func.attr)
    if m is None or m.node is fn.node:
        return None
    clips = [x for x in calls_in(m.node) if _is_pure_clip(x)]
    return (m, clips) if clips else None


def run_r5(ck: Check, repo: Repo) -> None:
    ck.rule("C14.12", "the result of a clip is what is handed on: a call to a pure clipping function (np.clip, torch.clamp / clip, .clip / .clamp without out=) "
                      "is never a statement of its own (its value would be thrown away and nothing is clipped), and in the policy-gradient get_action "
                      "functions the value of the evaluation-mode clip reaches the returned action by def-use (serves: evaluation-mode continuous "
                      "actions lie inside the bounds of the action space)")
    # (a) no pure clip is discarded, anywhere in the library
    n_clips = 0
    for fn in repo.all_functions():
        dropped = {id(s.value) for s in walk_no_nested(fn.node) if isinstance(s, ast.Expr) and isinstance(s.value, ast.Call)}
        for c in calls_in(fn.node):
            if not _is_pure_clip(c):
                continue
            n_clips += 1
            ok = id(c) not in dropped or get_kw(c, "out") is not None
            ck.ob("C14.12", fn, c, ok, f"{fn.qualname}: the value of the pure clip `{short(c, 60)}` is used (assigned, returned, passed on) or the clip writes into out=",
                  detail="the call is a statement of its own: the clipped copy is thrown away and the argument keeps its out-of-bounds entries",
                  construct=f"{fn.qualname}: result of {short(c, 60)}")
    ck.floor("C14.12", n_clips, 10, "calls of pure clipping functions in the library")
    # (b) the evaluation-mode clip of the policy-gradient agents reaches the returned action
    n_pg = 0
    for modname, q in PG_ACTING:
        fn = repo.fn(modname, q)
        cfg = CFG(fn.node)
        sources: List[Tuple[ast.Call, bool, str]] = []
        for c in calls_in(fn.node):
            if _is_pure_clip(c):
                sources.append((c, True, ""))
                continue
            hc = _helper_clips(repo, fn, c)
            if hc is not None:
                m, clips = hc
                mcfg = CFG(m.node)
                res = [_flows_to_return(mcfg, x) for x in clips]
                sources.append((c, any(ok for ok, _ in res), f"{m.qualname}: " + "; ".join(w for _, w in res)))
        ck.floor("C14.12", len(sources), 1, "evaluation-mode clip of the continuous action (in the function or in a helper method of the agent)", fn=fn)
        for c, inner_ok, inner_why in sources:
            n_pg += 1
            ok, why = _flows_to_return(cfg, c)
            ck.ob("C14.12", fn, c, ok and inner_ok, f"{q}: the returned action derives from the result of the clip",
                  detail=(inner_why + "; " if inner_why else "") + why, construct=f"{q}: clip result -> returned action ({short(c, 50)})")
    ck.floor("C14.12", n_pg, 2, "evaluation-mode clips in the policy-gradient get_action functions")
