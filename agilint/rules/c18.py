"""C18 — Rainbow's distributional target conserves probability mass and expected value."""
from __future__ import annotations

import ast
from typing import Dict, List, Optional, Set, Tuple

from ..cfg import CFG, Node
from ..core import AnalysisError, Cls, Fn, Repo, call_name, calls_in, const_value, dotted, get_kw, last_attr, short, walk_no_nested
from ..registry import extract
from ..report import Check
from ..terms import Atom, Poly, TermBuilder, bind_arg, expand_phi, mentions, single_atom, walk_atoms
from ._c18_r3b import ACCUMULATING, buffer_def, flat_view, mass_writes, run_r3b, strong_def, through, unrolled

RB = "agilerl.algorithms.dqn_rainbow"


def _expr(s: str) -> ast.AST:
    return ast.parse(s, mode="eval").body


def run(ck: Check, repo: Repo) -> None:
    try:
        _run(ck, repo)
    except (AttributeError, IndexError, KeyError, TypeError, ValueError) as e:
        # last resort: a form of the code that an obligation was not written for must never surface as a traceback
        import traceback
        fr = traceback.extract_tb(e.__traceback__)[-1]
        raise AnalysisError(f"C18: unrecognised form of the code (not decided): {type(e).__name__}: {e} [{fr.filename.rsplit('/', 1)[-1]}:{fr.lineno} in {fr.name}]")


def _run(ck: Check, repo: Repo) -> None:
    # which distribution is projected: the one of the target network held at entry of learn(), evaluated on the next observations of the SAME (1-step or
    # n-step) batch as reward and done.  These are the C08 obligations on RainbowDQN (batch coherence, soft update after the step); they are taken over here
    from dataclasses import replace
    from . import c08
    sub8 = Check("C08", ck.tier, ck.repo_root)
    sub8.known = []
    # (C08 in turn shares the projection obligations of this check as C08.11: not while it runs nested in here)
    from . import _c08_r3
    prev = _c08_r3._ACTIVE
    _c08_r3._ACTIVE = True
    try:
        c08.run(sub8, repo)
    finally:
        _c08_r3._ACTIVE = prev
    ck.rule("C18.7", "the source distribution and the Bellman-shifted support come from one batch and from the target network as held at entry of learn(): the 1-step, n-step "
                     "and combined losses read observation, action, reward, next observation and done from the same sampled batch, and the soft update follows the optimizer "
                     "step (obligations of C08.4 / C08.7 on RainbowDQN, shared with the C08 check)")
    taken = [replace(o, rule="C18.7") for o in sub8.obs if o.rule in ("C08.4", "C08.7") and o.qualname.startswith("RainbowDQN")]
    if len(taken) < 10:
        raise AnalysisError(f"C18.7: only {len(taken)} obligations taken over from C08.4 / C08.7")
    ck.obs.extend(taken)
    ck.not_decided += ["conservation of total mass and of the mean as numeric facts (needs sum p = 1 and exact arithmetic)",
                       "behaviour of DuelingDistributionalMLP's softmax clamp"]
    ck.trusted += ["Tensor.index_add_ (scatter_add_ on a 1-d receiver alike) accumulates into the receiver at the given flat indices and raises IndexError for an index outside the receiver"]
    ck.rule("C18.1", "the shifted support is clamped to [v_min, v_max] before the fractional atom index b = (t_z - v_min) / delta_z is formed; "
                     "delta_z = (v_max - v_min)/(num_atoms - 1) and the support is linspace(v_min, v_max, num_atoms)")
    ck.rule("C18.2", "neighbour weights are complementary: the lower atom floor(b) receives p*(upper - b), the upper atom ceil(b) receives p*(b - lower)")
    ck.rule("C18.3", "the fix-up for integral b first lowers the lower index where upper > 0, then raises the upper index where lower < num_atoms - 1, in that order, before any mass is written")
    ck.rule("C18.4", "per-sample offsets into the flattened projection have stride num_atoms and the projection buffer has the shape of the source distribution")
    ck.rule("C18.5", "the source distribution is the shared network's distribution of the eval network's arg-max next action; the loss is "
                     "-sum(projection * log p(action taken)); new priorities = element-wise loss + prior_eps; the n-step target discounts with gamma**n_step")
    ck.rule("C18.6", "bounded index write: an atom index derived from a floating-point division is clamped to [0, num_atoms - 1] before index_add_")
    # C18.8 (round 3): every indexed write into the projection buffer accumulates
    run_r3b(ck, repo)
    fn = repo.fn(RB, "RainbowDQN._dqn_loss")
    cfg = CFG(fn.node)
    tb = TermBuilder(repo, fn, cfg=cfg, depth=1)
    init = repo.fn(RB, "RainbowDQN.__init__")
    isrc = ast.unparse(init.node)
    ck.ob("C18.1", init, init.node, "self.delta_z = (self.v_max - self.v_min) / (self.num_atoms - 1)" in isrc, "delta_z is the atom spacing of the support", construct="delta_z definition")
    ck.ob("C18.1", init, init.node, "self.support = torch.linspace(self.v_min, self.v_max, self.num_atoms" in isrc, "the support is num_atoms evenly spaced atoms from v_min to v_max", construct="support definition")

    # ---- locate floor / ceil of the fractional index
    fl = [c for c in calls_in(fn.node) if last_attr(c) == "floor"]
    ce = [c for c in calls_in(fn.node) if last_attr(c) == "ceil"]
    if len(fl) == 1 and not ce:
        # recognised alternative family: upper = lower + 1.  It keeps u - L = 1 only if the LOWER index is capped at num_atoms - 2;
        # capping the upper index instead makes both weights (u - b) and (b - L) vanish at b = num_atoms - 1 (a target on v_max loses its mass)
        fnode = cfg.node_of(fl[0])
        lo_names = [k for k, _ in cfg.defs_at(fnode)] if fnode is not None else []
        succ = [a for a in walk_no_nested(fn.node) if isinstance(a, ast.Assign) and lo_names and any(
            isinstance(x, ast.BinOp) and isinstance(x.op, ast.Add) and {dotted(x.left), ast.unparse(x.right)} == {lo_names[0], "1"} for x in ast.walk(a.value))]
        if succ:
            lo_def = fnode.ast.value if isinstance(fnode.ast, ast.Assign) else None
            lo_capped = lo_def is not None and any(isinstance(x, ast.Call) and last_attr(x) in ("clamp", "clip", "clamp_max") and "self.num_atoms - 2" in ast.unparse(x) for x in ast.walk(lo_def))
            ck.ob("C18.2", fn, succ[0], lo_capped, "with upper = lower + 1 the lower index is capped at num_atoms - 2, so the two projection weights always sum to one",
                  detail=f"`{short(succ[0], 80)}`: the lower index is not capped, so for b = num_atoms - 1 (a target atom on or beyond v_max) lower = upper and both weights "
                         "(u - b), (b - L) are zero: that atom's probability mass disappears from the projected distribution",
                  construct="_dqn_loss: upper = lower + 1 construction")
            raise AnalysisError("_dqn_loss: projection uses the `upper = lower + 1` form; the remaining floor/ceil obligations do not apply to it")
    if len(fl) != 1 or len(ce) != 1:
        raise AnalysisError(f"_dqn_loss: expected one floor and one ceil of the fractional index (found {len(fl)}, {len(ce)})")
    fnode, cnode = cfg.node_of(fl[0]), cfg.node_of(ce[0])
    if fnode is None or cnode is None or not isinstance(fl[0].func, ast.Attribute) or not isinstance(ce[0].func, ast.Attribute):
        raise AnalysisError("_dqn_loss: floor / ceil of the fractional index is not a method call in live code (unrecognised form of the projection)")
    Bf = tb.term(fl[0].func.value, fnode)
    Bc = tb.term(ce[0].func.value, cnode)
    ck.ob("C18.2", fn, ce[0], Bf == Bc, "lower and upper atom are floor and ceil of the same fractional index", detail=f"{Bf.key()[:100]} vs {Bc.key()[:100]}")
    B = Bf
    # roles, not names: the LOWER index is whatever derives from floor(b) (and not from ceil(b)), the UPPER index whatever derives from ceil(b)
    _is_floor = lambda a: a.kind == "call" and a.name == "floor"
    _is_ceil = lambda a: a.kind == "call" and a.name == "ceil"

    def role(t: Poly) -> Optional[str]:
        lo, hi = mentions(tb, t, _is_floor), mentions(tb, t, _is_ceil)
        return "lo" if lo and not hi else "hi" if hi and not lo else None

    def index_part(t: Poly) -> Tuple[Poly, Poly]:
        """an index term split into (the atom index: monomials deriving from floor / ceil, the rest: the per-sample offset)"""
        a, r = {}, {}
        for m, c in t.t.items():
            (a if any(mentions(tb, Poly.atom(k), lambda x: _is_floor(x) or _is_ceil(x)) for k, _ in m) else r)[m] = c
        return Poly(a), Poly(r)

    # the locals bound by the floor / ceil statements (only used for the "is it clamped" question of C18.6; may be absent)
    lo_name = next((k for k, _ in cfg.defs_at(fnode)), None)
    hi_name = next((k for k, _ in cfg.defs_at(cnode)), None)
    # ---- C18.1 form of b
    cl = [a for a, _, _ in walk_atoms(tb, B) if a.kind == "call" and a.name in ("clamp", "clip")]
    dz = tb.term(_expr("self.delta_z"), fnode)
    vmin = tb.term(_expr("self.v_min"), fnode)
    vmax = tb.term(_expr("self.v_max"), fnode)
    ok = False
    detail = f"b = {B.key()[:200]}"
    tz_atom = None
    dzi = dz.inv()
    for a in cl:
        if dzi is None:
            break
        cand = (Poly.atom(a.key) - vmin) * dzi
        if _strip_index_clamp(tb, B) == cand:
            ok = True
            tz_atom = a
    ck.ob("C18.1", fn, fl[0], ok, "b = (clamp(t_z) - v_min) / delta_z", detail=detail)
    if tz_atom is not None:
        n = tz_atom.node
        kws = {k.arg: k.value for k in n.keywords} if isinstance(n, ast.Call) else {}
        args = list(n.args) if isinstance(n, ast.Call) else []
        lo = kws.get("min", args[0] if args else None)
        hi = kws.get("max", args[1] if len(args) > 1 else None)
        ck.ob("C18.1", fn, n, lo is not None and hi is not None and dotted(lo) == "self.v_min" and dotted(hi) == "self.v_max",
              "the shifted support is clamped to [self.v_min, self.v_max]", detail=f"clamp({short(lo, 30)}, {short(hi, 30)})")
        inner = tz_atom.sub[0] if tz_atom.sub else Poly()
        ck.ob("C18.1", fn, n, "role:reward" in tb.origins(inner) and "attr:self.support" in tb.origins(inner), "what is clamped is reward + discounted support")

    reg = extract(repo, RB, "RainbowDQN")
    # ---- C18.2 neighbour weights
    # (a write in the body of a loop over a literal table of (index, weight) rows is one write per row: `unrolled`)
    adds_at: List[Tuple[ast.Call, Optional[Node]]] = [(u, cfg.node_of(c)) for c in calls_in(fn.node) if last_attr(c) in ACCUMULATING and isinstance(c.func, ast.Attribute)
                                                      for u in unrolled(cfg, c, cfg.node_of(c))]
    adds = [c for c, _ in adds_at]
    ck.ob("C18.2", fn, fn.node, len(adds) == 2, "mass is written by exactly two index_add_ calls (lower and upper atom)",
          detail=f"found {len(adds)} accumulating writes (index_add_ / scatter_add_)", construct="index_add_ calls")
    roles = {}
    bufs: List[Optional[Node]] = []  # per write: the `x = zeros(...)` statement whose tensor receives the mass
    for c, n in adds_at:
        if len(c.args) != 3 or n is None:
            ck.ob("C18.2", fn, c, False, "index_add_(dim, index, source) form")
            continue
        I = tb.term(c.args[1], n)
        W = tb.term(c.args[2], n)
        is_lo = mentions(tb, I, _is_floor)
        is_hi = mentions(tb, I, _is_ceil)
        ck.ob("C18.2", fn, c, is_lo != is_hi, "the index derives from exactly one of floor(b) / ceil(b)")
        roles[c] = ("lo" if is_lo else "hi", I, W, n)
        # the receiver is a flat view of the projection, taken in place or once into a temporary (`flat = proj.view(-1)`)
        fv = flat_view(cfg, c.func.value, n)
        bufs.append(buffer_def(cfg, fv[0].func.value, fv[1]) if fv is not None else None)
        ck.ob("C18.4", fn, c, const_value(c.args[0]) == 0 and fv is not None, "mass is accumulated into the flattened projection along dim 0")
    paired = len(roles) == 2 and {r[0] for r in roles.values()} == {"lo", "hi"}
    ck.ob("C18.2", fn, adds[0] if adds else fn.node, paired,
          "one write addresses the lower atom and the other the upper atom", detail=f"index kinds: {[r[0] for r in roles.values()]}", construct="lower/upper write pair")
    idx_of: Dict[str, Poly] = {}  # role -> the atom index as written (offset removed)
    if paired:
        for c, (which, I, W, n) in list(roles.items()):
            part, off = index_part(I)
            idx_of[which] = part
            roles[c] = roles[c] + (off,)
        for c, (which, I, W, n, off) in roles.items():
            # the weights are stated over the indices AS WRITTEN by the two writes (after the fix-up), whatever the locals are called
            lo_t, hi_t = idx_of["lo"], idx_of["hi"]
            P = [k for k in W.atoms() if k in tb.atoms and "role:next_obs" in tb.atoms[k].origins and k not in B.atoms()]
            okp = len(P) == 1
            want = None
            if okp:
                p = Poly.atom(P[0])
                want = p * (hi_t - B) if which == "lo" else p * (B - lo_t)
            ck.ob("C18.2", fn, c, okp and W == want,
                  f"the {'lower' if which == 'lo' else 'upper'} atom receives source probability times ({'upper - b' if which == 'lo' else 'b - lower'})",
                  detail=f"weight = {W.key()[:180]}" + (f" ; expected {want.key()[:180]}" if want is not None else ""))
        offs = [r[4] for r in roles.values() if len(r) > 4]
        ck.ob("C18.4", fn, next(iter(roles)), len(offs) == 2 and offs[0] == offs[1] and len(offs[0].t) == 1, "both writes use the same per-sample offset", detail=" / ".join(o.key()[:80] for o in offs))
        # ---- C18.4 stride
        if offs:
            first = next(iter(roles))
            _offset(ck, tb, fn, cfg, offs[0], first.args[1], roles[first][3])
    # projection buffer shape: both writes go into ONE zeros(...) tensor, whose shape is taken from the source distribution
    if not bufs:  # no index_add_ at all (reported above): the buffer is still the zeros(...) tensor that receives the indexed writes
        bufs = [w[2] for w in mass_writes(cfg, tb, fn)]
    z = bufs[0] if bufs and bufs[0] is not None and all(b is bufs[0] for b in bufs) else None
    # "the source distribution" by role: a local whose definition reaching the zeros(...) statement is the shared network's
    # distribution call or the row selection out of it (sel below), whatever it is called
    ok = z is not None and any(isinstance(x, ast.Name) and any(_is_source_def(cfg, d, reg.shared_attrs()) for d in cfg.defs_reaching(z, x.id))
                               for x in ast.walk(z.ast.value))
    ck.ob("C18.4", fn, z.ast if z is not None else fn.node, ok, "the projection starts from zeros shaped like the source distribution")

    # ---- C18.3 fix-up: in-place corrections `idx[mask] -= 1` / `idx[mask] += 1` of a tensor that derives from floor(b) / ceil(b)
    fix = [n for n in cfg.live_nodes() if n.kind == "stmt" and isinstance(n.ast, ast.AugAssign) and isinstance(n.ast.target, ast.Subscript)
           and role(tb.strip_updates(tb.term(n.ast.target.value, n))) is not None]
    ck.ob("C18.3", fn, fn.node, len(fix) == 2, "two fix-up statements handle integral b", construct="fix-up statements")
    if len(fix) == 2:
        f1, f2 = sorted(fix, key=lambda n: n.lineno)
        r1, r2 = (role(tb.strip_updates(tb.term(f.ast.target.value, f))) for f in (f1, f2))
        # the two index tensors, named by role: what the lowering fix-up corrects / what the raising fix-up corrects
        LOe = next((f.ast.target.value for f, r in ((f1, r1), (f2, r2)) if r == "lo"), None)
        HIe = next((f.ast.target.value for f, r in ((f1, r1), (f2, r2)) if r == "hi"), None)
        ok1 = r1 == "lo" and isinstance(f1.ast.op, ast.Sub) and const_value(f1.ast.value) == 1 and _fix_mask(tb, cfg, f1, LOe, HIe, "low")
        ok2 = r2 == "hi" and isinstance(f2.ast.op, ast.Add) and const_value(f2.ast.value) == 1 and _fix_mask(tb, cfg, f2, LOe, HIe, "high")
        ck.ob("C18.3", fn, f1.ast, ok1, "first: lower -= 1 where (upper > 0) and (lower == upper)", detail=f"mask `{short(f1.ast.target.slice, 100)}`")
        ck.ob("C18.3", fn, f2.ast, ok2, "then: upper += 1 where (lower < num_atoms - 1) and (lower == upper)",
              detail=f"mask `{short(f2.ast.target.slice, 100)}` (lower == upper has to be evaluated on the indices as they are after the first fix-up)")
        # ... and the indices the writes address are the corrected ones: they are the fix-up targets as they are at the write, and the update made by
        # the fix-up statement reaches them (a re-binding of the index to a copy taken before the fix-up would undo it)
        fixed = LOe is not None and HIe is not None and all(
            idx_of.get(w) is None or (idx_of[w] == tb.term(e, n) and mentions(tb, idx_of[w], lambda a, f=f: a.kind == "upd" and a.node is f.ast))
            for _, (w, _I, _W, n, *_r) in roles.items() for e, f in ([(LOe, f1)] if w == "lo" else [(HIe, f2)]))
        ck.ob("C18.3", fn, f2.ast, cfg.dominates(f1, f2) and all(n is not None and cfg.dominates(f2, n) for _, n in adds_at) and fixed,
              "the order is lower-fix, upper-fix, then the two writes")

    # ---- C18.6 bounded index
    bounded = _index_clamped(tb, B, fn) or any(_name_clamped(cfg, fn, nm) for nm in (lo_name, hi_name) if nm is not None)
    both = _index_clamped(tb, B, fn) or all(nm is not None and _name_clamped(cfg, fn, nm) for nm in (lo_name, hi_name))
    ck.ob("C18.6", fn, fl[0], both,
          "the fractional index (or both integer indices) is clamped to [0, num_atoms - 1] before it addresses the projection",
          detail="b = (t_z - v_min)/delta_z is a float32 quotient with a float64-derived delta_z: for many (num_atoms, v_min, v_max) a target that "
                 "hits v_max gives b slightly above num_atoms - 1, ceil(b) = num_atoms and index_add_ raises IndexError",
          construct="index bound before index_add_")

    # ---- C18.5
    shared = reg.shared_attrs()
    evals = reg.eval_attrs()
    src_calls = [c for c in calls_in(fn.node) if dotted(c.func).startswith("self.") and dotted(c.func)[5:] in shared]
    ck.ob("C18.5", fn, src_calls[0] if src_calls else fn.node, len(src_calls) == 1 and const_value(get_kw(src_calls[0], "q")) is False,
          "the source distribution is the shared network called for distributions (q=False)")
    am = [c for c in calls_in(fn.node) if last_attr(c) == "argmax"]
    ok = False
    for c in am:
        n = cfg.node_of(c)
        if n is None or not isinstance(c.func, ast.Attribute):
            continue
        t = tb.term(c.func.value, n)
        a = single_atom(tb, t)
        ok = a is not None and a.kind == "call" and a.name in evals and "next_obs" in tb.roles(t) and const_value(c.args[0] if c.args else get_kw(c, "dim")) == 1
    ck.ob("C18.5", fn, am[0] if am else fn.node, ok, "the next action is the arg-max over actions of the eval network's Q-values of the next observation")
    # selection of the source distribution by that action
    sel = [n for n in cfg.live_nodes() if n.kind == "stmt" and isinstance(n.ast, ast.Assign) and isinstance(n.ast.value, ast.Subscript) and isinstance(n.ast.value.slice, ast.Tuple)
           and src_calls and cfg.node_of(src_calls[0]) in cfg.defs_reaching(n, dotted(n.ast.value.value))]
    ok = False
    for n in sel:
        e = n.ast.value.slice.elts
        ok = len(e) == 2 and ast.unparse(e[0]) == "range(self.batch_size)" and mentions(tb, tb.term(e[1], n), lambda a: a.kind == "call" and a.name == "argmax")
    ck.ob("C18.5", fn, sel[0].ast if sel else fn.node, ok, "row i of the source is the shared network's distribution for sample i's arg-max action")
    # loss
    rets = [n for n in cfg.live_nodes() if n.kind == "stmt" and isinstance(n.ast, ast.Return)]
    for r in rets:
        if r.ast.value is None:
            ck.ob("C18.5", fn, r.ast, False, "the element-wise loss is -sum over atoms of projection * log-probability of the action taken", detail="a bare return")
            continue
        t = tb.term(r.ast.value, r)
        a = None
        neg = -t
        a = single_atom(tb, neg)
        ok = a is not None and a.kind == "call" and a.name == "sum"
        if ok:
            prod = a.sub[0]
            names = {tb.atoms[k].kind + ":" + tb.atoms[k].name for m in prod.t for k, _ in m if k in tb.atoms}
            ks = [k for m in prod.t for k, _ in m if k in tb.atoms]
            logp = [k for k in ks if "role:obs" in tb.atoms[k].origins and "role:next_obs" not in tb.atoms[k].origins and tb.atoms[k].kind == "idx"]
            proj = [k for k in ks if k not in logp]
            ok = len(prod.t) == 1 and len(logp) == 1 and len(proj) == 1 and "actions" in tb.atoms[logp[0]].key
        ck.ob("C18.5", fn, r.ast, ok, "the element-wise loss is -sum over atoms of projection * log-probability of the action taken", detail=t.key()[:200])
    lp = [c for c in calls_in(fn.node) if dotted(c.func).startswith("self.") and dotted(c.func)[5:] in evals and const_value(get_kw(c, "log")) is True]
    ck.ob("C18.5", fn, lp[0] if lp else fn.node, len(lp) == 1 and bool(lp[0].args) and const_value(get_kw(lp[0], "q")) is False and "obs" in tb.roles(tb.term(lp[0], cfg.node_of(lp[0])))
          and "next_obs" not in tb.roles(tb.term(lp[0].args[0], cfg.node_of(lp[0]))),
          "log-probabilities come from the eval network on the current observation")
    _learn(ck, repo)


def _is_source_def(cfg: CFG, d: Node, shared: List[str], _depth: int = 0) -> bool:
    """d binds the distribution of a shared (target) network: `x = self.<shared>(...)`, or `x = y[..., ...]` with y bound that way."""
    if d.kind != "stmt" or not isinstance(d.ast, ast.Assign):
        return False
    v = d.ast.value
    if isinstance(v, ast.Call):
        return dotted(v.func).startswith("self.") and dotted(v.func)[5:] in shared
    if isinstance(v, ast.Subscript) and isinstance(v.value, ast.Name):
        return _depth < 4 and any(x is not d and _is_source_def(cfg, x, shared, _depth + 1) for x in cfg.defs_reaching(d, v.value.id))
    return False


def _strip_index_clamp(tb: TermBuilder, B: Poly) -> Poly:
    """b with an outer clamp(…, 0, num_atoms - 1) removed (the C18.6 repair keeps C18.1 valid)."""
    a = single_atom(tb, B)
    if a is not None and a.kind == "call" and a.name in ("clamp", "clip") and a.sub and "num_atoms" in a.key:
        return a.sub[0]
    return B


def _index_clamped(tb: TermBuilder, B: Poly, fn: Fn) -> bool:
    a = single_atom(tb, B)
    if a is None or a.kind != "call" or a.name not in ("clamp", "clip"):
        return False
    n = a.node
    if not isinstance(n, ast.Call):
        return False
    kws = {k.arg: k.value for k in n.keywords}
    args = list(n.args)
    lo = kws.get("min", args[0] if args else None)
    hi = kws.get("max", args[1] if len(args) > 1 else None)
    return lo is not None and hi is not None and const_value(lo) == 0 and ast.unparse(hi).replace(" ", "") in ("self.num_atoms-1", "(self.num_atoms-1)")


def _name_clamped(cfg: CFG, fn: Fn, name: str) -> bool:
    for n in cfg.live_nodes():
        if n.kind == "stmt" and isinstance(n.ast, ast.Assign) and dotted(n.ast.targets[0]) == name and isinstance(n.ast.value, ast.Call) \
                and last_attr(n.ast.value) in ("clamp", "clip", "clamp_") and "num_atoms" in ast.unparse(n.ast.value):
            return True
        if n.kind == "stmt" and isinstance(n.ast, ast.Expr) and isinstance(n.ast.value, ast.Call) and last_attr(n.ast.value) == "clamp_" \
                and isinstance(n.ast.value.func, ast.Attribute) and dotted(n.ast.value.func.value) == name and "num_atoms" in ast.unparse(n.ast.value):
            return True
    return False


def _conj(cfg: CFG, e: ast.AST, at: Node, _depth: int = 0) -> List[Tuple[ast.AST, Node]]:
    """the conjuncts of a boolean tensor mask (`a * b`, `a & b`, `torch.logical_and(a, b)`, `a.logical_and(b)`), looking through temporaries:
    (expression, node at which it is evaluated)."""
    e, at = through(cfg, e, at)
    if _depth < 4:
        if isinstance(e, ast.BinOp) and isinstance(e.op, (ast.Mult, ast.BitAnd)):
            return _conj(cfg, e.left, at, _depth + 1) + _conj(cfg, e.right, at, _depth + 1)
        if isinstance(e, ast.Call) and call_name(e) in ("torch.logical_and", "torch.mul", "torch.bitwise_and") and len(e.args) == 2 and not e.keywords:
            return _conj(cfg, e.args[0], at, _depth + 1) + _conj(cfg, e.args[1], at, _depth + 1)
        if isinstance(e, ast.Call) and isinstance(e.func, ast.Attribute) and e.func.attr in ("logical_and", "mul", "bitwise_and") and len(e.args) == 1 \
                and not e.keywords and dotted(e.func.value) != "torch":
            return _conj(cfg, e.func.value, at, _depth + 1) + _conj(cfg, e.args[0], at, _depth + 1)
    return [(e, at)]


def _fix_mask(tb: TermBuilder, cfg: CFG, f: Node, LOe: Optional[ast.AST], HIe: Optional[ast.AST], bound: str) -> bool:
    """The mask of fix-up statement f is `(lower == upper) and (index > 0)` (bound = "low") resp. `(lower == upper) and (index < num_atoms - 1)`
    (bound = "high"), where lower / upper are the two index tensors AS THEY ARE when f runs (a mask computed before an earlier fix-up is stale) and
    `index` is either of them (they are equal where the mask holds).  Decided on terms: spelling, operand order and temporaries do not matter."""
    if LOe is None or HIe is None:
        return False
    lo_t, hi_t = tb.term(LOe, f), tb.term(HIe, f)
    atoms = [single_atom(tb, tb.term(e, n)) for e, n in _conj(cfg, f.ast.target.slice, f)]
    if len(atoms) != 2 or any(a is None or a.kind != "cmp" or len(a.sub) != 2 for a in atoms):
        return False
    eq = [a for a in atoms if a.name == "Eq" and ((a.sub[0] == lo_t and a.sub[1] == hi_t) or (a.sub[0] == hi_t and a.sub[1] == lo_t))]
    rest = [a for a in atoms if not any(a is x for x in eq)]
    if len(eq) != 1 or len(rest) != 1:
        return False
    r = rest[0]
    x, y = r.sub
    is_idx = lambda t: t == lo_t or t == hi_t
    if bound == "low":  # comparisons are loaded as `<` / `<=` (core.canonicalise_comparisons)
        return (r.name == "Lt" and x == Poly.const(0) and is_idx(y)) or (r.name == "LtE" and x == Poly.const(1) and is_idx(y))
    n1 = tb.term(_expr("self.num_atoms - 1"), f)
    return (r.name == "Lt" and is_idx(x) and y == n1) or (r.name == "LtE" and is_idx(x) and y == n1 - Poly.const(1))


def _closure_calls(cfg: CFG, e: ast.AST, at: Node, out: List[Tuple[ast.Call, Node]], _depth: int = 0) -> List[Tuple[ast.Call, Node]]:
    """the calls on the def-use chain of expression e: in e itself and in the values of the single-definition temporaries it reads."""
    for x in [e] + list(walk_no_nested(e)):
        if isinstance(x, ast.Call):
            out.append((x, at))
        elif isinstance(x, ast.Name) and _depth < 6:
            d = strong_def(cfg, at, x.id)
            v = cfg.value_of_def(d, x.id) if d is not None else None
            if v is not None and not any(v is c for c, _ in out):
                _closure_calls(cfg, v, d, out, _depth + 1)
    return out


def _offset(ck: Check, tb: TermBuilder, fn: Fn, cfg: CFG, off: Poly, idx: ast.AST, at: Node) -> None:
    """off: the per-sample offset term (value-neutral adapters such as long / unsqueeze / expand / view are already stripped by the term builder);
    idx: the index argument of a write (its def-use chain contains the broadcast of the offset)."""
    a = single_atom(tb, off)
    ok = False
    detail = off.key()[:160]
    if a is not None and a.kind == "call" and "linspace" in a.key.split("(")[0]:
        n = a.node
        if isinstance(n, ast.Call) and len(n.args) >= 3 and len(a.sub) >= len(n.args) + len(n.keywords):
            k0 = len(a.sub) - len(n.args) - len(n.keywords)  # sub = [receiver / callee] + positional + keyword argument terms
            s, e, k = a.sub[k0:k0 + 3]
            N = tb.term(_expr("self.num_atoms"), at)
            ok = s == Poly.const(0) and e == (k - Poly.const(1)) * N and k == tb.term(_expr("self.batch_size"), at)
            detail = f"linspace({s.key()}, {e.key()[:60]}, {k.key()[:40]})"
    elif a is not None and a.kind == "call" and "arange" in a.key.split("(")[0]:
        ok = "num_atoms" in off.key()
    ck.ob("C18.4", fn, a.node if a is not None and a.node is not None else fn.node, ok,
          "sample i's atoms are written at flat offset i * num_atoms (batch_size rows)", detail=detail)
    # the broadcast: an expand(...) on the way from the offset to the index whose receiver IS the offset
    ex = [(c, n) for c, n in _closure_calls(cfg, idx, at, []) if last_attr(c) == "expand" and isinstance(c.func, ast.Attribute) and tb.term(c.func.value, n) == off]
    want = [tb.term(_expr("self.batch_size"), at), tb.term(_expr("self.num_atoms"), at)]
    ck.ob("C18.4", fn, ex[0][0] if ex else fn.node, bool(ex) and [tb.term(x, ex[0][1]) for x in ex[0][0].args] == want,
          "the offset is broadcast over the atoms of its sample (batch_size x num_atoms)")


def _learn(ck: Check, repo: Repo) -> None:
    fn = repo.fn(RB, "RainbowDQN.learn")
    cfg = CFG(fn.node)
    tb = TermBuilder(repo, fn, cfg=cfg, depth=0)
    calls = [c for c in calls_in(fn.node) if call_name(c) == "self._dqn_loss"]
    ck.floor("C18.5", len(calls), 4, "_dqn_loss calls in learn (1-step / n-step x PER / non-PER)", fn=fn)
    one_names: Set[str] = set()  # locals that receive the 1-step element-wise loss
    n_names: Set[str] = set()  # locals that receive the n-step element-wise loss
    # the arguments are read through the helper's signature: slots 0-4 take the batch, slot 5 the discount, whether handed over by position or by keyword
    callee = repo.fn(RB, "RainbowDQN._dqn_loss")
    slots = callee.named_params[1:]
    for c in calls:
        n = cfg.node_of(c)
        bound = [bind_arg(callee, c, p) for p in slots[:6]]
        g = tb.term(bound[5], n) if len(bound) > 5 and bound[5] is not None else None
        roots = set()
        for a in bound[:5]:
            if a is None:
                continue
            for at, _, _ in walk_atoms(tb, tb.term(a, n)):
                if at.kind == "param":
                    roots.add(at.name)
        nstep = "n_experiences" in roots
        if n is not None and n.kind == "stmt" and isinstance(n.ast, ast.Assign) and n.ast.value is c and isinstance(n.ast.targets[0], ast.Name):
            (n_names if nstep else one_names).add(n.ast.targets[0].id)
        want = tb.term(_expr("self.gamma ** self.n_step"), n) if nstep else tb.term(_expr("self.gamma"), n)
        ck.ob("C18.5", fn, c, g is not None and g == want, f"the {'n-step' if nstep else '1-step'} loss discounts with {'gamma ** n_step' if nstep else 'gamma'}",
              detail=f"discount = {g.key()[:80] if g is not None else None}; batch = {sorted(roots)}")
    # roles from the return statement `return <loss>.item(), <indices>, <new priorities>`: the locals are named by their position
    rets = [n for n in cfg.live_nodes() if n.kind == "stmt" and isinstance(n.ast, ast.Return) and isinstance(n.ast.value, ast.Tuple)]
    prio_names = {r.ast.value.elts[2].id for r in rets if len(r.ast.value.elts) == 3 and isinstance(r.ast.value.elts[2], ast.Name)}
    pr = [n for n in cfg.live_nodes() if n.kind == "stmt" and isinstance(n.ast, ast.Assign) and dotted(n.ast.targets[0]) in prio_names]
    pr = [n for n in pr if not _is_none(n.ast.value)]
    ok = False
    for n in pr:
        # `x = a if c else None` is `if c: x = a else: x = None`: every alternative that is not None is the priorities, under its own condition
        for v, conds in _alternatives(n.ast.value):
            if _is_none(v):
                continue
            t = tb.term(v, n)
            eps = tb.term(_expr("self.prior_eps"), n)
            rest = t - eps
            ok = len(rest.t) == 1 and mentions(tb, rest, lambda a: a.kind == "call" and a.name == "_dqn_loss")
            gs = [ast.unparse(g) for g, pol, _ in cfg.guards_at(n) if pol] + [g for g, pol in conds if pol]
            ok = ok and "per" in gs
    ck.ob("C18.5", fn, pr[0].ast if pr else fn.node, ok, "under PER the new priorities are the element-wise loss plus prior_eps")
    # position 1 is a local that only ever holds experiences["idxs"] or None; position 2 a local that only ever holds None or the priorities above
    def _ret_ok(r: Node) -> bool:
        e = r.ast.value.elts
        if len(e) != 3 or not isinstance(e[1], ast.Name) or dotted(e[1]) == dotted(e[2]):
            return False
        d1 = cfg.defs_reaching(r, e[1].id)
        v1 = [cfg.value_of_def(d, e[1].id) for d in d1]
        if _is_none(e[2]):
            # a literal None for the priorities is the same thing on a path where PER is known to be off
            d2 = [d for d in pr if any(ast.unparse(g) == "per" and not pol for g, pol, _ in cfg.guards_at(r))]
        elif isinstance(e[2], ast.Name):
            d2 = cfg.defs_reaching(r, e[2].id)
        else:
            return False
        return bool(d1) and bool(d2) and all(v is not None and (_is_none(v) or _is_key_of(v, "experiences", "idxs")) for v in v1) \
            and any(v is not None and not _is_none(v) for v in v1) \
            and all(d in pr or (d.kind == "stmt" and isinstance(d.ast, ast.Assign) and _is_none(d.ast.value)) for d in d2)
    ck.ob("C18.5", fn, rets[0].ast if rets else fn.node, bool(rets) and all(_ret_ok(r) for r in rets),
          "learn returns (loss, indices, new priorities)")
    # combined reward: both element-wise losses are added
    adds = [n for n in cfg.live_nodes() if n.kind == "stmt" and isinstance(n.ast, ast.AugAssign) and dotted(n.ast.target) in one_names]
    ck.ob("C18.5", fn, adds[0].ast if adds else fn.node, len(adds) == 2 and all(isinstance(a.ast.op, ast.Add) and dotted(a.ast.value) in n_names for a in adds),
          "with combined targets the 1-step and n-step element-wise losses are summed")
    # PER weights multiply the element-wise loss before the mean
    # roles: the loss is what is back-propagated (X.backward() / accelerator.backward(X)); the weights are experiences["weights"]
    loss_names = {dotted(c.func.value) for c in calls_in(fn.node) if last_attr(c) == "backward" and not c.args and isinstance(c.func.value, ast.Name)} | \
                 {dotted(c.args[0]) for c in calls_in(fn.node) if call_name(c) == "self.accelerator.backward" and len(c.args) == 1 and isinstance(c.args[0], ast.Name)}
    w_names = {n.ast.targets[0].id for n in cfg.live_nodes() if n.kind == "stmt" and isinstance(n.ast, ast.Assign) and isinstance(n.ast.targets[0], ast.Name)
               and _is_key_of(n.ast.value, "experiences", "weights")}
    lw = [n for n in cfg.live_nodes() if n.kind == "stmt" and isinstance(n.ast, ast.Assign) and dotted(n.ast.targets[0]) in loss_names
          and any(isinstance(x, ast.Name) and x.id in w_names for x in ast.walk(n.ast.value))]
    # the property speaks about the per-sample loss handed back as priorities: the importance weights may enter the scalar training loss only
    tainted = [n for n in cfg.live_nodes() if n.kind == "stmt" and isinstance(n.ast, (ast.Assign, ast.AugAssign))
               and dotted(n.ast.targets[0] if isinstance(n.ast, ast.Assign) else n.ast.target) not in loss_names
               and any(isinstance(x, ast.Name) and x.id in w_names for x in ast.walk(n.ast.value))
               and not _is_key_of(n.ast.value, "experiences", "weights")]
    ck.ob("C18.5", fn, (tainted or lw or [None])[0].ast if (tainted or lw) else fn.node, bool(lw) and not tainted,
          "under PER the importance weights enter the scalar training loss only: the element-wise loss that becomes the new priorities is left unweighted",
          detail=(f"`{short(tainted[0].ast, 80)}` multiplies the weights into a per-sample quantity: the priorities handed back are w_i * CE_i instead of the cross-entropy"
                  if tainted else "the sampled weights are not used in the loss that is back-propagated"))


def _alternatives(v: ast.AST, _conds: Tuple[Tuple[str, bool], ...] = ()) -> List[Tuple[ast.AST, Tuple[Tuple[str, bool], ...]]]:
    """the values a (nested) conditional expression can take, each with the (test text, polarity) pairs under which it is taken; `not c` flips the polarity."""
    if isinstance(v, ast.IfExp):
        test, pol = v.test, True
        while isinstance(test, ast.UnaryOp) and isinstance(test.op, ast.Not):
            test, pol = test.operand, not pol
        txt = ast.unparse(test)
        return _alternatives(v.body, _conds + ((txt, pol),)) + _alternatives(v.orelse, _conds + ((txt, not pol),))
    return [(v, _conds)]


def _is_none(v: ast.AST) -> bool:
    return isinstance(v, ast.Constant) and v.value is None


def _is_key_of(v: ast.AST, param: str, key: str) -> bool:
    """v is `<param>["<key>"]`."""
    return isinstance(v, ast.Subscript) and isinstance(v.value, ast.Name) and v.value.id == param and const_value(v.slice) == key


_RF = "agilerl/algorithms/dqn_rainbow.py"
VARIANTS = [
    ("per-weights-squeezed-in-loss-ok", _RF, "            loss = torch.mean(elementwise_loss * weights)", "            loss = torch.mean(elementwise_loss * weights.view(-1))", "silent", None),
    ("projection-upper-is-lower-plus-one-capped-upper", _RF, "            u = b.ceil().long()\n", "            u = (L + 1).clamp(max=self.num_atoms - 1)\n", "fire", "C18.2"),
    ("weights-swapped", _RF, "0, (L + offset).view(-1), (target_q_dist * (u.float() - b)).view(-1)", "0, (L + offset).view(-1), (target_q_dist * (b - L.float())).view(-1)", "fire", "C18.2"),
    ("upper-index-gets-lower-weight", _RF, "0, (u + offset).view(-1), (target_q_dist * (b - L.float())).view(-1)", "0, (L + offset).view(-1), (target_q_dist * (b - L.float())).view(-1)", "fire", "C18.2"),
    ("weight-without-prob", _RF, "(target_q_dist * (b - L.float())).view(-1)", "(b - L.float()).view(-1)", "fire", "C18.2"),
    ("no-clamp-tz", _RF, "            t_z = t_z.clamp(min=self.v_min, max=self.v_max)\n", "", "fire", "C18.1"),
    ("clamp-wrong-range", _RF, "t_z = t_z.clamp(min=self.v_min, max=self.v_max)", "t_z = t_z.clamp(min=0, max=self.v_max)", "fire", "C18.1"),
    ("b-without-vmin", _RF, "b = ((t_z - self.v_min) / self.delta_z)", "b = (t_z / self.delta_z)", "fire", "C18.1"),
    ("fixup-order-swapped", _RF, "            L[(u > 0) * (L == u)] -= 1\n            u[(L < (self.num_atoms - 1)) * (L == u)] += 1\n", "            u[(L < (self.num_atoms - 1)) * (L == u)] += 1\n            L[(u > 0) * (L == u)] -= 1\n", "fire", "C18.3"),
    ("fixup-upper-missing", _RF, "            u[(L < (self.num_atoms - 1)) * (L == u)] += 1\n", "", "fire", "C18.3"),
    ("fixup-bound-off-by-one", _RF, "u[(L < (self.num_atoms - 1)) * (L == u)] += 1", "u[(L < self.num_atoms) * (L == u)] += 1", "fire", "C18.3"),
    ("offset-stride-batch", _RF, "                    (self.batch_size - 1) * self.num_atoms,\n", "                    (self.batch_size - 1) * self.batch_size,\n", "fire", "C18.4"),
    ("index-unclamped", _RF, ".clamp(0, self.num_atoms - 1)", "", "fire", "C18.6"),
    ("target-dist-from-eval", _RF, "target_q_dist = self.actor_target(next_states, q=False)", "target_q_dist = self.actor(next_states, q=False)", "fire", "C18.5"),
    ("argmax-from-current-obs", _RF, "next_actions = self.actor(next_states).argmax(1)", "next_actions = self.actor(states).argmax(1)", "fire", "C18.5"),
    ("loss-sign", _RF, "elementwise_loss = -(proj_dist * log_p).sum(1)", "elementwise_loss = (proj_dist * log_p).sum(1)", "fire", "C18.5"),
    ("nstep-gamma-plain", _RF, "                n_gamma = self.gamma**self.n_step\n                n_step_elementwise_loss = self._dqn_loss(\n                    n_states, n_actions, n_rewards, n_next_states, n_dones, n_gamma\n                )\n                if self.combined_reward:\n                    elementwise_loss += n_step_elementwise_loss\n                else:\n                    elementwise_loss = n_step_elementwise_loss\n\n            loss = torch.mean(elementwise_loss * weights)",
     "                n_gamma = self.gamma\n                n_step_elementwise_loss = self._dqn_loss(\n                    n_states, n_actions, n_rewards, n_next_states, n_dones, n_gamma\n                )\n                if self.combined_reward:\n                    elementwise_loss += n_step_elementwise_loss\n                else:\n                    elementwise_loss = n_step_elementwise_loss\n\n            loss = torch.mean(elementwise_loss * weights)", "fire", "C18.5"),
    ("priorities-without-eps", _RF, "new_priorities = loss_for_prior + self.prior_eps", "new_priorities = loss_for_prior", "fire", "C18.5"),
    ("per-weights-dropped", _RF, "loss = torch.mean(elementwise_loss * weights)", "loss = torch.mean(elementwise_loss)", "fire", "C18.5"),
    ("return-order-swapped", _RF, "return loss.item(), idxs, new_priorities", "return loss.item(), new_priorities, idxs", "fire", "C18.5"),
    ("combined-adds-one-step-twice", _RF, "                if self.combined_reward:\n                    elementwise_loss += n_step_elementwise_loss\n                else:\n                    elementwise_loss = n_step_elementwise_loss\n\n            loss = torch.mean(elementwise_loss)",
     "                if self.combined_reward:\n                    elementwise_loss += elementwise_loss\n                else:\n                    elementwise_loss = n_step_elementwise_loss\n\n            loss = torch.mean(elementwise_loss)", "fire", "C18.5"),
    ("proj-zeros-from-support", _RF, "proj_dist = torch.zeros(target_q_dist.size(), device=self.device)", "proj_dist = torch.zeros(self.support.size(), device=self.device)", "fire", "C18.4"),
    ("learn-locals-renamed-ok", _RF, "            loss_for_prior = elementwise_loss.detach().cpu().numpy()\n            new_priorities = loss_for_prior + self.prior_eps\n\n        return loss.item(), idxs, new_priorities",
     "            loss_for_prior = elementwise_loss.detach().cpu().numpy()\n            prios = loss_for_prior + self.prior_eps\n            return loss.item(), idxs, prios\n\n        return loss.item(), idxs, None", "silent", None),
    ("clamp-L-u-ok", _RF, ".clamp(0, self.num_atoms - 1)\n\n            # Find the neighbouring indices of b\n            L = b.floor().long()\n            u = b.ceil().long()\n",
     "\n\n            # Find the neighbouring indices of b\n            L = b.floor().long()\n            u = b.ceil().long()\n            L = L.clamp(0, self.num_atoms - 1)\n            u = u.clamp(0, self.num_atoms - 1)\n", "silent", None),
    # ---- round 3b
    ("projection-fancy-index-augassign", _RF, "            proj_dist.view(-1).index_add_(\n                0, (L + offset).view(-1), (target_q_dist * (u.float() - b)).view(-1)\n            )\n",
     "            proj_dist.view(-1)[(L + offset).view(-1)] += (target_q_dist * (u.float() - b)).view(-1)\n", "fire", "C18.8"),
    ("projection-index-put-without-accumulate", _RF, "            proj_dist.view(-1).index_add_(\n                0, (u + offset).view(-1), (target_q_dist * (b - L.float())).view(-1)\n            )\n",
     "            proj_dist.view(-1).index_put_(((u + offset).view(-1),), (target_q_dist * (b - L.float())).view(-1))\n", "fire", "C18.8"),
    ("projection-scatter-add-ok", _RF, "            proj_dist.view(-1).index_add_(\n                0, (u + offset).view(-1), (target_q_dist * (b - L.float())).view(-1)\n            )\n",
     "            proj_dist.view(-1).scatter_add_(\n                0, (u + offset).view(-1), (target_q_dist * (b - L.float())).view(-1)\n            )\n", "silent", None),
    ("projection-flat-view-temporary-ok", _RF,
     "            proj_dist.view(-1).index_add_(\n                0, (L + offset).view(-1), (target_q_dist * (u.float() - b)).view(-1)\n            )\n            proj_dist.view(-1).index_add_(\n",
     "            flat = proj_dist.view(-1)\n            flat.index_add_(\n                0, (L + offset).view(-1), (target_q_dist * (u.float() - b)).view(-1)\n            )\n            flat.index_add_(\n", "silent", None),
    ("projection-readable-locals-and-temporaries-ok", _RF,
     "            L = b.floor().long()\n            u = b.ceil().long()\n\n            # Shape of projected q distribution is (batch_size, num_atoms) as we have argmaxed over actions\n            # Fix disappearing probability mass\n"
     "            L[(u > 0) * (L == u)] -= 1\n            u[(L < (self.num_atoms - 1)) * (L == u)] += 1\n            offset = (\n                torch.linspace(\n                    0,\n"
     "                    (self.batch_size - 1) * self.num_atoms,\n                    self.batch_size,\n                    device=self.device,\n                )\n                .long()\n"
     "                .unsqueeze(1)\n                .expand(self.batch_size, self.num_atoms)\n            )\n            proj_dist = torch.zeros(target_q_dist.size(), device=self.device)\n\n"
     "            proj_dist.view(-1).index_add_(\n                0, (L + offset).view(-1), (target_q_dist * (u.float() - b)).view(-1)\n            )\n"
     "            proj_dist.view(-1).index_add_(\n                0, (u + offset).view(-1), (target_q_dist * (b - L.float())).view(-1)\n            )\n",
     "            lower = b.floor().long()\n            upper = b.ceil().long()\n            lower[(upper > 0) * (lower == upper)] -= 1\n            upper[(lower < (self.num_atoms - 1)) * (lower == upper)] += 1\n"
     "            lower_mass = target_q_dist * (upper.float() - b)\n            upper_mass = target_q_dist * (b - lower.float())\n            last_row_start = (self.batch_size - 1) * self.num_atoms\n"
     "            row_start = torch.linspace(0, last_row_start, self.batch_size, device=self.device).long()\n            offset = row_start.unsqueeze(1).expand(self.batch_size, self.num_atoms)\n"
     "            proj_dist = torch.zeros(target_q_dist.size(), device=self.device)\n            flat_proj_dist = proj_dist.view(-1)\n"
     "            flat_proj_dist.index_add_(0, (lower + offset).view(-1), lower_mass.view(-1))\n            flat_proj_dist.index_add_(0, (upper + offset).view(-1), upper_mass.view(-1))\n", "silent", None),
    ("fixup-undone-by-rebinding-to-earlier-copies", _RF,
     "            L[(u > 0) * (L == u)] -= 1\n            u[(L < (self.num_atoms - 1)) * (L == u)] += 1\n            offset = (\n",
     "            L0, u0 = L.clone(), u.clone()\n            L[(u > 0) * (L == u)] -= 1\n            u[(L < (self.num_atoms - 1)) * (L == u)] += 1\n            L, u = L0, u0\n            offset = (\n", "fire", "C18.3"),
    ("fixup-mask-respelled-ok", _RF, "            L[(u > 0) * (L == u)] -= 1\n            u[(L < (self.num_atoms - 1)) * (L == u)] += 1\n",
     "            L[(L == u) & (0 < L)] -= 1\n            same = u == L\n            u[same & (u <= self.num_atoms - 2)] += 1\n", "silent", None),
    ("fixup-stale-equality-mask", _RF, "            L[(u > 0) * (L == u)] -= 1\n            u[(L < (self.num_atoms - 1)) * (L == u)] += 1\n",
     "            on_atom = L == u\n            L[on_atom & (u > 0)] -= 1\n            u[on_atom & (u < (self.num_atoms - 1))] += 1\n", "fire", "C18.3"),
    ("offset-broadcast-over-batch", _RF, "                .expand(self.batch_size, self.num_atoms)\n", "                .expand(self.batch_size, self.batch_size)\n", "fire", "C18.4"),
]
# ---- round 4: arguments of the loss helper by keyword, priorities as a conditional expression, the two writes as a loop over a literal table
_ONE_STEP = "            new_priorities = None\n            if self.combined_reward or not n_step:\n                elementwise_loss = self._dqn_loss(\n                    states, actions, rewards, next_states, dones, self.gamma\n"
_WRITES = ("            proj_dist.view(-1).index_add_(\n                0, (L + offset).view(-1), (target_q_dist * (u.float() - b)).view(-1)\n            )\n"
           "            proj_dist.view(-1).index_add_(\n                0, (u + offset).view(-1), (target_q_dist * (b - L.float())).view(-1)\n            )\n")
_PRIO = "        if per:\n            loss_for_prior = elementwise_loss.detach().cpu().numpy()\n            new_priorities = loss_for_prior + self.prior_eps\n"
VARIANTS += [
    ("one-step-discount-by-keyword-ok", _RF, _ONE_STEP,
     "            new_priorities = None\n            if self.combined_reward or not n_step:\n                elementwise_loss = self._dqn_loss(\n                    states, actions, rewards, dones=dones, gamma=self.gamma, next_states=next_states\n", "silent", None),
    ("one-step-discount-by-keyword-is-n-step-discount", _RF, _ONE_STEP,
     "            new_priorities = None\n            if self.combined_reward or not n_step:\n                elementwise_loss = self._dqn_loss(\n                    states, actions, rewards, next_states, dones, gamma=self.gamma**self.n_step\n", "fire", "C18.5"),
    ("priorities-conditional-expression-ok", _RF, _PRIO,
     "        new_priorities = (\n            elementwise_loss.detach().cpu().numpy() + self.prior_eps if per else None\n        )\n", "silent", None),
    ("priorities-conditional-expression-inverted", _RF, _PRIO,
     "        new_priorities = (\n            elementwise_loss.detach().cpu().numpy() + self.prior_eps if not per else None\n        )\n", "fire", "C18.5"),
    ("projection-writes-as-table-loop-ok", _RF, _WRITES,
     "            for atom_idx, share in ((L, u.float() - b), (u, b - L.float())):\n                proj_dist.view(-1).index_add_(\n                    0, (atom_idx + offset).view(-1), (target_q_dist * share).view(-1)\n                )\n", "silent", None),
    ("projection-table-loop-both-rows-lower-atom", _RF, _WRITES,
     "            for atom_idx, share in ((L, u.float() - b), (L, b - L.float())):\n                proj_dist.view(-1).index_add_(\n                    0, (atom_idx + offset).view(-1), (target_q_dist * share).view(-1)\n                )\n", "fire", "C18.2"),
    ("projection-table-loop-weights-swapped", _RF, _WRITES,
     "            for atom_idx, share in ((L, b - L.float()), (u, u.float() - b)):\n                proj_dist.view(-1).index_add_(\n                    0, (atom_idx + offset).view(-1), (target_q_dist * share).view(-1)\n                )\n", "fire", "C18.2"),
    ("projection-table-loop-one-row-only", _RF, _WRITES,
     "            for atom_idx, share in ((L, u.float() - b),):\n                proj_dist.view(-1).index_add_(\n                    0, (atom_idx + offset).view(-1), (target_q_dist * share).view(-1)\n                )\n", "fire", "C18.2"),
    ("projection-table-loop-index-tensor-updated-in-the-body", _RF, _WRITES,
     "            for atom_idx, share in ((L, u.float() - b), (u, b - L.float())):\n                proj_dist.view(-1).index_add_(\n                    0, (atom_idx + offset).view(-1), (target_q_dist * share).view(-1)\n                )\n                u += 1\n", "fire", "C18.2"),
    ("projection-table-loop-fancy-index-augassign", _RF, _WRITES,
     "            for atom_idx, share in ((L, u.float() - b), (u, b - L.float())):\n                proj_dist.view(-1)[(atom_idx + offset).view(-1)] += (target_q_dist * share).view(-1)\n", "fire", "C18.8"),
]
