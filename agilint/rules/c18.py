"""C18 — Rainbow's distributional target conserves probability mass and expected value."""
from __future__ import annotations

import ast
from typing import Dict, List, Optional, Set, Tuple

from ..cfg import CFG, Node
from ..core import AnalysisError, Cls, Fn, Repo, call_name, calls_in, const_value, dotted, get_kw, last_attr, short, walk_no_nested
from ..registry import extract
from ..report import Check
from ..terms import Atom, Poly, TermBuilder, expand_phi, mentions, single_atom, walk_atoms

RB = "agilerl.algorithms.dqn_rainbow"


def _expr(s: str) -> ast.AST:
    return ast.parse(s, mode="eval").body


def run(ck: Check, repo: Repo) -> None:
    # which distribution is projected: the one of the target network held at entry of learn(), evaluated on the next observations of the SAME (1-step or
    # n-step) batch as reward and done.  These are the C08 obligations on RainbowDQN (batch coherence, soft update after the step); they are taken over here
    from dataclasses import replace
    from . import c08
    sub8 = Check("C08", ck.tier, ck.repo_root)
    sub8.known = []
    c08.run(sub8, repo)
    ck.rule("C18.7", "the source distribution and the Bellman-shifted support come from one batch and from the target network as held at entry of learn(): the 1-step, n-step "
                     "and combined losses read observation, action, reward, next observation and done from the same sampled batch, and the soft update follows the optimizer "
                     "step (obligations of C08.4 / C08.7 on RainbowDQN, shared with the C08 check)")
    taken = [replace(o, rule="C18.7") for o in sub8.obs if o.rule in ("C08.4", "C08.7") and o.qualname.startswith("RainbowDQN")]
    if len(taken) < 10:
        raise AnalysisError(f"C18.7: only {len(taken)} obligations taken over from C08.4 / C08.7")
    ck.obs.extend(taken)
    ck.not_decided += ["conservation of total mass and of the mean as numeric facts (needs sum p = 1 and exact arithmetic)",
                       "behaviour of DuelingDistributionalMLP's softmax clamp"]
    ck.trusted += ["Tensor.index_add_ accumulates into the receiver at the given flat indices and raises IndexError for an index outside the receiver"]
    ck.rule("C18.1", "the shifted support is clamped to [v_min, v_max] before the fractional atom index b = (t_z - v_min) / delta_z is formed; "
                     "delta_z = (v_max - v_min)/(num_atoms - 1) and the support is linspace(v_min, v_max, num_atoms)")
    ck.rule("C18.2", "neighbour weights are complementary: the lower atom floor(b) receives p*(upper - b), the upper atom ceil(b) receives p*(b - lower)")
    ck.rule("C18.3", "the fix-up for integral b first lowers the lower index where upper > 0, then raises the upper index where lower < num_atoms - 1, in that order, before any mass is written")
    ck.rule("C18.4", "per-sample offsets into the flattened projection have stride num_atoms and the projection buffer has the shape of the source distribution")
    ck.rule("C18.5", "the source distribution is the shared network's distribution of the eval network's arg-max next action; the loss is "
                     "-sum(projection * log p(action taken)); new priorities = element-wise loss + prior_eps; the n-step target discounts with gamma**n_step")
    ck.rule("C18.6", "bounded index write: an atom index derived from a floating-point division is clamped to [0, num_atoms - 1] before index_add_")
    fn = repo.fn(RB, "RainbowDQN._dqn_loss")
    cfg = CFG(fn.node)
    tb = TermBuilder(repo, fn, cfg=cfg, depth=1)
    init = repo.fn(RB, "RainbowDQN.__init__")
    isrc = ast.unparse(init.node)
    ck.ob("C18.1", init, init.node, "self.delta_z = (self.v_max - self.v_min) / (self.num_atoms - 1)" in isrc, "delta_z is the atom spacing of the support", construct="delta_z definition")
    ck.ob("C18.1", init, init.node, "self.support = torch.linspace(self.v_min, self.v_max, self.num_atoms" in isrc, "the support is num_atoms evenly spaced atoms from v_min to v_max", construct="support definition")

    # ---- locate floor / ceil of the fractional index
    fl = [c for c in calls_in(fn.node) if last_attr(c) == "floor"]
    ce = [c for c in calls_in(fn.node) if last_attr(c) == "ceil"]
    if len(fl) == 1 and not ce:
        # recognised alternative family: upper = lower + 1.  It keeps u - L = 1 only if the LOWER index is capped at num_atoms - 2;
        # capping the upper index instead makes both weights (u - b) and (b - L) vanish at b = num_atoms - 1 (a target on v_max loses its mass)
        fnode = cfg.node_of(fl[0])
        lo_names = [k for k, _ in cfg.defs_at(fnode)] if fnode is not None else []
        succ = [a for a in walk_no_nested(fn.node) if isinstance(a, ast.Assign) and lo_names and any(
            isinstance(x, ast.BinOp) and isinstance(x.op, ast.Add) and {dotted(x.left), ast.unparse(x.right)} == {lo_names[0], "1"} for x in ast.walk(a.value))]
        if succ:
            lo_def = fnode.ast.value if isinstance(fnode.ast, ast.Assign) else None
            lo_capped = lo_def is not None and any(isinstance(x, ast.Call) and last_attr(x) in ("clamp", "clip", "clamp_max") and "self.num_atoms - 2" in ast.unparse(x) for x in ast.walk(lo_def))
            ck.ob("C18.2", fn, succ[0], lo_capped, "with upper = lower + 1 the lower index is capped at num_atoms - 2, so the two projection weights always sum to one",
                  detail=f"`{short(succ[0], 80)}`: the lower index is not capped, so for b = num_atoms - 1 (a target atom on or beyond v_max) lower = upper and both weights "
                         "(u - b), (b - L) are zero: that atom's probability mass disappears from the projected distribution",
                  construct="_dqn_loss: upper = lower + 1 construction")
            raise AnalysisError("_dqn_loss: projection uses the `upper = lower + 1` form; the remaining floor/ceil obligations do not apply to it")
    if len(fl) != 1 or len(ce) != 1:
        raise AnalysisError(f"_dqn_loss: expected one floor and one ceil of the fractional index (found {len(fl)}, {len(ce)})")
    fnode, cnode = cfg.node_of(fl[0]), cfg.node_of(ce[0])
    Bf = tb.term(fl[0].func.value, fnode)
    Bc = tb.term(ce[0].func.value, cnode)
    ck.ob("C18.2", fn, ce[0], Bf == Bc, "lower and upper atom are floor and ceil of the same fractional index", detail=f"{Bf.key()[:100]} vs {Bc.key()[:100]}")
    B = Bf
    lo_name = [k for k, _ in cfg.defs_at(fnode)][0]
    hi_name = [k for k, _ in cfg.defs_at(cnode)][0]
    # ---- C18.1 form of b
    cl = [a for a, _, _ in walk_atoms(tb, B) if a.kind == "call" and a.name in ("clamp", "clip")]
    dz = tb.term(_expr("self.delta_z"), fnode)
    vmin = tb.term(_expr("self.v_min"), fnode)
    vmax = tb.term(_expr("self.v_max"), fnode)
    ok = False
    detail = f"b = {B.key()[:200]}"
    tz_atom = None
    for a in cl:
        cand = (Poly.atom(a.key) - vmin) * dz.inv()
        if _strip_index_clamp(tb, B) == cand:
            ok = True
            tz_atom = a
    ck.ob("C18.1", fn, fl[0], ok, "b = (clamp(t_z) - v_min) / delta_z", detail=detail)
    if tz_atom is not None:
        n = tz_atom.node
        kws = {k.arg: k.value for k in n.keywords} if isinstance(n, ast.Call) else {}
        args = list(n.args) if isinstance(n, ast.Call) else []
        lo = kws.get("min", args[0] if args else None)
        hi = kws.get("max", args[1] if len(args) > 1 else None)
        ck.ob("C18.1", fn, n, lo is not None and hi is not None and dotted(lo) == "self.v_min" and dotted(hi) == "self.v_max",
              "the shifted support is clamped to [self.v_min, self.v_max]", detail=f"clamp({short(lo, 30)}, {short(hi, 30)})")
        inner = tz_atom.sub[0]
        ck.ob("C18.1", fn, n, "role:reward" in tb.origins(inner) and "attr:self.support" in tb.origins(inner), "what is clamped is reward + discounted support")

    reg = extract(repo, RB, "RainbowDQN")
    # ---- C18.2 neighbour weights
    adds = [c for c in calls_in(fn.node) if last_attr(c) == "index_add_"]
    ck.ob("C18.2", fn, fn.node, len(adds) == 2, "mass is written by exactly two index_add_ calls (lower and upper atom)", construct="index_add_ calls")
    roles = {}
    for c in adds:
        n = cfg.node_of(c)
        if len(c.args) != 3:
            ck.ob("C18.2", fn, c, False, "index_add_(dim, index, source) form")
            continue
        I = tb.term(c.args[1], n)
        W = tb.term(c.args[2], n)
        is_lo = mentions(tb, I, lambda a: a.kind == "call" and a.name == "floor")
        is_hi = mentions(tb, I, lambda a: a.kind == "call" and a.name == "ceil")
        ck.ob("C18.2", fn, c, is_lo != is_hi, "the index derives from exactly one of floor(b) / ceil(b)")
        roles[c] = ("lo" if is_lo else "hi", I, W, n)
        ck.ob("C18.4", fn, c, const_value(c.args[0]) == 0 and last_attr(c.func.value) in ("view", "reshape", "flatten"), "mass is accumulated into the flattened projection along dim 0")
    ck.ob("C18.2", fn, adds[0] if adds else fn.node, len(roles) == 2 and {r[0] for r in roles.values()} == {"lo", "hi"},
          "one write addresses the lower atom and the other the upper atom", detail=f"index kinds: {[r[0] for r in roles.values()]}", construct="lower/upper write pair")
    if len(roles) == 2 and {r[0] for r in roles.values()} == {"lo", "hi"}:
        for c, (which, I, W, n) in roles.items():
            lo_t = tb.term(ast.Name(id=lo_name, ctx=ast.Load()), n)
            hi_t = tb.term(ast.Name(id=hi_name, ctx=ast.Load()), n)
            P = [k for k in W.atoms() if k in tb.atoms and "role:next_obs" in tb.atoms[k].origins and k not in B.atoms()]
            okp = len(P) == 1
            want = None
            if okp:
                p = Poly.atom(P[0])
                want = p * (hi_t - B) if which == "lo" else p * (B - lo_t)
            ck.ob("C18.2", fn, c, okp and W == want,
                  f"the {'lower' if which == 'lo' else 'upper'} atom receives source probability times ({'upper - b' if which == 'lo' else 'b - lower'})",
                  detail=f"weight = {W.key()[:180]}" + (f" ; expected {want.key()[:180]}" if want is not None else ""))
            off = I - (lo_t if which == "lo" else hi_t)
            roles[c] = roles[c] + (off,)
        offs = [r[4] for r in roles.values() if len(r) > 4]
        ck.ob("C18.4", fn, adds[0], len(offs) == 2 and offs[0] == offs[1] and len(offs[0].t) == 1, "both writes use the same per-sample offset", detail=" / ".join(o.key()[:80] for o in offs))
        # ---- C18.4 stride
        if offs:
            _offset(ck, tb, fn, cfg, offs[0], roles[adds[0]][3])
    # projection buffer shape
    z = [n for n in cfg.live_nodes() if n.kind == "stmt" and isinstance(n.ast, ast.Assign) and isinstance(n.ast.value, ast.Call) and call_name(n.ast.value) in ("torch.zeros", "torch.zeros_like")
         and adds and dotted(n.ast.targets[0]) == dotted(adds[0].func.value.func.value)]
    # "the source distribution" by role: a local whose definition reaching the zeros(...) statement is the shared network's
    # distribution call or the row selection out of it (sel below), whatever it is called
    ok = bool(z) and any(isinstance(x, ast.Name) and any(_is_source_def(cfg, d, reg.shared_attrs()) for d in cfg.defs_reaching(z[0], x.id))
                         for x in ast.walk(z[0].ast.value))
    ck.ob("C18.4", fn, z[0].ast if z else fn.node, ok, "the projection starts from zeros shaped like the source distribution")

    # ---- C18.3 fix-up
    fix = [n for n in cfg.live_nodes() if n.kind == "stmt" and isinstance(n.ast, ast.AugAssign) and isinstance(n.ast.target, ast.Subscript)
           and dotted(n.ast.target.value) in (lo_name, hi_name)]
    ck.ob("C18.3", fn, fn.node, len(fix) == 2, "two fix-up statements handle integral b", construct="fix-up statements")
    if len(fix) == 2:
        f1, f2 = sorted(fix, key=lambda n: n.lineno)
        N1 = tb.term(_expr("self.num_atoms - 1"), f1)
        def mask_terms(n):
            m = n.ast.target.slice
            parts = []
            if isinstance(m, ast.BinOp) and isinstance(m.op, (ast.Mult, ast.BitAnd)):
                parts = [m.left, m.right]
            return [ast.unparse(p).replace(" ", "").replace("(", "").replace(")", "") for p in parts]
        m1, m2 = mask_terms(f1), mask_terms(f2)
        eq = {f"{lo_name}=={hi_name}", f"{hi_name}=={lo_name}"}
        ok1 = dotted(f1.ast.target.value) == lo_name and isinstance(f1.ast.op, ast.Sub) and const_value(f1.ast.value) == 1 and any(x in eq for x in m1) and any(x in (f"{hi_name}>0", f"0<{hi_name}") for x in m1)
        ok2 = dotted(f2.ast.target.value) == hi_name and isinstance(f2.ast.op, ast.Add) and const_value(f2.ast.value) == 1 and any(x in eq for x in m2) \
            and any(x == f"{lo_name}<self.num_atoms-1" for x in m2)
        ck.ob("C18.3", fn, f1.ast, ok1, "first: lower -= 1 where (upper > 0) and (lower == upper)", detail=f"mask {m1}")
        ck.ob("C18.3", fn, f2.ast, ok2, "then: upper += 1 where (lower < num_atoms - 1) and (lower == upper)", detail=f"mask {m2}")
        ck.ob("C18.3", fn, f2.ast, cfg.dominates(f1, f2) and all(cfg.dominates(f2, cfg.node_of(c)) for c in adds), "the order is lower-fix, upper-fix, then the two writes")

    # ---- C18.6 bounded index
    bounded = _index_clamped(tb, B, fn) or any(_name_clamped(cfg, fn, nm) for nm in (lo_name, hi_name))
    both = _index_clamped(tb, B, fn) or all(_name_clamped(cfg, fn, nm) for nm in (lo_name, hi_name))
    ck.ob("C18.6", fn, fl[0], both,
          "the fractional index (or both integer indices) is clamped to [0, num_atoms - 1] before it addresses the projection",
          detail="b = (t_z - v_min)/delta_z is a float32 quotient with a float64-derived delta_z: for many (num_atoms, v_min, v_max) a target that "
                 "hits v_max gives b slightly above num_atoms - 1, ceil(b) = num_atoms and index_add_ raises IndexError",
          construct="index bound before index_add_")

    # ---- C18.5
    shared = reg.shared_attrs()
    evals = reg.eval_attrs()
    src_calls = [c for c in calls_in(fn.node) if dotted(c.func).startswith("self.") and dotted(c.func)[5:] in shared]
    ck.ob("C18.5", fn, src_calls[0] if src_calls else fn.node, len(src_calls) == 1 and const_value(get_kw(src_calls[0], "q")) is False,
          "the source distribution is the shared network called for distributions (q=False)")
    am = [c for c in calls_in(fn.node) if last_attr(c) == "argmax"]
    ok = False
    for c in am:
        n = cfg.node_of(c)
        t = tb.term(c.func.value, n)
        a = single_atom(tb, t)
        ok = a is not None and a.kind == "call" and a.name in evals and "next_obs" in tb.roles(t) and const_value(c.args[0] if c.args else get_kw(c, "dim")) == 1
    ck.ob("C18.5", fn, am[0] if am else fn.node, ok, "the next action is the arg-max over actions of the eval network's Q-values of the next observation")
    # selection of the source distribution by that action
    sel = [n for n in cfg.live_nodes() if n.kind == "stmt" and isinstance(n.ast, ast.Assign) and isinstance(n.ast.value, ast.Subscript) and isinstance(n.ast.value.slice, ast.Tuple)
           and src_calls and cfg.node_of(src_calls[0]) in cfg.defs_reaching(n, dotted(n.ast.value.value))]
    ok = False
    for n in sel:
        e = n.ast.value.slice.elts
        t1 = tb.term(e[1], n)
        ok = len(e) == 2 and ast.unparse(e[0]) == "range(self.batch_size)" and mentions(tb, t1, lambda a: a.kind == "call" and a.name == "argmax")
    ck.ob("C18.5", fn, sel[0].ast if sel else fn.node, ok, "row i of the source is the shared network's distribution for sample i's arg-max action")
    # loss
    rets = [n for n in cfg.live_nodes() if n.kind == "stmt" and isinstance(n.ast, ast.Return)]
    for r in rets:
        t = tb.term(r.ast.value, r)
        a = None
        neg = -t
        a = single_atom(tb, neg)
        ok = a is not None and a.kind == "call" and a.name == "sum"
        if ok:
            prod = a.sub[0]
            names = {tb.atoms[k].kind + ":" + tb.atoms[k].name for m in prod.t for k, _ in m if k in tb.atoms}
            ks = [k for m in prod.t for k, _ in m if k in tb.atoms]
            logp = [k for k in ks if "role:obs" in tb.atoms[k].origins and "role:next_obs" not in tb.atoms[k].origins and tb.atoms[k].kind == "idx"]
            proj = [k for k in ks if k not in logp]
            ok = len(prod.t) == 1 and len(logp) == 1 and len(proj) == 1 and "actions" in tb.atoms[logp[0]].key
        ck.ob("C18.5", fn, r.ast, ok, "the element-wise loss is -sum over atoms of projection * log-probability of the action taken", detail=t.key()[:200])
    lp = [c for c in calls_in(fn.node) if dotted(c.func).startswith("self.") and dotted(c.func)[5:] in evals and const_value(get_kw(c, "log")) is True]
    ck.ob("C18.5", fn, lp[0] if lp else fn.node, len(lp) == 1 and const_value(get_kw(lp[0], "q")) is False and "obs" in tb.roles(tb.term(lp[0], cfg.node_of(lp[0])))
          and "next_obs" not in tb.roles(tb.term(lp[0].args[0], cfg.node_of(lp[0]))),
          "log-probabilities come from the eval network on the current observation")
    _learn(ck, repo)


def _is_source_def(cfg: CFG, d: Node, shared: List[str], _depth: int = 0) -> bool:
    """d binds the distribution of a shared (target) network: `x = self.<shared>(...)`, or `x = y[..., ...]` with y bound that way."""
    if d.kind != "stmt" or not isinstance(d.ast, ast.Assign):
        return False
    v = d.ast.value
    if isinstance(v, ast.Call):
        return dotted(v.func).startswith("self.") and dotted(v.func)[5:] in shared
    if isinstance(v, ast.Subscript) and isinstance(v.value, ast.Name):
        return _depth < 4 and any(x is not d and _is_source_def(cfg, x, shared, _depth + 1) for x in cfg.defs_reaching(d, v.value.id))
    return False


def _strip_index_clamp(tb: TermBuilder, B: Poly) -> Poly:
    """b with an outer clamp(…, 0, num_atoms - 1) removed (the C18.6 repair keeps C18.1 valid)."""
    a = single_atom(tb, B)
    if a is not None and a.kind == "call" and a.name in ("clamp", "clip") and a.sub and "num_atoms" in a.key:
        return a.sub[0]
    return B


def _index_clamped(tb: TermBuilder, B: Poly, fn: Fn) -> bool:
    a = single_atom(tb, B)
    if a is None or a.kind != "call" or a.name not in ("clamp", "clip"):
        return False
    n = a.node
    if not isinstance(n, ast.Call):
        return False
    kws = {k.arg: k.value for k in n.keywords}
    args = list(n.args)
    lo = kws.get("min", args[0] if args else None)
    hi = kws.get("max", args[1] if len(args) > 1 else None)
    return lo is not None and hi is not None and const_value(lo) == 0 and ast.unparse(hi).replace(" ", "") in ("self.num_atoms-1", "(self.num_atoms-1)")


def _name_clamped(cfg: CFG, fn: Fn, name: str) -> bool:
    for n in cfg.live_nodes():
        if n.kind == "stmt" and isinstance(n.ast, ast.Assign) and dotted(n.ast.targets[0]) == name and isinstance(n.ast.value, ast.Call) \
                and last_attr(n.ast.value) in ("clamp", "clip", "clamp_") and "num_atoms" in ast.unparse(n.ast.value):
            return True
        if n.kind == "stmt" and isinstance(n.ast, ast.Expr) and isinstance(n.ast.value, ast.Call) and last_attr(n.ast.value) == "clamp_" \
                and dotted(n.ast.value.func.value) == name and "num_atoms" in ast.unparse(n.ast.value):
            return True
    return False


def _offset(ck: Check, tb: TermBuilder, fn: Fn, cfg: CFG, off: Poly, at: Node) -> None:
    a = single_atom(tb, off)
    node = None
    while a is not None and a.kind == "call" and a.name in ("expand", "unsqueeze", "long", "view", "reshape"):
        a = single_atom(tb, a.sub[0]) if a.sub else None
    ok = False
    detail = off.key()[:160]
    if a is not None and a.kind == "call" and "linspace" in a.key.split("(")[0]:
        n = a.node
        if isinstance(n, ast.Call) and len(n.args) >= 3:
            s, e, k = (tb.term(x, at) for x in n.args[:3])
            N = tb.term(_expr("self.num_atoms"), at)
            ok = s == Poly.const(0) and e == (k - Poly.const(1)) * N and k == tb.term(_expr("self.batch_size"), at)
            detail = f"linspace({s.key()}, {e.key()[:60]}, {k.key()[:40]})"
    elif a is not None and a.kind == "call" and "arange" in a.key.split("(")[0]:
        ok = "num_atoms" in off.key()
    ck.ob("C18.4", fn, a.node if a is not None and a.node is not None else fn.node, ok,
          "sample i's atoms are written at flat offset i * num_atoms (batch_size rows)", detail=detail)
    ex = [c for c in calls_in(fn.node) if last_attr(c) == "expand" and "linspace" in ast.unparse(c)]
    ck.ob("C18.4", fn, ex[0] if ex else fn.node, bool(ex) and [ast.unparse(x) for x in ex[0].args] == ["self.batch_size", "self.num_atoms"],
          "the offset is broadcast over the atoms of its sample (batch_size x num_atoms)")


def _learn(ck: Check, repo: Repo) -> None:
    fn = repo.fn(RB, "RainbowDQN.learn")
    cfg = CFG(fn.node)
    tb = TermBuilder(repo, fn, cfg=cfg, depth=0)
    calls = [c for c in calls_in(fn.node) if call_name(c) == "self._dqn_loss"]
    ck.floor("C18.5", len(calls), 4, "_dqn_loss calls in learn (1-step / n-step x PER / non-PER)", fn=fn)
    one_names: Set[str] = set()  # locals that receive the 1-step element-wise loss
    n_names: Set[str] = set()  # locals that receive the n-step element-wise loss
    for c in calls:
        n = cfg.node_of(c)
        g = tb.term(c.args[5], n) if len(c.args) > 5 else None
        roots = set()
        for a in c.args[:5]:
            for at, _, _ in walk_atoms(tb, tb.term(a, n)):
                if at.kind == "param":
                    roots.add(at.name)
        nstep = "n_experiences" in roots
        if n is not None and n.kind == "stmt" and isinstance(n.ast, ast.Assign) and n.ast.value is c and isinstance(n.ast.targets[0], ast.Name):
            (n_names if nstep else one_names).add(n.ast.targets[0].id)
        want = tb.term(_expr("self.gamma ** self.n_step"), n) if nstep else tb.term(_expr("self.gamma"), n)
        ck.ob("C18.5", fn, c, g is not None and g == want, f"the {'n-step' if nstep else '1-step'} loss discounts with {'gamma ** n_step' if nstep else 'gamma'}",
              detail=f"discount = {g.key()[:80] if g is not None else None}; batch = {sorted(roots)}")
    # roles from the return statement `return <loss>.item(), <indices>, <new priorities>`: the locals are named by their position
    rets = [n for n in cfg.live_nodes() if n.kind == "stmt" and isinstance(n.ast, ast.Return) and isinstance(n.ast.value, ast.Tuple)]
    prio_names = {r.ast.value.elts[2].id for r in rets if len(r.ast.value.elts) == 3 and isinstance(r.ast.value.elts[2], ast.Name)}
    pr = [n for n in cfg.live_nodes() if n.kind == "stmt" and isinstance(n.ast, ast.Assign) and dotted(n.ast.targets[0]) in prio_names]
    pr = [n for n in pr if not _is_none(n.ast.value)]
    ok = False
    for n in pr:
        t = tb.term(n.ast.value, n)
        eps = tb.term(_expr("self.prior_eps"), n)
        rest = t - eps
        ok = len(rest.t) == 1 and mentions(tb, rest, lambda a: a.kind == "call" and a.name == "_dqn_loss")
        gs = [ast.unparse(g) for g, pol, _ in cfg.guards_at(n) if pol]
        ok = ok and "per" in gs
    ck.ob("C18.5", fn, pr[0].ast if pr else fn.node, ok, "under PER the new priorities are the element-wise loss plus prior_eps")
    # position 1 is a local that only ever holds experiences["idxs"] or None; position 2 a local that only ever holds None or the priorities above
    def _ret_ok(r: Node) -> bool:
        e = r.ast.value.elts
        if len(e) != 3 or not isinstance(e[1], ast.Name) or dotted(e[1]) == dotted(e[2]):
            return False
        d1 = cfg.defs_reaching(r, e[1].id)
        v1 = [cfg.value_of_def(d, e[1].id) for d in d1]
        if _is_none(e[2]):
            # a literal None for the priorities is the same thing on a path where PER is known to be off
            d2 = [d for d in pr if any(ast.unparse(g) == "per" and not pol for g, pol, _ in cfg.guards_at(r))]
        elif isinstance(e[2], ast.Name):
            d2 = cfg.defs_reaching(r, e[2].id)
        else:
            return False
        return bool(d1) and bool(d2) and all(v is not None and (_is_none(v) or _is_key_of(v, "experiences", "idxs")) for v in v1) \
            and any(v is not None and not _is_none(v) for v in v1) \
            and all(d in pr or (d.kind == "stmt" and isinstance(d.ast, ast.Assign) and _is_none(d.ast.value)) for d in d2)
    ck.ob("C18.5", fn, rets[0].ast if rets else fn.node, bool(rets) and all(_ret_ok(r) for r in rets),
          "learn returns (loss, indices, new priorities)")
    # combined reward: both element-wise losses are added
    adds = [n for n in cfg.live_nodes() if n.kind == "stmt" and isinstance(n.ast, ast.AugAssign) and dotted(n.ast.target) in one_names]
    ck.ob("C18.5", fn, adds[0].ast if adds else fn.node, len(adds) == 2 and all(isinstance(a.ast.op, ast.Add) and dotted(a.ast.value) in n_names for a in adds),
          "with combined targets the 1-step and n-step element-wise losses are summed")
    # PER weights multiply the element-wise loss before the mean
    # roles: the loss is what is back-propagated (X.backward() / accelerator.backward(X)); the weights are experiences["weights"]
    loss_names = {dotted(c.func.value) for c in calls_in(fn.node) if last_attr(c) == "backward" and not c.args and isinstance(c.func.value, ast.Name)} | \
                 {dotted(c.args[0]) for c in calls_in(fn.node) if call_name(c) == "self.accelerator.backward" and len(c.args) == 1 and isinstance(c.args[0], ast.Name)}
    w_names = {n.ast.targets[0].id for n in cfg.live_nodes() if n.kind == "stmt" and isinstance(n.ast, ast.Assign) and isinstance(n.ast.targets[0], ast.Name)
               and _is_key_of(n.ast.value, "experiences", "weights")}
    lw = [n for n in cfg.live_nodes() if n.kind == "stmt" and isinstance(n.ast, ast.Assign) and dotted(n.ast.targets[0]) in loss_names
          and any(isinstance(x, ast.Name) and x.id in w_names for x in ast.walk(n.ast.value))]
    # the property speaks about the per-sample loss handed back as priorities: the importance weights may enter the scalar training loss only
    tainted = [n for n in cfg.live_nodes() if n.kind == "stmt" and isinstance(n.ast, (ast.Assign, ast.AugAssign))
               and dotted(n.ast.targets[0] if isinstance(n.ast, ast.Assign) else n.ast.target) not in loss_names
               and any(isinstance(x, ast.Name) and x.id in w_names for x in ast.walk(n.ast.value))
               and not _is_key_of(n.ast.value, "experiences", "weights")]
    ck.ob("C18.5", fn, (tainted or lw or [None])[0].ast if (tainted or lw) else fn.node, bool(lw) and not tainted,
          "under PER the importance weights enter the scalar training loss only: the element-wise loss that becomes the new priorities is left unweighted",
          detail=(f"`{short(tainted[0].ast, 80)}` multiplies the weights into a per-sample quantity: the priorities handed back are w_i * CE_i instead of the cross-entropy"
                  if tainted else "the sampled weights are not used in the loss that is back-propagated"))


def _is_none(v: ast.AST) -> bool:
    return isinstance(v, ast.Constant) and v.value is None


def _is_key_of(v: ast.AST, param: str, key: str) -> bool:
    """v is `<param>["<key>"]`."""
    return isinstance(v, ast.Subscript) and isinstance(v.value, ast.Name) and v.value.id == param and const_value(v.slice) == key


_RF = "agilerl/algorithms/dqn_rainbow.py"
VARIANTS = [
    ("per-weights-squeezed-in-loss-ok", _RF, "            loss = torch.mean(elementwise_loss * weights)", "            loss = torch.mean(elementwise_loss * weights.view(-1))", "silent", None),
    ("projection-upper-is-lower-plus-one-capped-upper", _RF, "            u = b.ceil().long()\n", "            u = (L + 1).clamp(max=self.num_atoms - 1)\n", "fire", "C18.2"),
    ("weights-swapped", _RF, "0, (L + offset).view(-1), (target_q_dist * (u.float() - b)).view(-1)", "0, (L + offset).view(-1), (target_q_dist * (b - L.float())).view(-1)", "fire", "C18.2"),
    ("upper-index-gets-lower-weight", _RF, "0, (u + offset).view(-1), (target_q_dist * (b - L.float())).view(-1)", "0, (L + offset).view(-1), (target_q_dist * (b - L.float())).view(-1)", "fire", "C18.2"),
    ("weight-without-prob", _RF, "(target_q_dist * (b - L.float())).view(-1)", "(b - L.float()).view(-1)", "fire", "C18.2"),
    ("no-clamp-tz", _RF, "            t_z = t_z.clamp(min=self.v_min, max=self.v_max)\n", "", "fire", "C18.1"),
    ("clamp-wrong-range", _RF, "t_z = t_z.clamp(min=self.v_min, max=self.v_max)", "t_z = t_z.clamp(min=0, max=self.v_max)", "fire", "C18.1"),
    ("b-without-vmin", _RF, "b = ((t_z - self.v_min) / self.delta_z)", "b = (t_z / self.delta_z)", "fire", "C18.1"),
    ("fixup-order-swapped", _RF, "            L[(u > 0) * (L == u)] -= 1\n            u[(L < (self.num_atoms - 1)) * (L == u)] += 1\n", "            u[(L < (self.num_atoms - 1)) * (L == u)] += 1\n            L[(u > 0) * (L == u)] -= 1\n", "fire", "C18.3"),
    ("fixup-upper-missing", _RF, "            u[(L < (self.num_atoms - 1)) * (L == u)] += 1\n", "", "fire", "C18.3"),
    ("fixup-bound-off-by-one", _RF, "u[(L < (self.num_atoms - 1)) * (L == u)] += 1", "u[(L < self.num_atoms) * (L == u)] += 1", "fire", "C18.3"),
    ("offset-stride-batch", _RF, "                    (self.batch_size - 1) * self.num_atoms,\n", "                    (self.batch_size - 1) * self.batch_size,\n", "fire", "C18.4"),
    ("index-unclamped", _RF, ".clamp(0, self.num_atoms - 1)", "", "fire", "C18.6"),
    ("target-dist-from-eval", _RF, "target_q_dist = self.actor_target(next_states, q=False)", "target_q_dist = self.actor(next_states, q=False)", "fire", "C18.5"),
    ("argmax-from-current-obs", _RF, "next_actions = self.actor(next_states).argmax(1)", "next_actions = self.actor(states).argmax(1)", "fire", "C18.5"),
    ("loss-sign", _RF, "elementwise_loss = -(proj_dist * log_p).sum(1)", "elementwise_loss = (proj_dist * log_p).sum(1)", "fire", "C18.5"),
    ("nstep-gamma-plain", _RF, "                n_gamma = self.gamma**self.n_step\n                n_step_elementwise_loss = self._dqn_loss(\n                    n_states, n_actions, n_rewards, n_next_states, n_dones, n_gamma\n                )\n                if self.combined_reward:\n                    elementwise_loss += n_step_elementwise_loss\n                else:\n                    elementwise_loss = n_step_elementwise_loss\n\n            loss = torch.mean(elementwise_loss * weights)",
     "                n_gamma = self.gamma\n                n_step_elementwise_loss = self._dqn_loss(\n                    n_states, n_actions, n_rewards, n_next_states, n_dones, n_gamma\n                )\n                if self.combined_reward:\n                    elementwise_loss += n_step_elementwise_loss\n                else:\n                    elementwise_loss = n_step_elementwise_loss\n\n            loss = torch.mean(elementwise_loss * weights)", "fire", "C18.5"),
    ("priorities-without-eps", _RF, "new_priorities = loss_for_prior + self.prior_eps", "new_priorities = loss_for_prior", "fire", "C18.5"),
    ("per-weights-dropped", _RF, "loss = torch.mean(elementwise_loss * weights)", "loss = torch.mean(elementwise_loss)", "fire", "C18.5"),
    ("return-order-swapped", _RF, "return loss.item(), idxs, new_priorities", "return loss.item(), new_priorities, idxs", "fire", "C18.5"),
    ("combined-adds-one-step-twice", _RF, "                if self.combined_reward:\n                    elementwise_loss += n_step_elementwise_loss\n                else:\n                    elementwise_loss = n_step_elementwise_loss\n\n            loss = torch.mean(elementwise_loss)",
     "                if self.combined_reward:\n                    elementwise_loss += elementwise_loss\n                else:\n                    elementwise_loss = n_step_elementwise_loss\n\n            loss = torch.mean(elementwise_loss)", "fire", "C18.5"),
    ("proj-zeros-from-support", _RF, "proj_dist = torch.zeros(target_q_dist.size(), device=self.device)", "proj_dist = torch.zeros(self.support.size(), device=self.device)", "fire", "C18.4"),
    ("learn-locals-renamed-ok", _RF, "            loss_for_prior = elementwise_loss.detach().cpu().numpy()\n            new_priorities = loss_for_prior + self.prior_eps\n\n        return loss.item(), idxs, new_priorities",
     "            loss_for_prior = elementwise_loss.detach().cpu().numpy()\n            prios = loss_for_prior + self.prior_eps\n            return loss.item(), idxs, prios\n\n        return loss.item(), idxs, None", "silent", None),
    ("clamp-L-u-ok", _RF, ".clamp(0, self.num_atoms - 1)\n\n            # Find the neighbouring indices of b\n            L = b.floor().long()\n            u = b.ceil().long()\n",
     "\n\n            # Find the neighbouring indices of b\n            L = b.floor().long()\n            u = b.ceil().long()\n            L = L.clamp(0, self.num_atoms - 1)\n            u = u.clamp(0, self.num_atoms - 1)\n", "silent", None),
]
