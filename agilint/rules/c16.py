"""C16 — stochastic policies report the true log-probability and entropy of their actions."""
from __future__ import annotations

import ast
from typing import Dict, List, Optional, Set, Tuple

from ..cfg import CFG, Node
from ..core import AnalysisError, Cls, Fn, Repo, call_name, calls_in, const_value, dotted, get_kw, last_attr, short, walk_no_nested
from ..pat import _tree_of, has
from ..report import Check
from ..terms import Atom, Poly, TermBuilder, expand_phi, mentions, single_atom, walk_atoms

DM = "agilerl.networks.distributions"
AM = "agilerl.networks.actors"


# ------------------------------------------------------------------------------------------------ one verdict for both spellings of a choice
# `x = a if c else b` and `if c: x = a` / `else: x = b` are the same program.  The rules below never look at "the" definition of a local or at a conditional
# expression as such: they look at the alternatives of a value (one per reaching definition and per arm of a conditional expression), at the guards of an
# expression (the enclosing `if` tests plus the tests of the conditional expressions it is an arm of) and, where a pattern contains a conditional expression,
# at both spellings of the code.
def _arms(v: Optional[ast.AST]) -> List[Optional[ast.AST]]:
    """The alternatives of a value: the arms of a conditional expression (nested ones flattened), the value itself otherwise."""
    if isinstance(v, ast.IfExp):
        return _arms(v.body) + _arms(v.orelse)
    return [v]


def _alt_values(cfg: CFG, at: Optional[Node], name: str) -> List[Optional[ast.AST]]:
    """Every value `name` may hold at `at`: one per reaching definition and per arm of a conditional expression (None for an opaque definition)."""
    out: List[Optional[ast.AST]] = []
    for d in (cfg.defs_reaching(at, name) if at is not None else []):
        out += _arms(cfg.value_of_def(d, name))
    return out


def _arm_tests(root: ast.AST, x: ast.AST) -> List[Tuple[ast.AST, bool]]:
    """(test, polarity) of the conditional expressions inside `root` that decide whether the sub-expression `x` is evaluated."""
    def go(n: ast.AST, acc: List[Tuple[ast.AST, bool]]) -> Optional[List[Tuple[ast.AST, bool]]]:
        if n is x:
            return acc
        if isinstance(n, ast.IfExp):
            for ch, extra in ((n.test, []), (n.body, [(n.test, True)]), (n.orelse, [(n.test, False)])):
                r = go(ch, acc + extra)
                if r is not None:
                    return r
            return None
        for ch in ast.iter_child_nodes(n):
            r = go(ch, acc)
            if r is not None:
                return r
        return None
    return go(root, []) or []


def _expr_guards(cfg: CFG, x: ast.AST) -> List[Tuple[ast.AST, bool]]:
    """(test, polarity) of everything known where the expression `x` is evaluated: the `if` tests around its statement and the tests of the conditional
    expressions it is an arm of (leading negations folded into the polarity)."""
    n = cfg.node_of(x)
    if n is None:
        return []
    out = [(g, pol) for g, pol, _ in cfg.guards_at(n)]
    for root in n.exprs():
        for t, pol in _arm_tests(root, x):
            while isinstance(t, ast.UnaryOp) and isinstance(t.op, ast.Not):
                t, pol = t.operand, not pol
            out.append((t, pol))
    return out


def _folded(stmts: List[ast.stmt]) -> Optional[ast.stmt]:
    """A branch that is one plain binding / return, or a two-way `if` over such branches for the same target, written as ONE statement with a conditional
    expression: `if c: T = a` / `else: T = b` -> `T = a if c else b` (also `return`, augmented assignments; nested choices fold into nested expressions)."""
    if len(stmts) != 1:
        return None
    s = stmts[0]
    if isinstance(s, (ast.Return, ast.AugAssign)) or (isinstance(s, ast.Assign) and len(s.targets) == 1):
        return s if getattr(s, "value", None) is not None else None
    if isinstance(s, ast.If) and s.orelse:
        a, b = _folded(s.body), _folded(s.orelse)
        if a is None or b is None or type(a) is not type(b):
            return None
        val = ast.IfExp(test=s.test, body=a.value, orelse=b.value)
        if isinstance(a, ast.Return):
            new: ast.stmt = ast.Return(value=val)
        elif isinstance(a, ast.Assign):
            if ast.dump(a.targets[0]) != ast.dump(b.targets[0]):
                return None
            new = ast.Assign(targets=a.targets, value=val)
        else:
            if ast.dump(a.target) != ast.dump(b.target) or type(a.op) is not type(b.op):
                return None
            new = ast.AugAssign(target=a.target, op=a.op, value=val)
        return ast.fix_missing_locations(ast.copy_location(new, s))
    return None


def _choice_view(root: ast.AST) -> ast.Module:
    """Every two-way choice of `root` that is spelled as a statement, re-spelled with a conditional expression (outermost choices only: nested ones are
    part of the folded expression)."""
    out: List[ast.stmt] = []

    def walk(n: ast.AST) -> None:
        if isinstance(n, ast.If):
            f = _folded([n])
            if f is not None:
                out.append(f)
                return
        for ch in ast.iter_child_nodes(n):
            walk(ch)
    walk(root)
    return ast.Module(body=out, type_ignores=[])


def _has_choice(target, pattern: str) -> bool:
    """`has` for a pattern that contains a conditional expression; the code may spell the choice as an expression or as an if / else statement
    (metavariables are shared with the other patterns matched on `target`)."""
    tree = _tree_of(target)
    return has(tree, pattern, env_key=tree) or has(_choice_view(tree), pattern, env_key=tree)



def _alt_defs(cfg: CFG, n: Node) -> List[Tuple[ast.AST, List[Tuple[ast.AST, bool]]]]:
    """(value, guards) for every alternative the assignment / return at node n can bind or hand back: one per arm of a conditional expression."""
    v = getattr(n.ast, "value", None)
    return [(a, _expr_guards(cfg, a)) for a in _arms(v) if a is not None]


# ------------------------------------------------------------------------------------------------ one verdict for every way of writing a two-configuration function
# A method that behaves in one of two ways depending on a flag of the object can be written with a conditional expression, an if / else, a one-armed `if`
# that amends a value computed for both configurations, or an early return for one configuration followed by the code of the other.  The rules about such a
# method look at the code that RUNS in each configuration: the function with every choice on the flag resolved.  What they say about "the squashed path" is
# then a statement about the configuration, not about the number or the shape of the branches the source happens to have.
def _assume(fn: ast.AST, key, value: bool) -> ast.AST:
    """A copy of the function as it runs when the attribute `key` is `value`: every choice on it (the test of an `if` statement or of a conditional
    expression: the attribute itself, a local bound once to it, under `not` / `and` / `or`) is resolved and only the code of the arm taken is kept.
    `key` may also be a predicate on expressions that recognises the condition assumed (e.g. a type test of an attribute)."""
    is_key = key if callable(key) else (lambda t: dotted(t) == key)
    stores: Dict[str, int] = {}
    for n in walk_no_nested(fn):
        if isinstance(n, ast.Name) and isinstance(n.ctx, ast.Store):
            stores[n.id] = stores.get(n.id, 0) + 1
    params = {a.arg for a in ast.walk(fn.args) if isinstance(a, ast.arg)}
    alias = {n.targets[0].id for n in walk_no_nested(fn) if isinstance(n, ast.Assign) and len(n.targets) == 1 and isinstance(n.targets[0], ast.Name)
             and stores.get(n.targets[0].id) == 1 and n.targets[0].id not in params and is_key(n.value)}

    def reduce(t: ast.AST):
        """True / False when the test is decided by the assumption, what is left of it otherwise."""
        if is_key(t) or (isinstance(t, ast.Name) and t.id in alias):
            return value
        if isinstance(t, ast.UnaryOp) and isinstance(t.op, ast.Not):
            r = reduce(t.operand)
            return (not r) if isinstance(r, bool) else ast.copy_location(ast.UnaryOp(op=ast.Not(), operand=r), t)
        if isinstance(t, ast.BoolOp):
            conj, rest = isinstance(t.op, ast.And), []
            for v in t.values:
                r = reduce(v)
                if isinstance(r, bool):
                    if r != conj:
                        return r  # False decides a conjunction, True a disjunction
                    continue
                rest.append(r)
            return conj if not rest else rest[0] if len(rest) == 1 else ast.copy_location(ast.BoolOp(op=t.op, values=rest), t)
        return t

    class _Resolve(ast.NodeTransformer):
        def visit_If(self, s: ast.If):
            r = reduce(s.test)
            if isinstance(r, bool):
                out: List[ast.stmt] = []
                for x in (s.body if r else s.orelse):
                    y = self.visit(x)
                    out += y if isinstance(y, list) else [y]
                return out
            s.test = r
            self.generic_visit(s)
            return s

        def visit_IfExp(self, e: ast.IfExp):
            r = reduce(e.test)
            if isinstance(r, bool):
                return self.visit(e.body if r else e.orelse)
            e.test = r
            self.generic_visit(e)
            return e

    import copy
    new = _Resolve().visit(copy.deepcopy(fn))
    for x in ast.walk(new):  # a block all of whose statements belonged to the other configuration
        if isinstance(x, (ast.stmt, ast.ExceptHandler)) and isinstance(getattr(x, "body", None), list) and not x.body:
            x.body = [ast.copy_location(ast.Pass(), x)]
    return ast.fix_missing_locations(new)


def _origin(cfg: CFG, e: Optional[ast.AST], at: Optional[Node]) -> Optional[ast.AST]:
    """The expression a value was computed by: through names and attributes with a single reaching plain binding (an element of an unpacked value comes
    back as `<value>[<index>]`, see CFG.value_of_def)."""
    for _ in range(8):
        if at is None or not isinstance(e, (ast.Name, ast.Attribute)) or "?" in dotted(e):
            break
        ds = cfg.defs_reaching(at, dotted(e))
        v = cfg.value_of_def(ds[0], dotted(e)) if len(ds) == 1 and ds[0].kind == "stmt" else None
        if v is None:
            break
        e, at = v, ds[0]
    return e


def _operand(tb: TermBuilder, a: Optional[Atom], fname: str) -> Optional[Poly]:
    """x for an atom that stands for `x.<fname>(...)` or `torch.<fname>(x, ...)` (None for anything else)."""
    if a is None or a.kind != "call" or a.name != fname or not isinstance(a.node, ast.Call) or not a.sub:
        return None
    if isinstance(a.node.func, ast.Attribute) and dotted(a.node.func.value) in ("torch", "np"):
        return a.sub[1] if len(a.sub) > 1 and a.node.args else None
    return a.sub[0] if isinstance(a.node.func, ast.Attribute) else None


def _is_tanh_correction(tb: TermBuilder, a: Atom, action: str) -> bool:
    """The atom stands for sum over dim 1 of log(1 - action^2 + eps), 0 < eps <= 1e-3 — however the sum, the logarithm and the square are spelled."""
    v = a.node
    summed = _operand(tb, a, "sum")
    if summed is None:
        return False
    dim = const_value(get_kw(v, "dim", 1 if dotted(v.func.value) in ("torch", "np") else 0))
    if isinstance(dim, bool) or dim not in (1, -1) or const_value(get_kw(v, "keepdim")):
        return False
    inner = _operand(tb, single_atom(tb, summed), "log")
    if inner is None:
        return False
    from fractions import Fraction
    eps = inner.t.get((), Fraction(0)) - 1
    rest = {m: c for m, c in inner.t.items() if m != ()}
    if not (0 < eps <= Fraction(1, 1000)) or len(rest) != 1:
        return False
    (m, c), = rest.items()
    if c != -1:
        return False
    if m == ((action, 2),):
        return True
    sq = tb.atoms.get(m[0][0]) if len(m) == 1 and m[0][1] == 1 else None
    base = _operand(tb, sq, "pow")
    if base is not None:
        expo = const_value(get_kw(sq.node, "exponent", 1 if dotted(sq.node.func.value) in ("torch", "np") else 0))
        return base == Poly.atom(action) and expo == 2 and not isinstance(expo, bool)
    base = _operand(tb, sq, "square")
    return base is not None and base == Poly.atom(action)


def run(ck: Check, repo: Repo) -> None:
    ck.not_decided += ["that the reported number equals the density (semantics of torch.distributions)",
                       "that sampled actions lie in the support (library behaviour)"]
    ck.trusted += ["torch.distributions.*.log_prob / entropy return per-component values for Normal and Bernoulli and per-sample values for Categorical"]
    ck.rule("C16.1", "every kind of distribution that get_distribution constructs has a handler in TorchDistribution's table")
    ck.rule("C16.2", "log-probability and entropy are summed over the independent components (dim 1) for Normal, Bernoulli and multi-categorical, and not reduced for Categorical")
    ck.rule("C16.3", "the density argument of log_prob(action) depends on the action passed in, on every path")
    ck.rule("C16.4", "tanh squashing: sample() returns tanh(x) iff squash_output; log_prob subtracts sum_i log(1 - a_i^2 + eps) over dim 1 iff squash_output; entropy is None iff squash_output")
    ck.rule("C16.5", "forward() reports the log-probability of exactly the action it returns, computed from the distribution built from the (masked) logits of this call")
    ck.rule("C16.6", "re-evaluation: a forward pass on the batch observations (rebuilding the distribution) precedes action_log_prob(batch actions) in PPO and IPPO")
    ck.rule("C16.7", "masked actions get probability zero: masked logits are replaced by a constant <= -1e8 with where(mask, logits, const); "
                     "multi-discrete / multi-binary masks are split with the space's own component sizes")
    _handlers(ck, repo)
    _log_prob(ck, repo)
    _forward(ck, repo)
    _reeval(ck, repo)
    _mask(ck, repo)
    ck.rule("C16.9", "the distribution wrapper of a stochastic actor is rebuilt as it was built: the EvolvableDistribution created in recreate_network receives every "
                     "constructor argument the one created in __init__ received (action space, std initialisation, squash_output, device), from the stored attributes")
    _wrapper_rebuild(ck, repo)
    from ._c16_r3 import run_r3
    run_r3(ck, repo)
    ck.rule("C16.10", "in training mode the action handed out is the sampled one: get_action clips / rescales a continuous action only under `not self.training` "
                      "(obligations of C14.3, shared) — otherwise the stored action differs from the one its log-probability belongs to")
    from dataclasses import replace
    from . import c14
    sub14 = Check("C14", ck.tier, ck.repo_root)
    sub14.known = []
    for rid in ("C14.3", "C14.5"):
        sub14.rule(rid, "")
    err14 = None
    try:
        c14._policy_gradient(sub14, repo)
    except AnalysisError as e:  # keep what was established before the shared rule lost an anchor
        err14 = e
    taken = [replace(o, rule="C16.10") for o in sub14.obs if o.rule == "C14.3" and o.status != "known"]
    ck.obs.extend(taken)
    if err14 is not None:
        raise err14
    if len(taken) < 8:
        raise AnalysisError(f"C16.10: only {len(taken)} obligations taken over from C14.3")
    ck.rule("C16.8", "IPPO: the masks of a shared-policy group reach the distribution row-aligned with its logits (collected per agent, combined agent-major): "
                     "otherwise a row is masked with another (agent, environment) pair's mask and masked actions get non-zero probability")
    from .c14 import _ippo_masks
    _ippo_masks(ck, repo, "C16.8")
    from ._c16_r5 import run_r5
    run_r5(ck, repo)


def _handlers(ck: Check, repo: Repo) -> None:
    td = repo.cls(DM, "TorchDistribution")
    table = None
    for n in td.node.body:
        if isinstance(n, (ast.Assign, ast.AnnAssign)) and dotted(n.targets[0] if isinstance(n, ast.Assign) else n.target) == "_handlers":
            table = n.value
    if not isinstance(table, ast.Dict):
        raise AnalysisError("TorchDistribution._handlers table not found")
    keys = {dotted(k): call_name(v) for k, v in zip(table.keys, table.values)}
    ck.note("handler_table", keys)
    gd = repo.fn(DM, "EvolvableDistribution.get_distribution")
    # the local holding the raw distribution: the one handed to the TorchDistribution wrapper that is returned
    wraps = [n.value for n in walk_no_nested(gd.node) if isinstance(n, ast.Return) and isinstance(n.value, ast.Call) and call_name(n.value) == "TorchDistribution"]
    wrapped_arg = get_kw(wraps[0], "distribution", 0) if wraps else None
    dist_var = wrapped_arg.id if isinstance(wrapped_arg, ast.Name) else None
    built: Dict[str, ast.AST] = {}
    for n in walk_no_nested(gd.node):
        for v in (_arms(n.value) if dist_var is not None and isinstance(n, ast.Assign) and dotted(n.targets[0]) == dist_var else []):
            if isinstance(v, ast.Call):
                built[call_name(v)] = v
            elif isinstance(v, ast.ListComp) and isinstance(v.elt, ast.Call):
                built["list"] = v
                built.setdefault("list-of:" + call_name(v.elt), v)
    ck.floor("C16.1", len(built), 4, "distribution kinds constructed by get_distribution", fn=gd)
    for k, node in built.items():
        if k.startswith("list-of:"):
            ck.ob("C16.1", gd, node, k == "list-of:Categorical", "a list distribution consists of Categorical components (what the list handler assumes)")
            continue
        ck.ob("C16.1", gd, node, k in keys, f"`{k}` distributions have a handler", detail=f"handlers: {sorted(keys)}")
    want = {"Normal": "NormalHandler", "Bernoulli": "BernoulliHandler", "Categorical": "CategoricalHandler", "list": "MultiCategoricalHandler"}
    for k, h in want.items():
        ck.ob("C16.1", gd, table, keys.get(k) == h, f"`{k}` is handled by {h}", detail=f"table maps {k} -> {keys.get(k)}")
    # space kind -> distribution kind
    gcfg = CFG(gd.node)
    pairs = {}
    for n in gcfg.live_nodes():
        for v, gs in (_alt_defs(gcfg, n) if dist_var is not None and n.kind == "stmt" and isinstance(n.ast, ast.Assign) and dotted(n.ast.targets[0]) == dist_var else []):
            g = [ast.unparse(gg) for gg, pol in gs if pol and "isinstance" in ast.unparse(gg)]
            kind = g[-1].split("spaces.")[-1].rstrip(")") if g else "?"
            built_kind = call_name(v) if isinstance(v, ast.Call) else "list"
            pairs[kind] = built_kind if pairs.get(kind) in (None, built_kind) else f"{pairs[kind]} | {built_kind}"  # two kinds of distribution for one kind of space agree with nothing
    ck.ob("C16.1", gd, gd.node, pairs == {"Box": "Normal", "Discrete": "Categorical", "MultiDiscrete": "list", "MultiBinary": "Bernoulli"},
          "Box -> Normal, Discrete -> Categorical, MultiDiscrete -> list of Categorical, MultiBinary -> Bernoulli", detail=str(pairs), construct="space kind -> distribution kind")
    src = ast.unparse(gd.node)
    ck.ob("C16.1", gd, gd.node, has(src, 'raise NotImplementedError'), "an unsupported action space is rejected", construct="get_distribution else-branch")
    ck.ob("C16.1", gd, gd.node, has(src, 'torch.split($logits, list(self.action_space.nvec), dim=1)'), "multi-discrete logits are split by the space's nvec along the component axis",
          construct="multi-discrete split")
    ck.ob("C16.1", gd, gd.node, has(src, 'Normal(loc=$logits, scale=$action_std)') and has(src, '$action_std = torch.exp($log_std)') and has(src, 'self.log_std.expand_as($logits)'),
          "the Normal has mean = logits and std = exp(log_std)", construct="normal parameters")
    rets = [n for n in walk_no_nested(gd.node) if isinstance(n, ast.Return)]
    rv = rets[0].value if rets else None
    ck.ob("C16.4", gd, rets[0] if rets else gd.node, isinstance(rv, ast.Call) and call_name(rv) == "TorchDistribution" and len(rv.args) + len(rv.keywords) == 2
          and dist_var is not None and dotted(get_kw(rv, "distribution", 0) or rv) == dist_var and dotted(get_kw(rv, "squash_output", 1) or rv) == "self.squash_output",
          "the wrapper is told whether outputs are squashed")
    # ---- C16.2 reductions
    red = {"NormalHandler": "independent", "BernoulliHandler": "sum1", "CategoricalHandler": "none", "MultiCategoricalHandler": "stack-sum1"}
    for hname, kind in red.items():
        h = repo.cls(DM, hname)
        for meth in ("log_prob", "entropy"):
            f = h.methods.get(meth)
            if f is None:
                ck.ob("C16.2", gd, h.node, False, f"{hname}.{meth} exists")
                continue
            rets = [n for n in walk_no_nested(f.node) if isinstance(n, ast.Return)]
            # every value the handler can hand back (one per return statement and per arm of a conditional expression) has the reduction

            def reduced(s: str) -> bool:
                if kind == "independent":
                    return s.startswith("sum_independent_tensor(") and f"distribution.{meth}(" in s
                if kind == "sum1":
                    return s.endswith(".sum(dim=1)") and s.startswith(f"distribution.{meth}(")
                if kind == "none":
                    return s.startswith(f"distribution.{meth}(") and "sum" not in s
                return s.endswith(".sum(dim=1)") and "torch.stack(" in s and "dim=1" in s.split(".sum")[0]
            alts = [ast.unparse(a) if a is not None else "" for r in rets for a in _arms(r.value)]
            s = " | ".join(alts)
            ok = bool(alts) and all(reduced(a) for a in alts)
            ck.ob("C16.2", f, rets[0] if rets else f.node, ok, f"{hname}.{meth}: " + {"independent": "summed over components (dim 1) when batched", "sum1": "summed over components (dim 1)",
                                                                                    "none": "not reduced (one value per sample)", "stack-sum1": "components stacked on dim 1 and summed over dim 1"}[kind],
                  detail=s[:120])
            if meth == "log_prob":
                arg = f.named_params[2] if len(f.named_params) > 2 else None
                ck.ob("C16.3", f, rets[0] if rets else f.node, arg is not None and any(isinstance(x, ast.Name) and x.id == arg for x in ast.walk(f.node)),
                      f"{hname}.log_prob evaluates the density at the action it is given")
    si = repo.fn(DM, "sum_independent_tensor")
    ck.ob("C16.2", si, si.node, _has_choice(si.node, '$tensor.sum(dim=1) if len($tensor.shape) > 1 else $tensor'), "sum_independent_tensor sums over dim 1 of batched values",
          construct="sum_independent_tensor")
    mc = repo.fn(DM, "MultiCategoricalHandler.log_prob")
    paired, why = _component_pairing(mc)
    ck.ob("C16.2", mc, mc.node, paired, "component k of the action is evaluated under component distribution k", detail=why, construct="multi-categorical pairing")


def _component_pairing(fn: Fn) -> Tuple[bool, str]:
    """Every component log-probability `d.log_prob(a)` of a handler for a list of distributions takes d and a from the same position of one joint walk: d is
    element k of the `distribution` parameter and a is column k of the `action` parameter (element k of its unbind along dim 1, or action[:, k]).  The walk may
    be a comprehension or a loop, over zip(...) / enumerate(...) / one collection indexed by the counter; the collections may be passed through locals."""
    from ..terms import for_binding
    cfg = CFG(fn.node)
    if len(fn.named_params) < 3:
        return False, "no (distribution, action) parameters"
    p_dist, p_act = fn.named_params[1], fn.named_params[2]
    parent = {id(ch): x for x in ast.walk(fn.node) for ch in ast.iter_child_nodes(x)}

    def defs_of(name: str, at: Optional[Node]) -> List[Node]:
        defs = cfg.defs_reaching(at, name) if at is not None else []
        return [d for d in defs if not cfg.dominates(at, d)] if at is not None and at.kind == "for" else defs  # the iterable is evaluated before the loop binds anything

    def origin(e: ast.AST, at: Optional[Node]) -> Tuple[ast.AST, Optional[Node]]:
        """The expression a value was computed by: locals with one plain definition are looked through."""
        for _ in range(6):
            defs = defs_of(e.id, at) if isinstance(e, ast.Name) else []
            v = cfg.value_of_def(defs[0], e.id) if len(defs) == 1 and defs[0].kind == "stmt" else None
            if v is None:
                break
            e, at = v, defs[0]
        return e, at

    def is_param(e: ast.AST, at: Optional[Node], name: str) -> bool:
        e, at = origin(e, at)
        defs = defs_of(e.id, at) if isinstance(e, ast.Name) and e.id == name else []
        return bool(defs) and all(d.kind == "entry" for d in defs)

    def is_columns(e: ast.AST, at: Optional[Node]) -> bool:
        """The columns of the action, in order: torch.unbind(action, dim=1) / action.unbind(1)."""
        e, at = origin(e, at)
        if not (isinstance(e, ast.Call) and last_attr(e) == "unbind" and isinstance(e.func, ast.Attribute)):
            return False
        free = dotted(e.func.value) == "torch"
        what = get_kw(e, "input", 0) if free else e.func.value
        dim = const_value(get_kw(e, "dim", 1 if free else 0))
        return what is not None and is_param(what, at, p_act) and not isinstance(dim, bool) and dim in (1, -1)

    def walk_of(x: ast.Name):
        """(identity, target, iterable, node, filtered?) of the comprehension clause or loop that binds the local read at x."""
        n = parent.get(id(x))
        while n is not None and n is not fn.node:
            for g in (n.generators if isinstance(n, (ast.ListComp, ast.GeneratorExp, ast.SetComp)) else []):
                if any(isinstance(t, ast.Name) and t.id == x.id for t in ast.walk(g.target)):
                    return id(g), g.target, g.iter, cfg.node_of(n), bool(g.ifs) or len(n.generators) > 1
            n = parent.get(id(n))
        at = cfg.node_of(x)
        defs = cfg.defs_reaching(at, x.id) if at is not None else []
        if len(defs) == 1 and defs[0].kind == "for" and not defs[0].ast.orelse:
            skipped = any(cfg.dominates(defs[0], t) for _, _, t in cfg.guards_at(at)) or any(isinstance(y, (ast.Continue, ast.Break)) for y in ast.walk(defs[0].ast))
            return id(defs[0].ast), defs[0].ast.target, defs[0].ast.iter, defs[0], skipped
        return None

    def covers(it: ast.AST, at: Optional[Node]) -> bool:
        """The iterable has one element per component: the distribution, the columns of the action, or several of these side by side."""
        it, at = origin(it, at)
        if isinstance(it, ast.Call) and call_name(it) == "zip" and it.args and not it.keywords:
            return all(covers(a, at) for a in it.args)
        return is_param(it, at, p_dist) or is_columns(it, at)

    def counts(k: ast.AST) -> Optional[int]:
        """The walk of which the local k is the running index (0, 1, 2, ... over all components)."""
        w = walk_of(k) if isinstance(k, ast.Name) else None
        if w is None:
            return None
        wid, tgt, it, at, _ = w
        if isinstance(it, ast.Call) and call_name(it) == "enumerate" and len(it.args) == 1 and not it.keywords and isinstance(tgt, (ast.Tuple, ast.List)) and len(tgt.elts) == 2 \
                and isinstance(tgt.elts[0], ast.Name) and tgt.elts[0].id == k.id:
            return wid if covers(it.args[0], at) else None
        if isinstance(it, ast.Call) and call_name(it) == "range" and len(it.args) == 1 and not it.keywords and isinstance(tgt, ast.Name) \
                and isinstance(it.args[0], ast.Call) and call_name(it.args[0]) == "len" and len(it.args[0].args) == 1:
            return wid if covers(it.args[0].args[0], at) else None
        return None

    def element(e: ast.AST):
        """(walk, collection, node, "row" | "column"): e is element k / column k of the collection in round k of the walk."""
        if isinstance(e, ast.Name):
            w = walk_of(e)
            if w is None or w[4]:
                return None
            b = for_binding(ast.For(target=w[1], iter=w[2], body=[], orelse=[]), e.id)
            if b is None or b[1] not in ("zip", "iter") or not covers(w[2].args[0] if isinstance(w[2], ast.Call) and call_name(w[2]) == "enumerate" and w[2].args else w[2], w[3]):
                return None
            return w[0], b[0], w[3], "row"
        if isinstance(e, ast.Subscript):
            sl = e.slice
            col = isinstance(sl, ast.Tuple) and len(sl.elts) == 2 and ((isinstance(sl.elts[0], ast.Slice) and sl.elts[0].lower is None and sl.elts[0].upper is None and sl.elts[0].step is None)
                                                                      or (isinstance(sl.elts[0], ast.Constant) and sl.elts[0].value is Ellipsis))
            k = sl.elts[1] if col else sl
            wid = counts(k)
            w = walk_of(k) if wid is not None else None
            if w is None or w[4]:
                return None
            return wid, e.value, cfg.node_of(e), "column" if col else "row"
        return None

    calls = [c for c in calls_in(fn.node) if last_attr(c) == "log_prob" and isinstance(c.func, ast.Attribute)]
    if not calls:
        return False, "no component log-probability is taken"
    for c in calls:
        arg = get_kw(c, "value", 0)
        d, a = element(c.func.value), element(arg) if arg is not None else None
        if d is None or a is None:
            return False, f"`{short(c, 60)}`: the distribution / the action evaluated is not the element of a walk over all components"
        if d[0] != a[0]:
            return False, f"`{short(c, 60)}`: distribution and action come from different walks (every pair of components, not component k with component k)"
        if not (d[3] == "row" and is_param(d[1], d[2], p_dist)):
            return False, f"`{short(c, 60)}`: evaluated under `{short(d[1], 40)}`, which is not component k of the distribution"
        if not ((a[3] == "row" and is_columns(a[1], a[2])) or (a[3] == "column" and is_param(a[1], a[2], p_act))):
            return False, f"`{short(c, 60)}`: evaluated at `{short(a[1], 40)}`, which is not column k (dim 1) of the action"
    return True, ""


def _log_prob(ck: Check, repo: Repo) -> None:
    fn = repo.fn(DM, "TorchDistribution.log_prob")

    def density_calls(root: ast.AST) -> List[ast.Call]:
        return [c for c in calls_in(root) if call_name(c) == "self._handler.log_prob"]
    calls = density_calls(fn.node)
    ck.floor("C16.3", len(calls), 1, "handler.log_prob call in TorchDistribution.log_prob", fn=fn)
    for c in calls:
        ck.ob("C16.3", fn, c, dotted(get_kw(c, "distribution", 0) or c) == "self.distribution", "the density is that of the wrapped distribution")
    # the two configurations of the wrapper: the code that runs with squash_output set and the code that runs without it (see _assume)
    pa = f"param:{fn.qualname}.{(fn.named_params + ['?', '?'])[1]}"
    extras: Dict[str, dict] = {}  # what a returned value consists of besides the handler's log-probability: term -> where / with which factors it is added
    exact = True  # every returned value is the handler's log-probability, once, plus exactly one other term when squashing and nothing else otherwise
    n_rets = {True: 0, False: 0}  # values handed back per configuration
    for cond, squash in ((" (squashed path)", True), (" (plain path)", False)):
        view = _assume(fn.node, "self.squash_output", squash)
        cfg = CFG(view)
        tb = TermBuilder(repo, fn, cfg=cfg, depth=0)
        for c in density_calls(view):
            n = cfg.node_of(c)
            arg = get_kw(c, "action", 1)
            if n is None or arg is None:
                continue  # not executed in this configuration
            for a in expand_phi(tb, tb.term(arg, n)):
                dep = mentions(tb, a, lambda x: x.key == pa)
                ck.ob("C16.3", fn, arg, dep,
                      f"the value whose density is evaluated derives from the `action` argument{cond}",
                      detail=f"density argument = {a.key()[:120]}" + ("" if dep else ": it is the action sampled by the latest forward pass, not the action passed in — "
                                                                      "re-evaluating a stored action returns the log-probability of an unrelated fresh sample"),
                      construct=f"density argument{cond}: {a.key()[:100]}")
        # ---- C16.4 correction: the value handed back in this configuration, as a sum of terms
        for r in [n for n in cfg.live_nodes() if n.kind == "stmt" and isinstance(n.ast, ast.Return)]:
            if r.ast.value is None:
                exact = False
                continue
            for val in expand_phi(tb, tb.term(r.ast.value, r)):
                n_rets[squash] += 1
                density, others = 0, 0
                for m, coeff in val.t.items():
                    a = tb.atoms.get(m[0][0]) if len(m) == 1 and m[0][1] == 1 else None
                    if a is not None and a.kind == "call" and isinstance(a.node, ast.Call) and call_name(a.node) == "self._handler.log_prob":
                        density += coeff
                        continue
                    others += abs(coeff)
                    key = "*".join(k if e == 1 else f"{k}^{e}" for k, e in m) or "1"
                    site = cfg.node_of(a.node) if a is not None and a.node is not None else None
                    e = extras.setdefault(key, {"at": site.ast if site is not None else r.ast, "form": a is not None and _is_tanh_correction(tb, a, pa), "factors": set(), "plain": False})
                    e["factors"].add(coeff)
                    e["plain"] = e["plain"] or not squash
                exact = exact and density == 1 and others == (1 if squash else 0)
    for key, e in extras.items():
        ck.ob("C16.4", fn, e["at"], e["form"] and e["factors"] == {-1} and not e["plain"], "under squash_output the correction sum_i log(1 - a_i^2 + eps) over dim 1 is subtracted",
              detail=f"{key[:100]} enters the returned log-probability with factor {sorted(str(f) for f in e['factors'])}" + (", also without squash_output" if e["plain"] else ""))
    ck.ob("C16.4", fn, fn.node, exact and all(n_rets.values()), "exactly one squash correction", construct="squash correction in log_prob")
    sm = repo.fn(DM, "TorchDistribution.sample")
    # sample(), per configuration as well: the value handed back is tanh(x) in the squashed configuration and x in the plain one, where x is ONE draw
    # `self._handler.sample(self.distribution)` — the draw the attribute log_prob reads (self.sampled_action) holds when sample() returns.  The draw may
    # reach the return and the attribute directly or through locals / attributes bound once on the way (def-use chain, not the spelling of a statement).
    def is_draw(e: Optional[ast.AST]) -> bool:
        return isinstance(e, ast.Call) and call_name(e) == "self._handler.sample"

    def unsquashed(e: Optional[ast.AST]) -> Optional[ast.AST]:
        """x for tanh(x) spelled torch.tanh(x) or x.tanh()."""
        if not (isinstance(e, ast.Call) and isinstance(e.func, ast.Attribute) and e.func.attr == "tanh" and not e.keywords):
            return None
        if dotted(e.func.value) in ("torch", "np"):
            return e.args[0] if len(e.args) == 1 else None
        return e.func.value if not e.args else None
    okv = {True: False, False: False}  # configuration -> every value handed back is tanh(draw) / the draw itself (and there is one)
    oks = {True: False, False: False}  # configuration -> the draw handed back is from the wrapped distribution and is the one kept in self.sampled_action
    for squash in (True, False):
        view = _assume(sm.node, "self.squash_output", squash)
        scfg = CFG(view)
        rets = [n for n in scfg.live_nodes() if n.kind == "stmt" and isinstance(n.ast, ast.Return)]
        okv[squash] = oks[squash] = bool(rets)
        for r in rets:
            for v in _arms(r.ast.value):
                x = _origin(scfg, v, r)
                if squash:
                    inner = unsquashed(x)
                    x = _origin(scfg, inner, scfg.node_of(inner) or r) if inner is not None else None
                okv[squash] = okv[squash] and is_draw(x)
                kept = [_origin(scfg, scfg.value_of_def(d, "self.sampled_action"), d) if d.kind == "stmt" else None for d in scfg.defs_reaching(r, "self.sampled_action")]
                oks[squash] = oks[squash] and is_draw(x) and dotted(get_kw(x, "distribution", 0) or x) == "self.distribution" and len(kept) == 1 and kept[0] is x
    ck.ob("C16.4", sm, sm.node, okv[True] and okv[False], "sample() returns tanh(x) when squashing and x otherwise", construct="sample() return values")
    ck.ob("C16.4", sm, sm.node, oks[True] and oks[False], "x is drawn from the wrapped distribution", construct="sample source")
    en = repo.fn(DM, "TorchDistribution.entropy")
    ecfg = CFG(en.node)
    erets = [(v, [(ast.unparse(gg), pol) for gg, pol in gs]) for n in ecfg.live_nodes() if n.kind == "stmt" and isinstance(n.ast, ast.Return) for v, gs in _alt_defs(ecfg, n)]
    ck.ob("C16.4", en, en.node, any(isinstance(v, ast.Constant) and v.value is None and g and g[-1] == ("self.squash_output", True) for v, g in erets)
          and any(ast.unparse(v) == "self._handler.entropy(self.distribution)" for v, g in erets),
          "entropy is None for squashed outputs and the distribution's entropy otherwise", construct="entropy()")


def _forward(ck: Check, repo: Repo) -> None:
    fn = repo.fn(DM, "EvolvableDistribution.forward")
    cfg = CFG(fn.node)
    dist_set = [n for n in cfg.live_nodes() if n.kind == "stmt" and isinstance(n.ast, ast.Assign) and dotted(n.ast.targets[0]) == "self.dist"]
    # "this call's logits": a local whose every reaching definition is (a copy of) the wrapped network's output or its masked version
    chain: Set[int] = set()  # the definition nodes the argument of get_distribution comes from

    def from_net(name: str, at: Node, depth: int = 0) -> bool:
        defs = cfg.defs_reaching(at, name)
        if not defs or depth > 6:
            return False
        for d, x in [(d, x) for d in defs for x in _arms(cfg.value_of_def(d, name))]:
            chain.add(d.id)
            if isinstance(x, ast.Name):
                good = from_net(x.id, d, depth + 1)
            elif isinstance(x, ast.Call) and call_name(x) == "self.wrapped":
                good = True
            elif isinstance(x, ast.Call) and call_name(x) == "self.apply_mask" and x.args and isinstance(x.args[0], ast.Name):
                good = from_net(x.args[0].id, d, depth + 1)
            else:
                good = False
            if not good:
                return False
        return True

    # "the new distribution": the value of the one get_distribution call of this forward pass — wherever it is kept (the wrapper's attribute, a local, both)
    builds = [c for c in calls_in(fn.node) if call_name(c) == "self.get_distribution"]
    built = cfg.node_of(builds[0]) if len(builds) == 1 else None
    is_logits = built is not None and len(builds[0].args) == 1 and not builds[0].keywords and isinstance(builds[0].args[0], ast.Name) and from_net(builds[0].args[0].id, built)

    def holds_new(e: Optional[ast.AST], at: Node, depth: int = 0) -> bool:
        """e, evaluated at node `at`, is the distribution built by this call: the get_distribution call itself, or a local / an attribute every reaching
        definition of which binds it to that distribution (an attribute must have been set on every path to `at`: it keeps the previous call's value otherwise)."""
        if built is None or e is None or depth > 6:
            return False
        if e is builds[0]:
            return True
        key = dotted(e)
        defs = cfg.defs_reaching(at, key) if "?" not in key else []
        if not defs or (not isinstance(e, ast.Name) and cfg.path_avoiding(cfg.entry, {at.id}, {d.id for d in defs}) is not None):
            return False
        return all(d.kind == "stmt" and all(holds_new(v, d, depth + 1) for v in _arms(cfg.value_of_def(d, key))) for d in defs)

    def comes_from(e: Optional[ast.AST], at: Node, src: Node, depth: int = 0) -> bool:
        """The local e, read at node `at`, is the value bound at node `src` (or a copy of it), whichever path was taken."""
        if not isinstance(e, ast.Name) or depth > 6:
            return False
        defs = cfg.defs_reaching(at, e.id)
        return bool(defs) and all(d is src or (d.kind == "stmt" and all(comes_from(v, d, src, depth + 1) for v in _arms(cfg.value_of_def(d, e.id)))) for d in defs)

    def taken_of_new(meth: str) -> List[Node]:
        """The bindings `x = <the new distribution>.<meth>(...)`."""
        return [n for n in cfg.live_nodes() if n.kind == "stmt" and isinstance(n.ast, ast.Assign) and len(n.ast.targets) == 1 and isinstance(n.ast.targets[0], ast.Name)
                and isinstance(n.ast.value, ast.Call) and isinstance(n.ast.value.func, ast.Attribute) and n.ast.value.func.attr == meth and holds_new(n.ast.value.func.value, n)]

    # the wrapper keeps the new distribution: whichever way a forward pass ends, self.dist has been bound to it (log_prob() of the wrapper evaluates self.dist)
    ok = is_logits and bool(dist_set) and holds_new(dist_set[0].ast.targets[0], cfg.exit)
    ck.ob("C16.5", fn, dist_set[0].ast if dist_set else fn.node, ok, "every forward pass rebuilds the distribution from this call's logits")
    smp, lp, ent = taken_of_new("sample"), taken_of_new("log_prob"), taken_of_new("entropy")
    ok = len(smp) == 1 and len(lp) == 1 and len(lp[0].ast.value.args) + len(lp[0].ast.value.keywords) == 1 and comes_from(get_kw(lp[0].ast.value, "action", 0), lp[0], smp[0])
    ck.ob("C16.5", fn, lp[0].ast if lp else fn.node, ok, "the log-probability reported is that of the action just sampled from the new distribution")
    rets = [n for n in cfg.live_nodes() if n.kind == "stmt" and isinstance(n.ast, ast.Return)]
    ok = bool(rets) and bool(smp) and bool(lp) and all(isinstance(r.ast.value, ast.Tuple) and len(r.ast.value.elts) == 3 and comes_from(r.ast.value.elts[0], r, smp[0])
                                                      and comes_from(r.ast.value.elts[1], r, lp[0]) and any(comes_from(r.ast.value.elts[2], r, e) for e in ent) for r in rets)
    ck.ob("C16.5", fn, rets[0].ast if rets else fn.node, ok, "forward returns (that action, that log-probability, entropy)")
    # logits masked before the distribution is built
    masks = [cfg.node_of(c) for c in calls_in(fn.node) if call_name(c) == "self.apply_mask"]
    ok = len(masks) == 1 and masks[0] is not None and built is not None and cfg.dominates(cfg.node_of(calls_in(fn.node)[0]), masks[0]) and is_logits and masks[0].id in chain
    g = [(ast.unparse(gg), pol) for c in calls_in(fn.node) if call_name(c) == "self.apply_mask" for gg, pol in _expr_guards(cfg, c)] if masks and masks[0] else []
    ck.ob("C16.7", fn, masks[0].ast if masks and masks[0] else fn.node, ok and ("action_mask is not None", True) in g,
          "when a mask is given the masked logits (and nothing else) parameterise the distribution")
    # StochasticActor.forward: scaling only for squashed Box; log_prob passed through
    sa = repo.fn(AM, "StochasticActor.forward")
    src = ast.unparse(sa.node)
    ck.ob("C16.5", sa, sa.node, has(src, '$action, $log_prob, $entropy = self.head_net.forward($latent, $action_mask)') and has(src, 'return ($action, $log_prob, $entropy)'),
          "the actor returns the head's action, log-probability and entropy", construct="StochasticActor.forward passthrough")
    # the four configurations of the actor (squashing or not, continuous action space or not; see _assume): the action handed back is the head's action passed
    # through scale_action, once, when both hold, and the head's action itself in the other three — whatever the branches, temporaries and returns look like
    def is_box(t: ast.AST) -> bool:
        return (isinstance(t, ast.Call) and call_name(t) == "isinstance" and len(t.args) == 2 and not t.keywords and dotted(t.args[0]) == "self.action_space"
                and dotted(t.args[1]).split(".")[-1] == "Box")

    def head_action(e: Optional[ast.AST]) -> bool:
        """element 0 of what the head's forward pass returned"""
        return (isinstance(e, ast.Subscript) and const_value(e.slice) == 0 and not isinstance(const_value(e.slice), bool) and getattr(e, "_unpack_len", None) == 3
                and isinstance(e.value, ast.Call) and call_name(e.value) in ("self.head_net.forward", "self.head_net"))
    scaled_ok = True
    for squash in (True, False):
        for box in (True, False):
            view = _assume(_assume(sa.node, "self.squash_output", squash), is_box, box)
            vcfg = CFG(view)
            vrets = [n for n in vcfg.live_nodes() if n.kind == "stmt" and isinstance(n.ast, ast.Return)]
            scaled_ok = scaled_ok and bool(vrets)
            for r in vrets:
                for v in _arms(r.ast.value):
                    v = _origin(vcfg, v, r)
                    x = _origin(vcfg, v.elts[0], vcfg.node_of(v) or r) if isinstance(v, ast.Tuple) and v.elts else None
                    if squash and box:
                        inner = x.args[0] if isinstance(x, ast.Call) and call_name(x) == "self.scale_action" and len(x.args) == 1 and not x.keywords else None
                        x = _origin(vcfg, inner, vcfg.node_of(inner) or r) if inner is not None else None
                    scaled_ok = scaled_ok and head_action(x)
    ck.ob("C16.4", sa, sa.node, scaled_ok, "only squashed continuous actions are rescaled to the action bounds", construct="StochasticActor.forward scaling")
    sc = repo.fn(AM, "StochasticActor.scale_action")
    tb = TermBuilder(repo, sc, depth=0)
    rets = [n for n in tb.cfg.live_nodes() if n.kind == "stmt" and isinstance(n.ast, ast.Return)]
    if rets:
        got = tb.term(rets[0].ast.value, rets[0])
        a, lo, hi = Poly.atom("param:StochasticActor.scale_action.action"), Poly.atom("attr:self.action_low"), Poly.atom("attr:self.action_high")
        want = lo + Poly.const("0.5") * (a + Poly.const(1)) * (hi - lo)
        ck.ob("C16.4", sc, rets[0].ast, got == want, "scale_action maps [-1, 1] affinely onto [low, high]", detail=got.key()[:160])
    al = repo.fn(AM, "StochasticActor.action_log_prob")
    ck.ob("C16.3", al, al.node, has(al.node, 'return self.head_net.log_prob($action)'), "action_log_prob evaluates the head's current distribution at the given action",
          construct="StochasticActor.action_log_prob")
    el = repo.fn(DM, "EvolvableDistribution.log_prob")
    ck.ob("C16.3", el, el.node, has(el.node, 'return self.dist.log_prob($action)') and has(el.node, 'if self.dist is None:\n    raise ValueError'),
          "EvolvableDistribution.log_prob delegates to the current distribution and refuses to run before a forward pass", construct="EvolvableDistribution.log_prob")


def _action_axis_kept(ck: Check, repo: Repo) -> None:
    """The stored actions handed to the log-probability evaluation keep their action axis: a dimension-less squeeze()
    (which also removes the axis of one-dimensional Box actions) is undone before the evaluation."""
    sites = [("agilerl.algorithms.ppo", "PPO.learn", "self.evaluate_actions", "actions"), ("agilerl.algorithms.ippo", "IPPO._learn_individual", "actor.action_log_prob", None)]
    n = 0
    for modname, q, callee, kw in sites:
        fn = repo.fn(modname, q)
        cfg = CFG(fn.node)
        for c in [c for c in calls_in(fn.node) if call_name(c) == callee]:
            arg = get_kw(c, kw) if kw and get_kw(c, kw) is not None else (c.args[-1] if c.args else None)
            if not isinstance(arg, ast.Name):
                continue
            node = cfg.node_of(c)
            if node is None:
                continue
            n += 1
            defs = cfg.defs_reaching(node, arg.id)
            vals = [(d, cfg.value_of_def(d, arg.id)) for d in defs]

            def dimless_squeeze(v):
                return isinstance(v, ast.Call) and last_attr(v) == "squeeze" and not v.args and not v.keywords

            def readds_axis(d, v):
                if not (isinstance(v, ast.Call) and last_attr(v) in ("unsqueeze", "reshape", "view") and dotted(v.func.value) == arg.id):
                    return False
                gs = " ".join(ast.unparse(g) for g, pol, _ in cfg.guards_at(d) if pol)
                # every action-space kind whose actions lose their only component axis under squeeze(): Box(1,), MultiBinary(1), MultiDiscrete of length 1
                return "spaces.Box" in gs and ".shape == (1,)" in gs.replace("(\n", "(") and "spaces.MultiBinary" in gs and "spaces.MultiDiscrete" in gs
            squeezed = any(dimless_squeeze(v) for _, v in vals)
            # a re-adding definition reaches the call only if it lies between the squeeze and the call
            restored = any(readds_axis(d, v) for d, v in vals)
            ck.ob("C16.6", fn, c, (not squeezed) or restored,
                  f"{q}: stored actions are re-evaluated with their action axis (a dimension-less squeeze() is undone for single-component actions — Box(1,), MultiBinary(1), MultiDiscrete of length 1 — before the log-probability is taken)",
                  detail=f"`{arg.id}` reaches `{short(c, 50)}` as `{arg.id}.squeeze()` without the Box / shape == (1,) guarded unsqueeze in between: for Box(1,) actions of shape "
                         "(B,) Normal.log_prob broadcasts against the (B, 1) mean to (B, B) and the sum over components adds B unrelated terms",
                  construct=f"{q}: action axis at {short(c, 50)}")
    ck.floor("C16.6", n, 2, "log-probability re-evaluations of stored actions in the learn paths")


def _reeval(ck: Check, repo: Repo) -> None:
    _action_axis_kept(ck, repo)
    ev = repo.fn("agilerl.algorithms.ppo", "PPO.evaluate_actions")
    cfg = CFG(ev.node)
    fw = [cfg.node_of(c) for c in calls_in(ev.node) if call_name(c) == "self._get_action_and_values"]
    lp = [cfg.node_of(c) for c in calls_in(ev.node) if call_name(c) == "self.actor.action_log_prob"]
    ok = len(fw) == 1 and len(lp) == 1 and cfg.dominates(fw[0], lp[0])
    ck.ob("C16.6", ev, lp[0].ast if lp and lp[0] else ev.node, ok, "PPO.evaluate_actions runs the policy on the batch observations before asking for the log-probability")
    if ok:
        fc = [c for c in calls_in(ev.node) if call_name(c) == "self._get_action_and_values"][0]
        lc = [c for c in calls_in(ev.node) if call_name(c) == "self.actor.action_log_prob"][0]
        ck.ob("C16.6", ev, fc, dotted(fc.args[0]) == "obs" and any(isinstance(n, ast.Assign) and dotted(n.targets[0]) == "obs" and "preprocess_observation(obs)" in ast.unparse(n.value) for n in walk_no_nested(ev.node)),
              "the forward pass uses the (preprocessed) observations that were passed in")
        ck.ob("C16.6", ev, lc, dotted(lc.args[0]) == "actions", "the log-probability is asked for the actions that were passed in")
    gv = repo.fn("agilerl.algorithms.ppo", "PPO._get_action_and_values")
    src = ast.unparse(gv.node)
    # the head is evaluated on the features extracted from the given observations: forward_head(latent, ...) or, equivalently, head_net(latent, ...) /
    # head_net.forward(latent, ...); the latent argument is (a single-definition local bound to) self.actor.extract_features(<observation parameter>)
    gcfg = CFG(gv.node)
    head_calls = [c for c in calls_in(gv.node) if dotted(c.func) in ("self.actor.forward_head", "self.actor.head_net", "self.actor.head_net.forward") and c.args]

    def _is_features(e: ast.AST, at) -> bool:
        if isinstance(e, ast.Call) and dotted(e.func) == "self.actor.extract_features" and e.args and isinstance(e.args[0], ast.Name) and e.args[0].id in gv.params:
            return True
        if isinstance(e, ast.Name) and at is not None:
            ds = gcfg.defs_reaching(at, e.id)
            return bool(ds) and all(gcfg.value_of_def(d, e.id) is not None and _is_features(gcfg.value_of_def(d, e.id), d) for d in ds)
        return False
    ck.ob("C16.6", gv, gv.node, bool(head_calls) and all(_is_features(c.args[0], gcfg.node_of(c)) for c in head_calls),
          "_get_action_and_values feeds the actor's head with the features of the given observations", construct="_get_action_and_values")
    ip = repo.fn("agilerl.algorithms.ippo", "IPPO._learn_individual")
    icfg = CFG(ip.node)
    # minibatch observations / actions: fields 0 and 1 of the tuple unpacked from get_experiences_samples(idxs, *experiences)
    mb = [n for n in walk_no_nested(ip.node) if isinstance(n, ast.Assign) and isinstance(n.value, ast.Call) and call_name(n.value) == "get_experiences_samples"
          and isinstance(n.targets[0], ast.Tuple) and len(n.targets[0].elts) >= 2 and all(isinstance(e, ast.Name) for e in n.targets[0].elts[:2])]
    mb_states, mb_actions = (mb[0].targets[0].elts[0].id, mb[0].targets[0].elts[1].id) if len(mb) == 1 else (None, None)
    fw = [c for c in calls_in(ip.node) if isinstance(c.func, ast.Name) and c.func.id == "actor" and c.args and mb_states is not None and dotted(c.args[0]) == mb_states]
    lp = [c for c in calls_in(ip.node) if call_name(c) == "actor.action_log_prob"]
    ok = len(fw) == 1 and len(lp) == 1 and icfg.dominates(icfg.node_of(fw[0]), icfg.node_of(lp[0])) and dotted(lp[0].args[0]) == mb_actions
    ck.ob("C16.6", ip, lp[0] if lp else ip.node, ok, "IPPO: actor(batch_states) precedes actor.action_log_prob(batch_actions) in every minibatch")
    if ok:
        n = icfg.node_of(fw[0])
        defs = icfg.defs_reaching(n, mb_states)
        ck.ob("C16.6", ip, fw[0], any(isinstance(x, ast.Call) and call_name(x).split(".")[-1] == "preprocess_observation" and x.args and dotted(x.args[0]) == mb_states
                                      for d in defs if d.kind == "stmt" for x in ast.walk(d.ast)), "IPPO: the forward pass uses the preprocessed minibatch observations")


def _wrapper_rebuild(ck: Check, repo: Repo) -> None:
    sa = repo.cls(AM, "StochasticActor")
    dist = repo.cls(DM, "EvolvableDistribution")
    sig = dist.methods["__init__"].named_params[1:]
    init, rec = sa.methods["__init__"], sa.methods["recreate_network"]

    def bound(fn: Fn) -> List[Dict[str, ast.AST]]:
        out = []
        for c in calls_in(fn.node):
            if isinstance(c.func, ast.Name) and c.func.id == "EvolvableDistribution":
                b: Dict[str, ast.AST] = {}
                for i, a in enumerate(c.args):
                    if i < len(sig):
                        b[sig[i]] = a
                for k in c.keywords:
                    if k.arg:
                        b[k.arg] = k.value
                out.append(b)
        return out
    bi, br = bound(init), bound(rec)
    ck.ob("C16.9", rec, rec.node, len(bi) == 1 and len(br) == 1, "StochasticActor builds one distribution wrapper in __init__ and one in recreate_network",
          detail=f"{len(bi)} / {len(br)}", construct="StochasticActor: distribution wrapper sites")
    if len(bi) != 1 or len(br) != 1:
        return
    params = set(init.named_params)
    for prm in sig:
        if prm == "network":
            continue
        if prm not in bi[0]:
            continue
        v_i = bi[0][prm]
        v_r = br[0].get(prm)
        want = None
        if isinstance(v_i, ast.Name) and v_i.id in params:
            want = f"self.{v_i.id}"
        elif dotted(v_i).startswith("self."):
            want = dotted(v_i)
        ck.ob("C16.9", rec, rec.node, v_r is not None and (want is None or dotted(v_r) == want),
              f"StochasticActor.recreate_network passes `{prm}` to the rebuilt distribution wrapper as __init__ did",
              detail=f"__init__: {prm}={short(v_i, 40)}; recreate_network: {prm}={short(v_r, 40) if v_r is not None else 'not passed (constructor default)'} — after a latent mutation the head "
                     "no longer squashes / scales as the actor reports (actions outside the bounds, no tanh correction in the log-probability)",
              construct=f"StochasticActor: wrapper argument {prm}")


_KINDS = ("Discrete", "MultiDiscrete", "MultiBinary")  # the space kinds apply_mask supports; "other" stands for every other kind
_ALL = frozenset(_KINDS + ("other",))
Val = Tuple  # ("L",) the logits argument | ("M", ops) the mask argument after the conversions `ops` | ("split", base, sizes, dim) | ("piece", base, sizes, dim, index)
#              | ("W",) the whole logits tensor, every entry masked with the mask entry at its own position | ("mpiece", sizes, dim, index) one such piece
#              | ("list", element, loop, all pieces visited in order?) | ("bad", why)


def _show(v: Val) -> str:
    return {"W": "every logit masked with the mask entry at its position", "L": "the logits, not masked", "M": "the mask"}.get(v[0]) or \
        (v[1] if v[0] == "bad" else {"split": "the pieces of a split", "piece": "one piece of a split", "mpiece": "one masked piece", "list": "a list of pieces, not concatenated"}.get(v[0], v[0]))


def _converted(ops: Tuple[str, ...]) -> bool:
    """The conversions turn the caller's mask into booleans and the last change of shape gives it the logits' shape."""
    shapes = [o for o in ops if o.startswith("shape")]
    return "bool" in ops and bool(shapes) and shapes[-1] == "shape of the logits"


class _MaskLayout:
    """Which (logit, mask entry) pairs meet in the selection primitive, for every value the function can return, per kind of action space.

    Locals are followed along their reaching definitions (also through conditional expressions, loop variables of `zip` loops, lists built by `append` in a
    loop or by a comprehension); the kinds of action space a definition can be executed for are read off the isinstance tests that guard it."""

    def __init__(self, fn: Fn, primitive: str, prim_params: List[str], i_logits: int, i_mask: int):
        self.fn, self.cfg = fn, CFG(fn.node)
        self.primitive, self.prim_params, self.i_logits, self.i_mask = primitive, prim_params, i_logits, i_mask
        self.p_logits, self.p_mask = (fn.named_params + ["?", "?", "?"])[1:3]
        self.mask_uses: List[Tuple[Tuple[str, ...], ast.AST]] = []  # (conversions, site) of every mask value that is consumed
        self._kinds: Dict[int, frozenset] = {}
        self._parent: Dict[int, ast.AST] = {}
        for x in ast.walk(fn.node):
            for ch in ast.iter_child_nodes(x):
                self._parent[id(ch)] = x

    # ---------------------------------------------------------------------------------------- kinds of action space
    def _is_space(self, e: ast.AST, n: Node) -> bool:
        if dotted(e) == "self.action_space":
            return True
        if isinstance(e, ast.Name):
            vals = _alt_values(self.cfg, n, e.id)
            return bool(vals) and all(v is not None and dotted(v) == "self.action_space" for v in vals)
        return False

    def _classes(self, e: ast.AST, n: Node, depth: int = 0) -> Optional[Set[str]]:
        """The classes named by the second argument of isinstance (a class, a tuple of classes, a local bound to one)."""
        if isinstance(e, ast.Tuple):
            out: Set[str] = set()
            for x in e.elts:
                c = self._classes(x, n, depth)
                if c is None:
                    return None
                out |= c
            return out
        if isinstance(e, ast.Name) and depth < 4:
            defs = self.cfg.defs_reaching(n, e.id)
            if defs:
                v = self.cfg.value_of_def(defs[0], e.id) if len(defs) == 1 else None
                return self._classes(v, defs[0], depth + 1) if v is not None else None
        d = dotted(e)
        return {d.split(".")[-1]} if d and "?" not in d else None

    def narrow(self, test: ast.AST, pol: bool, kinds: frozenset, n: Node) -> frozenset:
        """The kinds left when `test` came out as `pol`."""
        while isinstance(test, ast.UnaryOp) and isinstance(test.op, ast.Not):
            test, pol = test.operand, not pol
        if isinstance(test, ast.BoolOp):
            if isinstance(test.op, ast.And) == pol:  # all operands came out as pol
                for v in test.values:
                    kinds = self.narrow(v, pol, kinds, n)
                return kinds
            return frozenset().union(*[self.narrow(v, pol, kinds, n) for v in test.values])
        if isinstance(test, ast.Call) and call_name(test) == "isinstance" and len(test.args) == 2 and self._is_space(test.args[0], n):
            cs = self._classes(test.args[1], n)
            if cs is None:
                return kinds
            if pol:
                return kinds & frozenset((cs & set(_KINDS)) | ({"other"} if cs - set(_KINDS) else set()))
            return kinds - (cs & set(_KINDS))
        return kinds

    def kinds_at(self, n: Node) -> frozenset:
        if n.id not in self._kinds:
            k = _ALL
            for g, pol, t in self.cfg.guards_at(n):
                k = self.narrow(g, pol, k, t)
            self._kinds[n.id] = k
        return self._kinds[n.id]

    # ---------------------------------------------------------------------------------------- values
    def _loops(self, s: Optional[ast.AST]) -> List[int]:
        """The loops the statement lies in (outermost first)."""
        out: List[int] = []
        while s is not None and s is not self.fn.node:
            s = self._parent.get(id(s))
            if isinstance(s, (ast.For, ast.While, ast.AsyncFor)):
                out.insert(0, id(s))
        return out

    def _key(self, e: ast.AST, n: Node) -> str:
        """Two expressions with the same key have the same value: same text, every local in it with the same reaching definitions."""
        names = sorted({(x.id, tuple(d.id for d in self._defs(n, x.id))) for x in ast.walk(e) if isinstance(x, ast.Name)})
        return ast.unparse(e) + " " + repr(names)

    def _defs(self, n: Node, name: str) -> List[Node]:
        defs = self.cfg.defs_reaching(n, name)
        if n.kind == "for":  # the iterable is evaluated once, before the loop: what the loop itself binds does not reach it
            defs = [d for d in defs if not self.cfg.dominates(n, d)]
        return defs

    def _dim(self, c: ast.Call, pos: int) -> Optional[int]:
        d = get_kw(c, "dim", pos)
        v = 0 if d is None else const_value(d)
        return (1 if v == -1 else v) if isinstance(v, int) and not isinstance(v, bool) else None

    def _use(self, v: Val, site: ast.AST) -> None:
        if v[0] == "M":
            self.mask_uses.append((v[1], site))

    def _probe(self, e: ast.AST, n: Node, kinds: frozenset, env, depth: int) -> None:
        """An expression the model does not describe: its parts are still looked at (the mask values among them count as used)."""
        for ch in ast.iter_child_nodes(e):
            ch = ch.value if isinstance(ch, ast.keyword) else ch
            if isinstance(ch, ast.expr) and not isinstance(ch, (ast.Lambda, ast.Constant)):
                for _, v in self.ev(ch, n, kinds, env, depth + 1):
                    self._use(v, ch)

    def _pairs(self, parts: List[List[Tuple[frozenset, Val]]]) -> List[Tuple[frozenset, List[Val]]]:
        out: List[Tuple[frozenset, List[Val]]] = [(_ALL, [])]
        for alts in parts:
            out = [(k & k2, vs + [v]) for k, vs in out for k2, v in alts if k & k2]
        return out

    def ev(self, e: Optional[ast.AST], n: Node, kinds: frozenset, env: Optional[Dict[str, Val]] = None, depth: int = 0) -> List[Tuple[frozenset, Val]]:
        """(kinds of action space, value) for every alternative the expression e, evaluated at node n, can stand for."""
        if e is None or depth > 24:
            return [(kinds, ("bad", "a value that is not followed"))]
        if isinstance(e, ast.IfExp):
            out = []
            for arm, pol in ((e.body, True), (e.orelse, False)):
                k = self.narrow(e.test, pol, kinds, n)
                out += self.ev(arm, n, k, env, depth + 1) if k else []
            return out
        if isinstance(e, ast.Name):
            if env and e.id in env:
                return [(kinds, env[e.id])]
            return self._name(e.id, n, kinds, depth)
        if isinstance(e, (ast.ListComp, ast.GeneratorExp)):
            return self._comprehension(e, n, kinds, env, depth)
        if isinstance(e, ast.Call):
            return self._call(e, n, kinds, env, depth)
        self._probe(e, n, kinds, env, depth)
        return [(kinds, ("bad", f"`{short(e, 50)}` (not a whole tensor, nor the pieces of a split taken in order)"))]

    def _name(self, name: str, n: Node, kinds: frozenset, depth: int) -> List[Tuple[frozenset, Val]]:
        defs = self._defs(n, name)
        if not defs:
            return [(kinds, ("bad", f"`{name}` is not a local"))]
        if any(self._append(d, name) is not None for d in defs):
            return self._built_list(name, n, defs, kinds, depth)
        out: List[Tuple[frozenset, Val]] = []
        for d in defs:
            k = kinds & self.kinds_at(d)
            if not k:
                continue  # the definition is made for other kinds of action space only
            if d.kind == "entry":
                out.append((k, ("L",) if name == self.p_logits else ("M", ()) if name == self.p_mask else ("bad", f"the argument `{name}`")))
            elif d.kind == "for":
                out += self._loop_var(name, d.ast.target, d.ast.iter, d, d.id, k, None, depth)
            else:
                v = self.cfg.value_of_def(d, name)
                out += self.ev(v, d, k, None, depth + 1) if v is not None else [(k, ("bad", f"`{name}` as changed by `{short(d.ast, 50)}`"))]
        return out

    def _sources(self, target: ast.AST, it: ast.AST) -> Optional[List[Tuple[Optional[str], ast.AST]]]:
        """(loop variable, what it runs over) for `for a, b in zip(x, y)` / `for a in x`."""
        if isinstance(target, ast.Name):
            return [(target.id, it)]
        if isinstance(target, (ast.Tuple, ast.List)) and isinstance(it, ast.Call) and call_name(it) == "zip" and not it.keywords and len(it.args) == len(target.elts) \
                and all(isinstance(t, ast.Name) for t in target.elts) and not any(isinstance(x, ast.Starred) for x in it.args):
            return [(t.id, x) for t, x in zip(target.elts, it.args)]
        return None

    def _loop_var(self, name: str, target: ast.AST, it: ast.AST, n: Node, loop: int, kinds: frozenset, env, depth: int) -> List[Tuple[frozenset, Val]]:
        srcs = self._sources(target, it)
        src = [x for t, x in srcs or [] if t == name]
        if len(src) != 1:
            self._probe(it, n, kinds, env, depth)
            return [(kinds, ("bad", f"`{name}` bound by a loop over `{short(it, 50)}`"))]
        return [(k, ("piece", v[1], v[2], v[3], ("it", loop)) if v[0] == "split" else v if v[0] == "bad" else ("bad", f"`{name}` runs over `{short(src[0], 40)}`"))
                for k, v in self.ev(src[0], n, kinds, env, depth + 1)]

    def _visits_all(self, target: ast.AST, it: ast.AST, n: Node, kinds: frozenset, env, depth: int) -> bool:
        """The loop visits every piece once, in order: everything it runs over is a complete split."""
        srcs = self._sources(target, it)
        return bool(srcs) and all(v[0] == "split" for _, x in srcs for _, v in self.ev(x, n, kinds, env, depth + 1))

    def _append(self, d: Node, name: str) -> Optional[ast.Call]:
        s = d.ast
        if d.kind == "stmt" and isinstance(s, ast.Expr) and isinstance(s.value, ast.Call) and isinstance(s.value.func, ast.Attribute) and dotted(s.value.func.value) == name \
                and s.value.func.attr == "append" and len(s.value.args) == 1 and not s.value.keywords:
            return s.value
        return None

    def _built_list(self, name: str, n: Node, defs: List[Node], kinds: frozenset, depth: int) -> List[Tuple[frozenset, Val]]:
        """A list that starts empty and receives one element per iteration of one loop is the comprehension over that loop."""
        def no(why: str) -> List[Tuple[frozenset, Val]]:
            return [(kinds, ("bad", f"the list `{name}`: {why}"))]
        apps = [d for d in defs if self._append(d, name) is not None]
        start = [d for d in defs if d not in apps]
        v0 = self.cfg.value_of_def(start[0], name) if len(start) == 1 else None
        if not (isinstance(v0, ast.List) and not v0.elts or isinstance(v0, ast.Call) and call_name(v0) == "list" and not v0.args and not v0.keywords):
            return no("it does not start as one empty list")
        if len(apps) != 1:
            return no("elements are added at several places")
        others = [c for c in calls_in(self.fn.node) if isinstance(c.func, ast.Attribute) and dotted(c.func.value) == name and c is not self._append(apps[0], name)]
        if others:
            return no(f"it is also changed by `{short(others[0], 50)}`")
        loop = self._parent.get(id(apps[0].ast))
        fornode = next((x for x in self.cfg.live_nodes() if x.kind == "for" and x.ast is loop), None)
        if not isinstance(loop, ast.For) or fornode is None or apps[0].ast not in loop.body or loop.orelse \
                or any(isinstance(x, (ast.Continue, ast.Break, ast.Return, ast.Raise)) for s in loop.body for x in ast.walk(s)):
            return no("the element is not added exactly once per iteration of a loop")
        here = n.stmt if n.stmt is not None else n.ast
        if not (self._loops(start[0].ast) == self._loops(loop) == self._loops(here) and self.cfg.dominates(start[0], fornode) and self.cfg.dominates(fornode, n)):
            return no("it is not emptied before, or is read inside, the loop that fills it")
        k = kinds & self.kinds_at(apps[0])
        full = self._visits_all(loop.target, loop.iter, fornode, k, None, depth)
        return [(k2, ("list", v, fornode.id, full)) for k2, v in self.ev(self._append(apps[0], name).args[0], apps[0], k, None, depth + 1)]

    def _comprehension(self, e: ast.AST, n: Node, kinds: frozenset, env, depth: int) -> List[Tuple[frozenset, Val]]:
        g = e.generators[0]
        srcs = self._sources(g.target, g.iter) if len(e.generators) == 1 and not g.ifs and not g.is_async else None
        if not srcs:
            self._probe(e, n, kinds, env, depth)
            return [(kinds, ("bad", f"`{short(e, 50)}` (not one loop over the zipped pieces)"))]
        out = []
        bound = [self._loop_var(t, g.target, g.iter, n, id(e), kinds, env, depth) for t, _ in srcs]
        full = self._visits_all(g.target, g.iter, n, kinds, env, depth)
        for k, vs in self._pairs(bound):
            k = k & kinds
            env2 = dict(env or {})
            env2.update({t: v for (t, _), v in zip(srcs, vs)})
            out += [(k2, ("list", v, id(e), full)) for k2, v in self.ev(e.elt, n, k, env2, depth + 1)] if k else []
        return out

    def _masked(self, a: Val, b: Val, c: ast.Call) -> Val:
        self._use(b, c)
        if a == ("L",) and b[0] == "M":
            return ("W",)
        if a[0] == "piece" and b[0] == "piece" and a[1] == ("L",) and b[1][0] == "M":
            if a[2:] == b[2:]:
                return ("mpiece",) + a[2:]
            return ("bad", "logits and mask are split by different sizes" if a[2] != b[2] else "logits and mask are split along different axes" if a[3] != b[3]
                    else "a piece of the logits meets another piece of the mask")
        for x in (a, b):
            if x[0] == "bad":
                return x
        return ("bad", f"`{short(c, 60)}` selects among {_show(a)} by {_show(b)}")

    def _call(self, c: ast.Call, n: Node, kinds: frozenset, env, depth: int) -> List[Tuple[frozenset, Val]]:
        name, attr = call_name(c), (c.func.attr if isinstance(c.func, ast.Attribute) else "")
        recv = c.func.value if isinstance(c.func, ast.Attribute) and dotted(c.func.value) != "torch" else None

        def bad(why: str) -> List[Tuple[frozenset, Val]]:
            self._probe(c, n, kinds, env, depth)
            return [(kinds, ("bad", why))]

        def sub(x: Optional[ast.AST]) -> List[Tuple[frozenset, Val]]:
            return self.ev(x, n, kinds, env, depth + 1)
        if name.split(".")[-1] == self.primitive:
            la, ma = get_kw(c, self.prim_params[self.i_logits], self.i_logits), get_kw(c, self.prim_params[self.i_mask], self.i_mask)
            if la is None or ma is None or len(c.args) + len(c.keywords) != 2:
                return bad(f"`{short(c, 60)}`: not (logits, mask)")
            return [(k & kinds, self._masked(vs[0], vs[1], c)) for k, vs in self._pairs([sub(la), sub(ma)]) if k & kinds]
        if attr == "split" and (recv is not None or name == "torch.split"):
            x, sizes = (recv, get_kw(c, "split_size", 0)) if recv is not None else (get_kw(c, "tensor", 0), get_kw(c, "split_size_or_sections", 1))
            dim = self._dim(c, 1 if recv is not None else 2)
            if x is None or sizes is None or dim is None:
                return bad(f"`{short(c, 60)}`: split not understood")
            out = []
            for k, v in sub(x):
                self._use(v, c)
                out.append((k, ("split", v, self._key(sizes, n), dim) if v[0] in ("L", "M") else v if v[0] == "bad" else ("bad", f"`{short(c, 50)}` splits {_show(v)}")))
            return out
        if name in ("torch.cat", "torch.concat", "torch.concatenate"):
            x, dim = get_kw(c, "tensors", 0), self._dim(c, 1)
            out = []
            for k, v in sub(x):
                if v[0] == "list" and v[1][0] == "mpiece" and v[1][2] == dim and v[1][3] == ("it", v[2]) and v[3]:
                    out.append((k, ("W",)))
                elif v[0] == "list" and v[1][0] == "bad":
                    out.append((k, v[1]))
                else:
                    out.append((k, ("bad", f"`{short(c, 60)}` does not put all masked pieces back in their order, along the axis they were split on")))
            return out
        if name in ("list", "tuple") and len(c.args) == 1 and not c.keywords:
            return [(k, v if v[0] in ("list", "split", "bad") else ("bad", f"`{short(c, 50)}`")) for k, v in sub(c.args[0])]
        # conversions of the mask
        conv: Optional[Tuple[ast.AST, str]] = None
        if name in ("torch.as_tensor", "torch.tensor") and c.args:
            conv = (c.args[0], "bool" if dotted(get_kw(c, "dtype") or c) == "torch.bool" else "tensor")
        elif recv is not None and attr in ("bool", "to", "contiguous", "clone", "detach"):
            conv = (recv, "bool" if attr == "bool" or any(dotted(x) == "torch.bool" for x in list(c.args) + [k.value for k in c.keywords]) else "same")
        elif recv is not None and attr in ("view", "reshape", "view_as", "reshape_as", "expand", "expand_as", "flatten", "squeeze", "unsqueeze", "repeat", "permute", "transpose", "t", "flip", "roll"):
            like = c.args[0] if len(c.args) == 1 and not c.keywords else None
            if attr in ("view", "reshape") and isinstance(like, ast.Starred):
                like = like.value
            if attr in ("view", "reshape"):
                like = like.value if isinstance(like, ast.Attribute) and like.attr == "shape" else like.func.value if isinstance(like, ast.Call) and last_attr(like) == "size" and not like.args else None
            elif attr not in ("view_as", "reshape_as"):
                like = None
            same = like is not None and all(v == ("L",) for _, v in sub(like))
            conv = (recv, "shape of the logits" if same else f"shape by `.{attr}({', '.join(short(x, 30) for x in c.args)})`")
        if conv is not None:
            return [(k, ("M", v[1] + (conv[1],)) if v[0] == "M" else v if v[0] == "bad" else ("bad", f"`{short(c, 50)}`")) for k, v in sub(conv[0])]
        return bad(f"`{short(c, 60)}` (not a whole tensor, nor the pieces of a split taken in order)")

    # ---------------------------------------------------------------------------------------- what the obligations ask
    def returned(self) -> List[Tuple[frozenset, Val]]:
        out: List[Tuple[frozenset, Val]] = []
        for r in [n for n in self.cfg.live_nodes() if n.kind == "stmt" and isinstance(n.ast, ast.Return)]:
            out += self.ev(r.ast.value, r, self.kinds_at(r))
        return out

    def rejects_other(self) -> bool:
        """A `raise NotImplementedError` that kinds other than the supported ones reach."""
        return any("other" in self.kinds_at(n) for n in self.cfg.live_nodes() if n.kind == "stmt" and isinstance(n.ast, ast.Raise) and n.ast.exc is not None
                   and dotted(n.ast.exc.func if isinstance(n.ast.exc, ast.Call) else n.ast.exc) == "NotImplementedError")

    def _leaves(self, e: Optional[ast.AST], n: Node, kinds: frozenset, depth: int = 0) -> List[Tuple[frozenset, Optional[ast.AST]]]:
        """The expressions a value can come from (through locals and conditional expressions), each with the kinds it is used for."""
        if isinstance(e, ast.IfExp):
            return [x for arm, pol in ((e.body, True), (e.orelse, False)) for x in self._leaves(arm, n, self.narrow(e.test, pol, kinds, n), depth + 1)]
        if isinstance(e, ast.Name) and depth < 12 and self._defs(n, e.id):
            return [x for d in self._defs(n, e.id) for x in self._leaves(self.cfg.value_of_def(d, e.id), d, kinds & self.kinds_at(d), depth + 1)]
        return [(kinds, e)]

    def split_sizes(self) -> List[Tuple[frozenset, Optional[ast.AST], bool]]:
        """(kinds, sizes expression, the space's own component sizes?) for every split in the function: list(nvec) for MultiDiscrete, [n] for the others."""
        out = []
        for c in calls_in(self.fn.node):
            n = self.cfg.node_of(c)
            if n is None or not (isinstance(c.func, ast.Attribute) and c.func.attr == "split"):
                continue
            sizes = get_kw(c, "split_size_or_sections", 1) if call_name(c) == "torch.split" else get_kw(c, "split_size", 0)
            k0 = self.kinds_at(n)
            for t, pol in [(t, pol) for root in n.exprs() for t, pol in _arm_tests(root, c)]:
                k0 = self.narrow(t, pol, k0, n)
            for k, leaf in self._leaves(sizes, n, k0):
                k = k - {"other"}
                if not k:
                    continue
                of = leaf
                if isinstance(leaf, ast.Call) and call_name(leaf) in ("list", "tuple") and len(leaf.args) == 1:
                    of = leaf.args[0]
                elif isinstance(leaf, ast.Call) and last_attr(leaf) == "tolist" and not leaf.args:
                    of = leaf.func.value
                elif isinstance(leaf, (ast.List, ast.Tuple)) and len(leaf.elts) == 1:
                    of = leaf.elts[0]
                wrapped = of is not leaf and not isinstance(leaf, (ast.List, ast.Tuple))
                own = isinstance(of, ast.Attribute) and self._is_space(of.value, n) and of.attr
                out.append((k, leaf, (own == "nvec" and wrapped and k == {"MultiDiscrete"}) or (own == "n" and not wrapped and "MultiDiscrete" not in k)))
        return out


def _mask(ck: Check, repo: Repo) -> None:
    am = repo.fn(DM, "apply_action_mask_discrete")
    rets = [n for n in walk_no_nested(am.node) if isinstance(n, ast.Return)]
    ok = False
    detail = ""
    if rets and isinstance(rets[0].value, ast.Call) and call_name(rets[0].value) == "torch.where" and len(rets[0].value.args) == 3:
        a = rets[0].value.args
        consts = [const_value(x) for x in ast.walk(a[2]) if const_value(x) is not None and isinstance(const_value(x), (int, float)) and not isinstance(const_value(x), bool)]
        ok = dotted(a[0]) == "mask" and dotted(a[1]) == "logits" and any(c <= -1e8 for c in consts)
        detail = f"where({short(a[0], 20)}, {short(a[1], 20)}, {short(a[2], 60)})"
    ck.ob("C16.7", am, rets[0] if rets else am.node, ok, "allowed logits are kept, masked logits are replaced by a constant <= -1e8", detail=detail)
    # the condition is the caller's mask itself: no rebinding / in-place change of `mask` or `logits` before the selection
    rebinds = [x for x in walk_no_nested(am.node) if (isinstance(x, (ast.Assign, ast.AugAssign, ast.AnnAssign)) and any(
        isinstance(t, ast.Name) and t.id in ("mask", "logits") or (isinstance(t, ast.Subscript) and dotted(t.value) in ("mask", "logits"))
        for t in (x.targets if isinstance(x, ast.Assign) else [x.target])))
        or (isinstance(x, ast.Call) and isinstance(x.func, ast.Attribute) and x.func.attr.endswith("_") and not x.func.attr.startswith("_") and dotted(x.func.value) in ("mask", "logits"))]
    ck.ob("C16.7", am, rebinds[0] if rebinds else am.node, not rebinds, "every entry the caller's mask marks as illegal is masked (the mask is used as given)",
          detail=f"`{short(rebinds[0], 80)}` changes the mask / logits before the selection: entries marked illegal can keep their logit (for MultiBinary an all-zero row means "
                 "'no bit may be set' and must stay fully masked)" if rebinds else "", construct="apply_action_mask_discrete: mask used as given")
    # ---- apply_mask: every logit is masked with the mask entry at the SAME position.  The four obligations below are read off one small evaluation of the
    # values apply_mask can return (def-use chains with the space kinds known at each definition), not off the spelling of the function: masking the whole
    # tensor element-wise, and splitting logits and mask alike / masking each piece with its own piece / concatenating in order, are the same program.
    ap = repo.fn(DM, "EvolvableDistribution.apply_mask")
    prm = am.named_params
    sel = rets[0].value.args if ok and dotted(rets[0].value.args[0]) in prm and dotted(rets[0].value.args[1]) in prm else None
    # the primitive's parameters by role: the one torch.where keeps (logits) and the one it tests (mask)
    lay = _MaskLayout(ap, am.qualname, prm, prm.index(dotted(sel[1])) if sel else 0, prm.index(dotted(sel[0])) if sel else 1)
    alts = lay.returned()
    ck.note("apply_mask_values", [f"{'|'.join(sorted(k))}: {_show(v)}" for k, v in alts])
    convs = lay.mask_uses
    bad_conv = [ops for ops, _ in convs if not _converted(ops)]
    ck.ob("C16.7", ap, ap.node, bool(convs) and not bad_conv, "the mask is converted to booleans with the logits' shape",
          detail=("the mask that reaches the selection is " + "; ".join("the argument" + "".join(f" -> {o}" for o in ops) for ops in bad_conv[:3]) +
                  ": entry (i, j) of the caller's mask is not shown to decide about logit (i, j)") if bad_conv else ("" if convs else "no use of the mask argument found"),
          construct="mask conversion")
    sizes = lay.split_sizes()
    wrong = [(k, leaf) for k, leaf, good in sizes if not good]
    ck.ob("C16.7", ap, ap.node, not wrong, "multi-discrete masks are split by nvec, multi-binary by n",
          detail="; ".join(f"{'/'.join(sorted(k))} split by `{short(leaf, 40)}`" for k, leaf in wrong[:3]) if wrong else
          ("" if sizes else "no split: the mask is applied to the whole tensor at once"), construct="mask split sizes")
    broken = [v for k, v in alts if v[0] not in ("W", "L", "M")]
    ck.ob("C16.7", ap, ap.node, bool(alts) and not broken, "each component's logits are masked with that component's mask and re-assembled in order",
          detail="; ".join(_show(v) for v in broken[:3]), construct="mask per component")
    masked = set().union(*[k for k, v in alts if v == ("W",)]) if alts else set()
    unmasked = [(k, v) for k, v in alts if v != ("W",) and k & set(_KINDS)]
    ck.ob("C16.7", ap, ap.node, set(_KINDS) <= masked and not unmasked and not any("other" in k for k, _ in alts) and lay.rejects_other(),
          "every supported discrete space kind is masked; others are rejected",
          detail="; ".join(f"{'|'.join(sorted(k))}: {_show(v)}" for k, v in alts)[:300], construct="apply_mask dispatch")


_DF = "agilerl/networks/distributions.py"
_AF = "agilerl/networks/actors.py"
_PF = "agilerl/algorithms/ppo.py"
_AP_CONV = "        mask = torch.as_tensor(mask, dtype=torch.bool, device=self.device).view(\n            logits.shape\n        )\n"
_AP_BUILD = ("            masked_logits = []\n            for split_logits, split_mask in zip(split_logits, split_masks):\n                masked_logits.append(\n"
             "                    apply_action_mask_discrete(split_logits, split_mask)\n                )\n")
_AP_DISPATCH = ("        if isinstance(self.action_space, spaces.Discrete):\n            masked_logits = apply_action_mask_discrete(logits, mask)\n"
                "        elif isinstance(self.action_space, (spaces.MultiDiscrete, spaces.MultiBinary)):\n            splits = (\n                list(self.action_space.nvec)\n"
                "                if isinstance(self.action_space, spaces.MultiDiscrete)\n                else [self.action_space.n]\n            )\n"
                "            # Split mask and logits into separate distributions\n            split_masks = torch.split(mask, splits, dim=1)\n"
                "            split_logits = torch.split(logits, splits, dim=1)\n\n            # Apply mask to each split\n" + _AP_BUILD +
                "\n            masked_logits = torch.cat(masked_logits, dim=1)\n        else:\n            raise NotImplementedError(\n"
                "                f\"Action space {self.action_space} not supported.\"\n            )\n\n        return masked_logits\n")
_MC_LP = ("        unbinded_actions = torch.unbind(action, dim=1)\n        multi_log_prob = [\n            dist.log_prob(act) for dist, act in zip(distribution, unbinded_actions)\n        ]\n")
_MC_LOOP = ("        multi_log_prob = []\n        for component, component_action in zip(distribution, action.unbind(dim=1)):\n"
            "            multi_log_prob.append(component.log_prob(component_action))\n")
_LP_BODY = ("        _action = action if not self.squash_output else self.sampled_action\n\n        log_prob = self._handler.log_prob(self.distribution, _action)\n\n"
            "        # Correction for squashed outputs as per SAC paper:\n        # See https://arxiv.org/html/2410.16739v1\n        if self.squash_output:\n"
            "            log_prob -= torch.log(1 - action.pow(2) + 1e-6).sum(dim=1)\n\n        return log_prob\n")
_LP_EARLY = ("        if not self.squash_output:\n            return self._handler.log_prob(self.distribution, action)\n\n"
             "        log_prob = self._handler.log_prob(self.distribution, self.sampled_action)\n        tanh_correction = torch.log(1 - action.pow(2) + 1e-6).sum(dim=1)\n"
             "        return log_prob - tanh_correction\n")
_FW_BODY = ("        # Distribution from logits\n        self.dist = self.get_distribution(logits)\n\n        # Sample action, compute log probability and entropy\n"
            "        action = self.dist.sample()\n        log_prob = self.dist.log_prob(action)\n        entropy = self.dist.entropy()\n        return action, log_prob, entropy\n")
_FW_LOCAL = ("        dist = self.get_distribution(logits)\n        self.dist = dist\n\n        action = dist.sample()\n        entropy = dist.entropy()\n"
             "        log_prob = dist.log_prob(action)\n        return action, log_prob, entropy\n")
_SM_BODY = ("        self.sampled_action = self._handler.sample(self.distribution)\n\n        if self.squash_output:\n            return torch.tanh(self.sampled_action)\n\n"
            "        return self.sampled_action\n")
_SM_LOCAL = ("        raw_action = self._handler.sample(self.distribution)\n        self.sampled_action = raw_action\n"
             "        return torch.tanh(raw_action) if self.squash_output else raw_action\n")
_SC_BODY = "        if isinstance(self.action_space, spaces.Box) and self.squash_output:\n            action = self.scale_action(action)\n\n        return action, log_prob, entropy\n"
_SC_EARLY = ("        if not (isinstance(self.action_space, spaces.Box) and self.squash_output):\n            return action, log_prob, entropy\n\n"
             "        return self.scale_action(action), log_prob, entropy\n")
VARIANTS = [
    ("ppo-acting-path-through-rescaling-forward", "agilerl/algorithms/ppo.py", "        latent_pi = self.actor.extract_features(obs)\n        action, log_prob, entropy = self.actor.forward_head(\n            latent_pi, action_mask=action_mask\n        )",
     "        latent_pi = self.actor.extract_features(obs)\n        action, log_prob, entropy = self.actor(obs, action_mask=action_mask)", "fire", "C16.11"),
    ("ppo-acting-path-head-net-directly-ok", "agilerl/algorithms/ppo.py", "        action, log_prob, entropy = self.actor.forward_head(\n            latent_pi, action_mask=action_mask\n        )",
     "        action, log_prob, entropy = self.actor.head_net.forward(latent_pi, action_mask)", "silent", None),

    ("stochastic-actor-rebuild-drops-squash", "agilerl/networks/actors.py", "            action_std_init=self.action_std_init,\n            squash_output=self.squash_output,\n            device=self.device,", "            action_std_init=self.action_std_init,\n            device=self.device,", "fire", "C16.9"),
    ("ippo-clips-in-training-mode", "agilerl/algorithms/ippo.py", "            if not self.training and isinstance(agent_space, spaces.Box):", "            if isinstance(agent_space, spaces.Box):", "fire", "C16.10"),
    ("bernoulli-no-sum", _DF, "        return distribution.log_prob(action).sum(dim=1)\n\n    def entropy(self, distribution: Bernoulli)", "        return distribution.log_prob(action)\n\n    def entropy(self, distribution: Bernoulli)", "fire", "C16.2"),
    ("bernoulli-sum-batch", _DF, "        return distribution.entropy().sum(dim=1)\n\n\nclass CategoricalHandler", "        return distribution.entropy().sum(dim=0)\n\n\nclass CategoricalHandler", "fire", "C16.2"),
    ("categorical-summed", _DF, "        return distribution.log_prob(action)\n\n    def entropy(self, distribution: Categorical)", "        return distribution.log_prob(action).sum()\n\n    def entropy(self, distribution: Categorical)", "fire", "C16.2"),
    ("multicat-mean", _DF, "return torch.stack(multi_log_prob, dim=1).sum(dim=1)", "return torch.stack(multi_log_prob, dim=1).mean(dim=1)", "fire", "C16.2"),
    ("normal-entropy-unsummed", _DF, "return sum_independent_tensor(distribution.entropy())", "return distribution.entropy()", "fire", "C16.2"),
    ("handler-table-missing-bernoulli", _DF, "        Bernoulli: BernoulliHandler(),\n", "", "fire", "C16.1"),
    ("handler-table-swapped", _DF, "        Bernoulli: BernoulliHandler(),\n        Categorical: CategoricalHandler(),", "        Bernoulli: CategoricalHandler(),\n        Categorical: BernoulliHandler(),", "fire", "C16.1"),
    ("squash-correction-dropped", _DF, "        if self.squash_output:\n            log_prob -= torch.log(1 - action.pow(2) + 1e-6).sum(dim=1)\n", "", "fire", "C16.4"),
    ("squash-correction-added", _DF, "log_prob -= torch.log(1 - action.pow(2) + 1e-6).sum(dim=1)", "log_prob += torch.log(1 - action.pow(2) + 1e-6).sum(dim=1)", "fire", "C16.4"),
    ("squash-correction-unconditional", _DF, "        if self.squash_output:\n            log_prob -= torch.log(1 - action.pow(2) + 1e-6).sum(dim=1)\n", "        log_prob -= torch.log(1 - action.pow(2) + 1e-6).sum(dim=1)\n", "fire", "C16.4"),
    ("sample-no-tanh", _DF, "            return torch.tanh(self.sampled_action)\n", "            return self.sampled_action\n", "fire", "C16.4"),
    ("plain-path-uses-sampled", _DF, "_action = action if not self.squash_output else self.sampled_action", "_action = self.sampled_action", "fire", "C16.3"),
    ("forward-logprob-of-other", _DF, "        log_prob = self.dist.log_prob(action)\n        entropy = self.dist.entropy()\n        return action, log_prob, entropy", "        log_prob = self.dist.log_prob(self.dist.sample())\n        entropy = self.dist.entropy()\n        return action, log_prob, entropy", "fire", "C16.5"),
    ("forward-dist-cached", _DF, "        # Distribution from logits\n        self.dist = self.get_distribution(logits)\n", "        # Distribution from logits\n        if self.dist is None:\n            self.dist = self.get_distribution(logits)\n", "fire", "C16.5"),
    ("mask-after-dist", _DF, "            logits = self.apply_mask(logits, action_mask)\n", "            self.apply_mask(logits, action_mask)\n", "fire", "C16.7"),
    ("mask-rows-without-legal-entry-unmasked", _DF, "    return torch.where(mask, logits, torch.full_like(logits, -1e8).to(logits.device))", "    mask = mask | ~mask.any(dim=-1, keepdim=True)\n    return torch.where(mask, logits, torch.full_like(logits, -1e8).to(logits.device))", "fire", "C16.7"),
    ("ippo-masks-hstack", "agilerl/algorithms/ippo.py", "action_masks[homo_id] = torch.Tensor(action_masks[homo_id])", "action_masks[homo_id] = torch.from_numpy(np.hstack(action_masks[homo_id]))", "fire", "C16.8"),
    ("ippo-box1-unsqueeze-after-logprob", "agilerl/algorithms/ippo.py", "                        batch_actions = batch_actions.unsqueeze(1)\n\n                    log_prob = actor.action_log_prob(batch_actions)\n", "                        pass\n\n                    log_prob = actor.action_log_prob(batch_actions)\n                    if isinstance(action_space, spaces.Box) and action_space.shape == (1,):\n                        batch_actions = batch_actions.unsqueeze(1)\n", "fire", "C16.6"),
    ("ppo-axis-restored-for-box-only", "agilerl/algorithms/ppo.py", "                        or (\n                            isinstance(self.action_space, spaces.MultiBinary)\n                            and self.action_space.n == 1\n                        )\n", "", "fire", "C16.6"),
    ("ppo-box1-axis-not-restored", "agilerl/algorithms/ppo.py", "                        batch_actions = batch_actions.unsqueeze(1)\n\n                    log_prob, entropy, value = self.evaluate_actions(", "                        pass\n\n                    log_prob, entropy, value = self.evaluate_actions(", "fire", "C16.6"),
    ("mask-weak-constant", _DF, "torch.full_like(logits, -1e8)", "torch.full_like(logits, -10.0)", "fire", "C16.7"),
    ("mask-inverted", _DF, "return torch.where(mask, logits, torch.full_like(logits, -1e8).to(logits.device))", "return torch.where(mask, torch.full_like(logits, -1e8).to(logits.device), logits)", "fire", "C16.7"),
    ("ppo-eval-no-forward", _PF, "        _, _, entropy, values = self._get_action_and_values(obs)\n\n        # log_prob of passed actions given the current policy\n        log_prob = self.actor.action_log_prob(actions)",
     "        # log_prob of passed actions given the current policy\n        log_prob = self.actor.action_log_prob(actions)\n        _, _, entropy, values = self._get_action_and_values(obs)", "fire", "C16.6"),
    ("scale-action-wrong", _AF, "0.5 * (action + 1.0) * (self.action_high - self.action_low)", "0.5 * (action + 1.0) * self.action_high", "fire", "C16.4"),
    # behaviour-preserving rename of a local (the rules must go by role, not by spelling)
    ("forward-logits-renamed-ok", _DF, "        logits = self.wrapped(latent)\n\n        if action_mask is not None:", "        net_out = self.wrapped(latent)\n        logits = net_out\n\n        if action_mask is not None:", "silent", None),
    # one verdict for both spellings of a two-way choice (conditional expression <-> if / else statement)
    ('sum-independent-choice-as-statement-ok', _DF, '    return tensor.sum(dim=1) if len(tensor.shape) > 1 else tensor\n',
     '    if len(tensor.shape) > 1:\n        return tensor.sum(dim=1)\n    else:\n        return tensor\n', 'silent', None),
    ('sum-independent-statement-sums-the-batch', _DF, '    return tensor.sum(dim=1) if len(tensor.shape) > 1 else tensor\n',
     '    if len(tensor.shape) > 1:\n        return tensor.sum(dim=0)\n    else:\n        return tensor\n', 'fire', 'C16.2'),
    ('mask-split-sizes-as-statement-ok', _DF, '            splits = (\n                list(self.action_space.nvec)\n                if isinstance(self.action_space, spaces.MultiDiscrete)\n                else [self.action_space.n]\n            )\n',
     '            if isinstance(self.action_space, spaces.MultiDiscrete):\n                splits = list(self.action_space.nvec)\n            else:\n                splits = [self.action_space.n]\n', 'silent', None),
    ('mask-split-sizes-statement-arms-swapped', _DF, '            splits = (\n                list(self.action_space.nvec)\n                if isinstance(self.action_space, spaces.MultiDiscrete)\n                else [self.action_space.n]\n            )\n',
     '            if isinstance(self.action_space, spaces.MultiDiscrete):\n                splits = [self.action_space.n]\n            else:\n                splits = list(self.action_space.nvec)\n', 'fire', 'C16.7'),
    ('sample-choice-as-expression-ok', _DF, '        if self.squash_output:\n            return torch.tanh(self.sampled_action)\n\n        return self.sampled_action\n',
     '        return torch.tanh(self.sampled_action) if self.squash_output else self.sampled_action\n', 'silent', None),
    ('sample-expression-arms-swapped', _DF, '        if self.squash_output:\n            return torch.tanh(self.sampled_action)\n\n        return self.sampled_action\n',
     '        return self.sampled_action if self.squash_output else torch.tanh(self.sampled_action)\n', 'fire', 'C16.4'),
    ('entropy-choice-as-expression-ok', _DF, '        if self.squash_output:\n            return None\n\n        return self._handler.entropy(self.distribution)\n',
     '        return None if self.squash_output else self._handler.entropy(self.distribution)\n', 'silent', None),
    ('entropy-expression-arms-swapped', _DF, '        if self.squash_output:\n            return None\n\n        return self._handler.entropy(self.distribution)\n',
     '        return self._handler.entropy(self.distribution) if self.squash_output else None\n', 'fire', 'C16.4'),
    ('forward-mask-choice-as-expression-ok', _DF, '            logits = self.apply_mask(logits, action_mask)\n\n        # Distribution from logits\n',
     '        logits = self.apply_mask(logits, action_mask) if action_mask is not None else logits\n\n        # Distribution from logits\n', 'silent', None),
    ('forward-mask-expression-on-the-wrong-arm', _DF, '            logits = self.apply_mask(logits, action_mask)\n\n        # Distribution from logits\n',
     '        logits = logits if action_mask is not None else self.apply_mask(logits, action_mask)\n\n        # Distribution from logits\n', 'fire', 'C16.7'),
    ('bernoulli-single-component-unsummed', _DF, '        return distribution.log_prob(action).sum(dim=1)\n\n    def entropy(self, distribution: Bernoulli)',
     '        return distribution.log_prob(action).sum(dim=1) if action.shape[-1] > 1 else distribution.log_prob(action)\n\n    def entropy(self, distribution: Bernoulli)', 'fire', 'C16.2'),
    # apply_mask: every logit meets the mask entry at its own position — whichever way the function is written (element-wise on the whole tensor / per piece)
    ('mask-whole-tensor-at-once-ok', _DF, _AP_DISPATCH,
     '        maskable_spaces = (spaces.Discrete, spaces.MultiDiscrete, spaces.MultiBinary)\n        if not isinstance(self.action_space, maskable_spaces):\n'
     '            raise NotImplementedError("not supported")\n\n        return apply_action_mask_discrete(logits, mask)\n', 'silent', None),
    ('mask-whole-tensor-multibinary-rejected', _DF, _AP_DISPATCH,
     '        maskable_spaces = (spaces.Discrete, spaces.MultiDiscrete)\n        if not isinstance(self.action_space, maskable_spaces):\n'
     '            raise NotImplementedError("not supported")\n\n        return apply_action_mask_discrete(logits, mask)\n', 'fire', 'C16.7'),
    ('mask-whole-tensor-others-not-rejected', _DF, _AP_DISPATCH, '        return apply_action_mask_discrete(logits, mask)\n', 'fire', 'C16.7'),
    ('mask-whole-tensor-first-column-only', _DF, _AP_DISPATCH,
     '        if not isinstance(self.action_space, (spaces.Discrete, spaces.MultiDiscrete, spaces.MultiBinary)):\n            raise NotImplementedError("not supported")\n\n'
     '        return torch.cat([apply_action_mask_discrete(logits[:, :1], mask[:, :1]), logits[:, 1:]], dim=1)\n', 'fire', 'C16.7'),
    ('mask-whole-tensor-one-kind-unmasked', _DF, _AP_DISPATCH,
     '        if not isinstance(self.action_space, (spaces.Discrete, spaces.MultiDiscrete, spaces.MultiBinary)):\n            raise NotImplementedError("not supported")\n'
     '        if isinstance(self.action_space, spaces.MultiBinary):\n            return logits\n\n        return apply_action_mask_discrete(logits, mask)\n', 'fire', 'C16.7'),
    ('mask-whole-tensor-mask-mirrored', _DF, _AP_DISPATCH,
     '        if not isinstance(self.action_space, (spaces.Discrete, spaces.MultiDiscrete, spaces.MultiBinary)):\n            raise NotImplementedError("not supported")\n\n'
     '        return apply_action_mask_discrete(logits, mask.flip(1))\n', 'fire', 'C16.7'),
    # a list filled once per iteration <-> the comprehension over the same loop; splits passed directly <-> through temporaries
    ('mask-pieces-comprehension-ok', _DF, _AP_BUILD, '            masked_logits = [apply_action_mask_discrete(lg, mk) for lg, mk in zip(torch.split(logits, splits, dim=1), split_masks)]\n', 'silent', None),
    ('mask-pieces-comprehension-masks-reversed', _DF, _AP_BUILD, '            masked_logits = [apply_action_mask_discrete(lg, mk) for lg, mk in zip(split_logits, reversed(split_masks))]\n', 'fire', 'C16.7'),
    ('mask-pieces-some-skipped', _DF, _AP_BUILD, '            masked_logits = []\n            for split_logits, split_mask in zip(split_logits, split_masks):\n                if split_mask.any():\n'
     '                    masked_logits.append(apply_action_mask_discrete(split_logits, split_mask))\n', 'fire', 'C16.7'),
    ('mask-pieces-reassembled-backwards', _DF, 'masked_logits = torch.cat(masked_logits, dim=1)', 'masked_logits = torch.cat(masked_logits[::-1], dim=1)', 'fire', 'C16.7'),
    ('mask-pieces-reassembled-on-batch-axis', _DF, 'masked_logits = torch.cat(masked_logits, dim=1)', 'masked_logits = torch.cat(masked_logits, dim=0)', 'fire', 'C16.7'),
    ('mask-logits-split-by-other-sizes', _DF, 'split_logits = torch.split(logits, splits, dim=1)', 'split_logits = torch.split(logits, splits[::-1], dim=1)', 'fire', 'C16.7'),
    ('mask-discrete-kind-not-masked', _DF, '            masked_logits = apply_action_mask_discrete(logits, mask)\n', '            masked_logits = logits\n', 'fire', 'C16.7'),
    ('mask-split-sizes-tolist-ok', _DF, '                list(self.action_space.nvec)\n                if isinstance(self.action_space, spaces.MultiDiscrete)\n                else [self.action_space.n]\n',
     '                self.action_space.nvec.tolist()\n                if isinstance(self.action_space, spaces.MultiDiscrete)\n                else (self.action_space.n,)\n', 'silent', None),
    ('mask-split-sizes-n-for-multidiscrete', _DF, '                list(self.action_space.nvec)\n                if isinstance(self.action_space, spaces.MultiDiscrete)\n                else [self.action_space.n]\n',
     '                [self.action_space.n]\n', 'fire', 'C16.7'),
    # the conversion of the mask: one chained expression <-> step by step through a local; view(shape) <-> reshape(shape) / view_as
    ('mask-conversion-in-steps-ok', _DF, _AP_CONV, '        as_bool = torch.as_tensor(mask, device=self.device).bool()\n        mask = as_bool.view(logits.shape)\n', 'silent', None),
    ('mask-conversion-in-steps-flattened', _DF, _AP_CONV, '        as_bool = torch.as_tensor(mask, dtype=torch.bool, device=self.device)\n        mask = as_bool.view(-1)\n', 'fire', 'C16.7'),
    ('mask-conversion-not-boolean', _DF, _AP_CONV, '        mask = torch.as_tensor(mask, device=self.device).view(logits.shape)\n', 'fire', 'C16.7'),
    # the components of a multi-categorical action: a comprehension <-> the loop that appends; torch.unbind(a, dim=1) <-> a.unbind(dim=1), directly or through a local;
    # zip of the two collections <-> one collection and the running index
    ('multicat-components-in-a-loop-ok', _DF, _MC_LP, _MC_LOOP, 'silent', None),
    ('multicat-components-by-index-ok', _DF, _MC_LP, '        multi_log_prob = [dist.log_prob(action[:, k]) for k, dist in enumerate(distribution)]\n', 'silent', None),
    ('multicat-loop-action-columns-reversed', _DF, _MC_LP, _MC_LOOP.replace('action.unbind(dim=1))', 'reversed(action.unbind(dim=1)))'), 'fire', 'C16.2'),
    ('multicat-loop-every-pair-of-components', _DF, _MC_LP, '        multi_log_prob = []\n        for component in distribution:\n            for component_action in action.unbind(dim=1):\n'
     '                multi_log_prob.append(component.log_prob(component_action))\n', 'fire', 'C16.2'),
    ('multicat-loop-components-skipped', _DF, _MC_LP, '        multi_log_prob = []\n        for component, component_action in zip(distribution, action.unbind(dim=1)):\n            if component_action.any():\n'
     '                multi_log_prob.append(component.log_prob(component_action))\n', 'fire', 'C16.2'),
    ('multicat-action-split-on-the-batch-axis', _DF, 'unbinded_actions = torch.unbind(action, dim=1)', 'unbinded_actions = torch.unbind(action, dim=0)', 'fire', 'C16.2'),
    ('multicat-index-of-another-walk', _DF, _MC_LP, '        multi_log_prob = [dist.log_prob(action[:, 0]) for k, dist in enumerate(distribution)]\n', 'fire', 'C16.2'),
    # TorchDistribution.log_prob: one body with two conditionals <-> an early return for the plain configuration; `x -= c` <-> `return x - c` (c through a local);
    # the findings are about the configuration (squashed / plain), not about the shape of the branches
    ('squash-early-return-out-of-place-ok', _DF, _LP_BODY, _LP_EARLY, 'silent', None),
    ('squash-correction-spelled-otherwise-ok', _DF, 'log_prob -= torch.log(1 - action.pow(2) + 1e-6).sum(dim=1)', 'log_prob = log_prob - torch.sum(torch.log(1.0 + 1e-6 - action ** 2), dim=-1)', 'silent', None),
    ('squash-early-return-correction-twice', _DF, _LP_BODY, _LP_EARLY.replace('return log_prob - tanh_correction', 'return log_prob - tanh_correction - tanh_correction'), 'fire', 'C16.4'),
    ('squash-early-return-no-correction', _DF, _LP_BODY, _LP_EARLY.replace('return log_prob - tanh_correction', 'return log_prob'), 'fire', 'C16.4'),
    ('squash-early-return-correction-added', _DF, _LP_BODY, _LP_EARLY.replace('return log_prob - tanh_correction', 'return log_prob + tanh_correction'), 'fire', 'C16.4'),
    ('squash-early-return-correction-on-the-plain-path', _DF, _LP_BODY, _LP_EARLY.replace('self.distribution, action)\n', 'self.distribution, action) - torch.log(1 - action.pow(2) + 1e-6).sum(dim=1)\n'), 'fire', 'C16.4'),
    ('squash-early-return-for-the-squashed-path', _DF, _LP_BODY, _LP_EARLY.replace('if not self.squash_output:', 'if self.squash_output:'), 'fire', 'C16.4'),
    ('squash-early-return-plain-path-uses-sampled', _DF, _LP_BODY, _LP_EARLY.replace('self.distribution, action)\n', 'self.distribution, self.sampled_action)\n'), 'fire', 'C16.3'),
    ('squash-correction-log-of-the-sum', _DF, 'log_prob -= torch.log(1 - action.pow(2) + 1e-6).sum(dim=1)', 'log_prob = log_prob - torch.log((1 - action.pow(2)).sum(dim=1) + 1e-6)', 'fire', 'C16.4'),
    ('squash-correction-of-the-sampled-value', _DF, 'log_prob -= torch.log(1 - action.pow(2) + 1e-6).sum(dim=1)', 'log_prob -= torch.log(1 - self.sampled_action.pow(2) + 1e-6).sum(dim=1)', 'fire', 'C16.4'),
    ('density-argument-arms-swapped', _DF, '_action = action if not self.squash_output else self.sampled_action', '_action = action if self.squash_output else self.sampled_action', 'fire', 'C16.3'),
    # EvolvableDistribution.forward: the new distribution kept in the attribute only <-> in a local as well; independent statements in either order
    ('forward-dist-through-a-local-ok', _DF, _FW_BODY, _FW_LOCAL, 'silent', None),
    ('forward-local-dist-not-kept', _DF, _FW_BODY, _FW_LOCAL.replace('        self.dist = dist\n', ''), 'fire', 'C16.5'),
    ('forward-local-dist-kept-on-one-path', _DF, _FW_BODY, _FW_LOCAL.replace('        self.dist = dist\n', '        if self.dist is None:\n            self.dist = dist\n'), 'fire', 'C16.5'),
    ('forward-local-logprob-of-a-second-sample', _DF, _FW_BODY, _FW_LOCAL.replace('dist.log_prob(action)', 'dist.log_prob(dist.sample())'), 'fire', 'C16.5'),
    ('forward-sample-from-the-previous-dist', _DF, _FW_BODY, _FW_LOCAL.replace('        dist = self.get_distribution(logits)\n        self.dist = dist\n', '        dist = self.dist\n        self.dist = self.get_distribution(logits)\n'), 'fire', 'C16.5'),
    ('forward-entropy-of-the-previous-dist', _DF, _FW_BODY, _FW_LOCAL.replace('        dist = self.get_distribution(logits)\n        self.dist = dist\n\n', '        old = self.dist\n        dist = self.get_distribution(logits)\n        self.dist = dist\n\n').replace('dist.entropy()', 'old.entropy()'), 'fire', 'C16.5'),
    # TorchDistribution.sample: the draw kept in the attribute only <-> in a local as well, handed back by one conditional expression
    ('sample-draw-through-a-local-ok', _DF, _SM_BODY, _SM_LOCAL, 'silent', None),
    ('sample-local-returns-a-second-draw', _DF, _SM_BODY, _SM_LOCAL.replace('self.sampled_action = raw_action', 'self.sampled_action = self._handler.sample(self.distribution)'), 'fire', 'C16.4'),
    ('sample-local-draw-not-kept', _DF, _SM_BODY, _SM_LOCAL.replace('        self.sampled_action = raw_action\n', ''), 'fire', 'C16.4'),
    ('sample-local-squashed-value-kept', _DF, _SM_BODY, _SM_LOCAL.replace('self.sampled_action = raw_action', 'self.sampled_action = torch.tanh(raw_action)'), 'fire', 'C16.4'),
    ('sample-local-tanh-twice', _DF, _SM_BODY, _SM_LOCAL.replace('torch.tanh(raw_action) if', 'torch.tanh(torch.tanh(raw_action)) if'), 'fire', 'C16.4'),
    ('sample-local-tanh-in-both-configurations', _DF, _SM_BODY, _SM_LOCAL.replace('torch.tanh(raw_action) if self.squash_output else raw_action', 'torch.tanh(raw_action)'), 'fire', 'C16.4'),
    ('sample-local-arms-swapped', _DF, _SM_BODY, _SM_LOCAL.replace('torch.tanh(raw_action) if self.squash_output else raw_action', 'raw_action if self.squash_output else torch.tanh(raw_action)'), 'fire', 'C16.4'),
    # StochasticActor.forward: the rescaling as an amendment under the condition <-> an early return for the other configurations
    ('actor-scaling-early-return-ok', _AF, _SC_BODY, _SC_EARLY, 'silent', None),
    ('actor-scaling-early-return-for-the-squashed-box', _AF, _SC_BODY, _SC_EARLY.replace('if not (isinstance(self.action_space, spaces.Box) and self.squash_output):', 'if isinstance(self.action_space, spaces.Box) and self.squash_output:'), 'fire', 'C16.4'),
    ('actor-scaling-early-return-either-condition', _AF, _SC_BODY, _SC_EARLY.replace('spaces.Box) and self.squash_output', 'spaces.Box) or self.squash_output'), 'fire', 'C16.4'),
    ('actor-scaling-early-return-any-squashed-space', _AF, _SC_BODY, _SC_EARLY.replace('if not (isinstance(self.action_space, spaces.Box) and self.squash_output):', 'if not self.squash_output:'), 'fire', 'C16.4'),
    ('actor-scaling-early-return-scaled-twice', _AF, _SC_BODY, _SC_EARLY.replace('self.scale_action(action)', 'self.scale_action(self.scale_action(action))'), 'fire', 'C16.4'),
    ('actor-scaling-in-every-configuration', _AF, _SC_BODY, '        return self.scale_action(action), log_prob, entropy\n', 'fire', 'C16.4'),
    ('actor-scaling-early-return-scaled-value-not-returned', _AF, _SC_BODY, _SC_EARLY.replace('        return self.scale_action(action), log_prob', '        scaled = self.scale_action(action)\n        return action, log_prob'), 'fire', 'C16.4'),
]
