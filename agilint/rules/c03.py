"""C03 — architecture mutations keep every network valid, bounded and rebuildable."""
from __future__ import annotations

import ast
from typing import Dict, List, Optional, Set, Tuple

from ..cfg import CFG, Node
from ..core import AnalysisError, Cls, Fn, Repo, call_name, calls_in, const_value, dotted, get_kw, last_attr, short, walk_no_nested
from ..domains import conjuncts
from ..pat import has
from ..report import Check
from ..terms import Poly, TermBuilder, single_atom
from ..util import self_attr_stores

# (module, class) in scope and the frozen bound table: attr -> {quantity kind: (min attr, max attr)}
SCOPE = [
    ("agilerl.modules.mlp", "EvolvableMLP", {"hidden_size": {"len": ("min_hidden_layers", "max_hidden_layers"), "elem": ("min_mlp_nodes", "max_mlp_nodes")}}),
    ("agilerl.modules.cnn", "EvolvableCNN", {"channel_size": {"len": ("min_hidden_layers", "max_hidden_layers"), "elem": ("min_channel_size", "max_channel_size")},
                                            "stride_size": {"len": ("min_hidden_layers", "max_hidden_layers")}}),
    ("agilerl.modules.lstm", "EvolvableLSTM", {"num_layers": {"value": ("min_layers", "max_layers")}, "hidden_size": {"value": ("min_hidden_size", "max_hidden_size")}}),
    ("agilerl.modules.simba", "EvolvableSimBa", {"num_blocks": {"value": ("min_blocks", "max_blocks")}, "hidden_size": {"value": ("min_mlp_nodes", "max_mlp_nodes")}}),
    ("agilerl.modules.resnet", "EvolvableResNet", {"num_blocks": {"value": ("min_blocks", "max_blocks")}, "channel_size": {"value": ("min_channel_size", "max_channel_size")}}),
    ("agilerl.modules.multi_input", "EvolvableMultiInput", {"latent_dim": {"value": ("min_latent_dim", "max_latent_dim")}}),
    ("agilerl.networks.base", "EvolvableNetwork", {"latent_dim": {"value": ("min_latent_dim", "max_latent_dim")}}),
]
INIT_DICT_CLASSES = [
    ("agilerl.modules.mlp", "EvolvableMLP"), ("agilerl.modules.cnn", "EvolvableCNN"), ("agilerl.modules.lstm", "EvolvableLSTM"),
    ("agilerl.modules.simba", "EvolvableSimBa"), ("agilerl.modules.resnet", "EvolvableResNet"), ("agilerl.modules.multi_input", "EvolvableMultiInput"),
    ("agilerl.networks.q_networks", "QNetwork"), ("agilerl.networks.q_networks", "RainbowQNetwork"), ("agilerl.networks.q_networks", "ContinuousQNetwork"),
    ("agilerl.networks.actors", "DeterministicActor"), ("agilerl.networks.actors", "StochasticActor"), ("agilerl.networks.value_networks", "ValueNetwork"),
    ("agilerl.networks.custom_modules", "DuelingDistributionalMLP"),
]


# lists that change length together under one guard (checked separately): guard on the leader covers the follower
COUPLED = {("EvolvableCNN", "stride_size"): "channel_size"}


def mutation_methods(cls: Cls) -> List[Tuple[Fn, str, Dict[str, ast.AST]]]:
    out = []
    for m in cls.methods.values():
        for d in m.node.decorator_list:
            if isinstance(d, ast.Call) and dotted(d.func).split(".")[-1] == "mutation" and d.args:
                kind = dotted(d.args[0]).split(".")[-1]
                if kind in ("LAYER", "NODE"):
                    out.append((m, kind, {k.arg: k.value for k in d.keywords if k.arg}))
    return out


def run(ck: Check, repo: Repo) -> None:
    ck.not_decided += ["finiteness and shape of the outputs (runtime values)", "exhaustive walks of the architecture graph",
                       "that create_mlp / create_cnn build what their arguments say"]
    ck.rule("C03.1", "every architecture write inside a LAYER/NODE mutation method is guarded by a comparison of the written quantity "
                     "(with the same increment) against its own min/max bound, in the direction that keeps it inside the range")
    ck.rule("C03.2", "when the bound stops a mutation, the method either leaves the architecture untouched or returns the result of another advertised method")
    ck.rule("C03.3", "recreate contract: every class with own mutation methods defines recreate_network accepting every keyword its "
                     "@mutation decorators pass, and stores the rebuilt network into the attribute it replaced")
    ck.rule("C03.4", "init_dict fidelity: getattr(self, p) is an identity flow of constructor parameter p (direct store, super() binding, "
                     "idempotent normalisation, or identity property)")
    ck.rule("C03.5", "every advertised LAYER/NODE method can act: it contains a guarded architecture write or delegates to one that does")
    ck.rule("C03.6", "a randomly drawn kernel size never exceeds calc_max_kernel_sizes for that layer")
    ck.rule("C03.7", "mutation methods forwarded by a wrapper stay live: the owning module's method list is not emptied after its methods were re-advertised")
    ck.rule("C03.8", "the rebuild consumes what the mutation wrote: every builder call in recreate_network / recreate_encoder receives each mutated "
                     "architecture attribute of its class (keyword value, a **mapping local to the function that was updated with it, or a self-method that reads it)")
    ck.rule("C03.9", "constructor and rebuild agree: an attribute built in __init__ and rebuilt in recreate_network uses the same builder with the same keyword set "
                     "and the same values (constructor parameter p identified with the attribute it is stored in)")
    n_methods = 0
    n_writes = 0
    for modname, cname, table in SCOPE:
        cls = repo.cls(modname, cname)
        methods = mutation_methods(cls)
        advertised = {m.name for m, _, _ in methods}
        for fn, kind, kws in methods:
            n_methods += 1
            n_writes += _guarded_writes(ck, repo, cls, fn, table, advertised)
        _recreate_contract(ck, repo, cls, methods)
    ck.floor("C03.1", n_methods, 24, "LAYER/NODE mutation methods in the 7 in-scope classes")
    ck.floor("C03.1", n_writes, 26, "architecture writes inside mutation methods")
    from ._c03_extra import run_extra
    run_extra(ck, repo)
    _kernel_bound(ck, repo)
    _rebuild_consumes(ck, repo)
    _build_agreement(ck, repo)
    _init_dict(ck, repo)
    _forwarded(ck, repo)
    _context(ck, repo)
    from ._c03_r5 import run_r5
    run_r5(ck, repo)


# ------------------------------------------------------------------------------------------------ C03.1/2/5
def _arch_writes(fn: Fn, table: Dict[str, dict]) -> List[Tuple[ast.AST, str, str, int, Optional[ast.AST]]]:
    """(stmt, attr, quantity kind, direction, increment expr) for writes to tabled attributes."""
    out = []
    for n in walk_no_nested(fn.node):
        if isinstance(n, ast.AugAssign):
            t = n.target
            sign = 1 if isinstance(n.op, ast.Add) else (-1 if isinstance(n.op, ast.Sub) else 0)
            if isinstance(t, ast.Attribute) and dotted(t).startswith("self.") and t.attr in table:
                if isinstance(n.value, (ast.List, ast.Tuple)):
                    out.append((n, t.attr, "len", sign, n.value))
                else:
                    out.append((n, t.attr, "value", sign, n.value))
            elif isinstance(t, ast.Subscript) and dotted(t.value).startswith("self.") and t.value.attr in table:
                out.append((n, t.value.attr, "elem", sign, n.value))
        elif isinstance(n, ast.Assign) and len(n.targets) == 1:
            t = n.targets[0]
            if isinstance(t, ast.Attribute) and dotted(t).startswith("self.") and t.attr in table:
                v = n.value
                src = ast.unparse(v)
                me = f"self.{t.attr}"
                if isinstance(v, ast.Subscript) and dotted(v.value) == me and isinstance(v.slice, ast.Slice) and v.slice.lower is None \
                        and const_value(v.slice.upper) == -1:
                    out.append((n, t.attr, "len", -1, None))
                elif isinstance(v, ast.BinOp) and isinstance(v.op, ast.Add) and dotted(v.left) == me and isinstance(v.right, (ast.List, ast.Tuple)):
                    out.append((n, t.attr, "len", 1, v.right))
                elif isinstance(v, ast.BinOp) and isinstance(v.op, (ast.Add, ast.Sub)) and dotted(v.left) == me:
                    out.append((n, t.attr, "value", 1 if isinstance(v.op, ast.Add) else -1, v.right))
                else:
                    out.append((n, t.attr, "other", 0, v))
            elif isinstance(t, ast.Subscript) and dotted(t.value).startswith("self.") and isinstance(t.value, ast.Attribute) and t.value.attr in table:
                out.append((n, t.value.attr, "other", 0, n.value))
    return out


def _guarded_writes(ck: Check, repo: Repo, cls: Cls, fn: Fn, table: Dict[str, dict], advertised: Set[str]) -> int:
    cfg = CFG(fn.node)
    tb = TermBuilder(repo, fn, cfg=cfg, depth=0)
    writes = _arch_writes(fn, table)
    delegations = [c for c in calls_in(fn.node) if call_name(c).startswith("self.") and call_name(c)[5:] in advertised and call_name(c)[5:] != fn.name]
    helper_calls = [c for c in calls_in(fn.node) if call_name(c).startswith("self.mut_kernel_size.") and last_attr(c) in ("add_layer", "remove_layer", "change_kernel_size")]
    ck.ob("C03.5", fn, fn.node, bool(writes) or bool(delegations) or bool(helper_calls),
          f"{cls.name}.{fn.name} can change the architecture (guarded write or delegation)", construct=f"{cls.name}.{fn.name}: writes/delegations")
    count = 0
    for stmt, attr, q, sign, inc in writes:
        count += 1
        n = cfg.node_of(stmt)
        label = f"{cls.name}.{fn.name}: {short(stmt, 70)}"
        if q == "other" or sign == 0 or q not in table[attr]:
            ck.ob("C03.1", fn, stmt, False, f"{label}: the write has a recognised bounded form (+= / -= / append / drop last)",
                  detail=f"write of kind `{q}` to `{attr}` cannot be related to a bound")
            continue
        lo, hi = table[attr][q]
        bound = hi if sign > 0 else lo
        atoms = [(a, pol) for g, pol, _ in cfg.guards_at(n) for a, pol in conjuncts(g, pol)]
        ok = False
        why = f"no guard compares the {q} of `{attr}` with self.{bound}"
        for a, pol in atoms:
            if not isinstance(a, ast.Compare) or len(a.ops) != 1:
                continue
            l, r, op = a.left, a.comparators[0], type(a.ops[0])
            if not pol:
                op = {ast.Lt: ast.GtE, ast.LtE: ast.Gt, ast.Gt: ast.LtE, ast.GtE: ast.Lt}.get(op, op)
            # normalise so that the bound is on the right
            if dotted(l) == f"self.{bound}":
                l, r = r, l
                op = {ast.Lt: ast.Gt, ast.LtE: ast.GtE, ast.Gt: ast.Lt, ast.GtE: ast.LtE}.get(op, op)
            if dotted(r) != f"self.{bound}":
                if dotted(r).startswith(("self.max_", "self.min_")) and _mentions_attr(l, attr):
                    why = f"the guard compares with self.{dotted(r)[5:]}, but the bound of the {q} of `{attr}` is self.{bound}"
                continue
            dir_ok = op in ((ast.Lt, ast.LtE) if sign > 0 else (ast.Gt, ast.GtE))
            if not dir_ok:
                why = f"the comparison `{short(a, 60)}` has the wrong direction for a {'growing' if sign > 0 else 'shrinking'} write"
                continue
            lt = tb.term(l, n)
            if q == "len":
                lattr = COUPLED.get((cls.name, attr), attr)
                cur = tb.term(ast.parse(f"len(self.{lattr})", mode="eval").body, n)
                k = len(inc.elts) if isinstance(inc, (ast.List, ast.Tuple)) else 1
                post = cur + Poly.const(sign * k)
                strict = op in (ast.Lt, ast.Gt)
                ok = (lt == cur and strict and k == 1) or lt == post
                why = f"guard `{short(a, 60)}`; length after the write = {post.key()[:60]}"
            else:
                tgt = stmt.target if isinstance(stmt, ast.AugAssign) else stmt.targets[0]
                cur = tb.term(tgt, n)
                incp = tb.term(inc, n) if inc is not None else Poly.const(1)
                post = cur + incp if sign > 0 else cur - incp
                strict = op in (ast.Lt, ast.Gt)
                one = incp == Poly.const(1)
                ok = lt == post or (lt == cur and strict and one)
                why = f"guard tests {lt.key()[:70]}; value after the write = {post.key()[:70]}"
            if ok:
                break
        ck.ob("C03.1", fn, stmt, ok, f"{label}: guarded by its own bound self.{bound} in the right direction on the written quantity", detail=why)
    # coupled lists: CNN channel/kernel/stride change length together under one guard
    if cls.name == "EvolvableCNN" and fn.name in ("add_layer", "remove_layer"):
        lens = [(s, a) for s, a, q, sg, _ in writes if q == "len"]
        ks = [c for c in helper_calls if last_attr(c) in ("add_layer", "remove_layer")]
        attrs = {a for _, a in lens}
        same = False
        if lens and ks:
            g0 = [(ast.unparse(g), p) for g, p, _ in cfg.guards_at(cfg.node_of(lens[0][0]))]
            same = all([(ast.unparse(g), p) for g, p, _ in cfg.guards_at(cfg.node_of(s))] == g0 for s, _ in lens) and \
                all([(ast.unparse(g), p) for g, p, _ in cfg.guards_at(cfg.node_of(c))] == g0 for c in ks)
        ck.ob("C03.1", fn, fn.node, attrs == {"channel_size", "stride_size"} and len(ks) == 1 and same and last_attr(ks[0]) == fn.name,
              f"EvolvableCNN.{fn.name}: channel, kernel and stride lists change length together under one guard",
              detail=f"length writes: {sorted(attrs)}; kernel helper calls: {[last_attr(c) for c in ks]}", construct=f"EvolvableCNN.{fn.name}: coupled lists")
    # fallbacks
    for c in delegations:
        n = cfg.node_of(c)
        is_ret = isinstance(n.ast, ast.Return) and n.ast.value is c
        ck.ob("C03.2", fn, c, is_ret, f"{cls.name}.{fn.name}: the fallback's result is returned (so that the applied mutation is reported)")
        # a fallback and a write never happen on the same path
        for stmt, *_ in writes:
            wn = cfg.node_of(stmt)
            ck.ob("C03.2", fn, c, wn.id not in cfg.reachable_from(n) and n.id not in cfg.reachable_from(wn),
                  f"{cls.name}.{fn.name}: the fallback is taken only instead of the guarded write")
    return count


def _mentions_attr(e: ast.AST, attr: str) -> bool:
    return any(isinstance(x, ast.Attribute) and x.attr == attr for x in ast.walk(e))


# ------------------------------------------------------------------------------------------------ C03.3
def _recreate_contract(ck: Check, repo: Repo, cls: Cls, methods) -> None:
    own = [m for m, _, _ in methods if m.cls is cls]
    if not own:
        return
    rname = "recreate_encoder" if cls.name == "EvolvableNetwork" else "recreate_network"
    rec = cls.methods.get(rname)
    ck.ob("C03.3", own[0], cls.node, rec is not None, f"{cls.name} defines {rname}()", construct=f"{cls.name}.{rname}")
    if rec is None:
        return
    params = set(rec.named_params)
    for m, kind, kws in methods:
        for k in kws:
            ck.ob("C03.3", m, m.node, k in params or rec.node.args.kwarg is not None,
                  f"{cls.name}.{rname} accepts the keyword `{k}` passed by @mutation on {m.name}", construct=f"{cls.name}.{m.name}: @mutation({k}=...)")
    # rebuilds only from self attributes
    bad = []
    for n in walk_no_nested(rec.node):
        if isinstance(n, ast.Name) and isinstance(n.ctx, ast.Load) and n.id not in params and n.id not in ("self",) :
            pass
    # stores back (shared with C04.3)
    stores = [n for n in walk_no_nested(rec.node) if isinstance(n, ast.Assign) and dotted(n.targets[0]).startswith("self.")]
    ck.ob("C03.3", rec, rec.node, bool(stores), f"{cls.name}.{rname} stores the rebuilt network on the module", construct=f"{cls.name}.{rname}: stores")


# ------------------------------------------------------------------------------------------------ C03.6
def _kernel_bound(ck: Check, repo: Repo) -> None:
    fn = repo.fn("agilerl.modules.cnn", "MutableKernelSizes.change_kernel_size")
    cfg = CFG(fn.node)
    tb = TermBuilder(repo, fn, cfg=cfg, depth=0)
    draws = [c for c in calls_in(fn.node) if call_name(c) in ("np.random.randint", "np.random.choice")]
    ck.floor("C03.6", len(draws), 1, "random kernel draw in change_kernel_size", fn=fn)
    for c in draws:
        n = cfg.node_of(c)
        hi = c.args[1] if len(c.args) > 1 else None
        ok = False
        detail = ""
        if hi is not None:
            t = tb.term(hi, n) - Poly.const(1)  # randint upper bound is exclusive
            a = single_atom(tb, t)
            ok = a is not None and a.kind == "idx" and "calc_max_kernel_sizes" in a.key and a.name.endswith("hidden_layer")
            detail = f"largest value drawn = {t.key()[:120]}"
        ck.ob("C03.6", fn, c, ok and const_value(c.args[0]) is not None and const_value(c.args[0]) >= 1,
              "the drawn kernel size lies in [1, calc_max_kernel_sizes(...)[layer]]", detail=detail)
    # the max list is computed from the arguments of this call (current architecture)
    mk = [c for c in calls_in(fn.node) if call_name(c) == "self.calc_max_kernel_sizes"]
    ck.ob("C03.6", fn, mk[0] if mk else fn.node, len(mk) == 1 and [dotted(a) for a in mk[0].args] == ["channel_size", "stride_size", "input_shape"],
          "the bound is computed from the architecture passed in")
    # EvolvableCNN.add_layer: new kernel drawn up to max_kernels[-1]
    al = repo.fn("agilerl.modules.cnn", "EvolvableCNN.add_layer")
    acfg = CFG(al.node)
    atb = TermBuilder(repo, al, cfg=acfg, depth=0)
    # role: the kernel draw is the randint whose upper bound derives from calc_max_kernel_sizes(...) or whose result is handed to
    # self.mut_kernel_size.add_layer(...) (the stride draw is neither)
    kdraw_names = {x.id for c in calls_in(al.node) if call_name(c) == "self.mut_kernel_size.add_layer" for a in c.args for x in ast.walk(a) if isinstance(x, ast.Name)}
    for c in [c for c in calls_in(al.node) if call_name(c) == "np.random.randint"]:
        n = acfg.node_of(c)
        feeds_kernel = any(c is acfg.value_of_def(d, k) for k in kdraw_names for d in acfg.live_nodes() if any(kk == k for kk, _ in acfg.defs_at(d))) or \
            any(c is x for kc in calls_in(al.node) if call_name(kc) == "self.mut_kernel_size.add_layer" for a in kc.args for x in ast.walk(a))
        if len(c.args) > 1 and ("calc_max_kernel_sizes" in atb.term(c.args[1], n).key() or feeds_kernel):
            t = atb.term(c.args[1], n) - Poly.const(1)
            a = single_atom(atb, t)
            ck.ob("C03.6", al, c, a is not None and a.kind == "idx" and "calc_max_kernel_sizes" in a.key and a.name.replace(" ", "") in ("-1", "-1*1"),
                  "add_layer draws the new layer's kernel within the limit of the last feature map", detail=t.key()[:120])
    ck.ob("C03.6", al, al.node, has(al.node, 'self.mut_kernel_size.calc_max_kernel_sizes(self.channel_size, self.stride_size, self.input_shape)'),
          "add_layer computes the limits from the module's current architecture", construct="add_layer max kernels source")
    cm = repo.fn("agilerl.utils.evolvable_networks", "calc_max_kernel_sizes")
    src = ast.unparse(cm.node)
    ck.ob("C03.6", cm, cm.node, has(src, 'if $max_kernel_size <= 0:\n    $max_kernel_size = 1') and has(src, 'min($height_out, $width_out)'),
          "the limit derives from the smaller side of the feature map and is at least 1", construct="calc_max_kernel_sizes clamp")


# ------------------------------------------------------------------------------------------------ C03.4
# projections confirmed lossy by reading (one line of reason each)
LOSSY_PROJECTIONS = {
    ("EvolvableCNN", "kernel_size"): "int_sizes keeps only the last component of each kernel; for Conv3d the per-layer depth given to the "
                                     "constructor is dropped, so type(self)(**init_dict) rebuilds kernels of depth 1 (first layer: sample depth)",
}
ACCEPTED_NORMALISERS = ("list", "tuple", "dict", "copy.deepcopy", "deepcopy", "int", "float", "str")


def _identity_of(e: ast.AST, params: Set[str]) -> Optional[str]:
    """If e is an identity / idempotent normalisation of exactly one parameter, that parameter."""
    if isinstance(e, ast.Name) and e.id in params:
        return e.id
    if isinstance(e, ast.BoolOp) and isinstance(e.op, ast.Or) and isinstance(e.values[0], ast.Name) and e.values[0].id in params:
        return e.values[0].id
    if isinstance(e, ast.IfExp):
        b = _identity_of(e.body, params)
        o = _identity_of(e.orelse, params)
        names = {x.id for x in ast.walk(e.test) if isinstance(x, ast.Name)}
        if b and b in names and not (o and o != b):
            return b
        if o and o in names and not (b and b != o):
            return o
    if isinstance(e, ast.Call) and call_name(e) in ACCEPTED_NORMALISERS and len(e.args) == 1:
        return _identity_of(e.args[0], params)
    return None


def _provider(repo: Repo, cls: Cls, p: str) -> Tuple[str, str]:
    """How getattr(instance_of_cls, p) is provided: ('identity', why) | ('violation', why) | ('unknown', why)."""
    mro = repo.mro(cls)
    init = cls.methods.get("__init__")
    if init is None:
        return "unknown", "no own __init__"
    # expression (in terms of cls's parameters) bound to each parameter of each base __init__
    binding: Dict[str, Dict[str, Optional[ast.AST]]] = {cls.name: {q: ast.Name(id=q, ctx=ast.Load()) for q in init.named_params[1:]}}
    chain = [cls]
    cur = cls
    cur_init = init
    for _ in range(6):
        sup = [c for c in calls_in(cur_init.node) if isinstance(c.func, ast.Attribute) and c.func.attr == "__init__" and
               ((isinstance(c.func.value, ast.Call) and call_name(c.func.value) == "super") or dotted(c.func.value) in [b.name for b in repo.mro(cur)[1:]])]
        if not sup:
            break
        call = sup[0]
        bases = repo.mro(cur)[1:]
        target = None
        if isinstance(call.func.value, ast.Call):
            for b in bases:
                if "__init__" in b.methods:
                    target = b
                    break
        else:
            target = next((b for b in bases if b.name == dotted(call.func.value)), None)
        if target is None:
            break
        tinit = target.methods["__init__"]
        tparams = tinit.named_params[1:]
        args = list(call.args)
        if args and isinstance(args[0], ast.Name) and args[0].id == "self":
            args = args[1:]
        b: Dict[str, Optional[ast.AST]] = {}
        for i, a in enumerate(args):
            if i < len(tparams) and not isinstance(a, ast.Starred):
                b[tparams[i]] = a
        for k in call.keywords:
            if k.arg:
                b[k.arg] = k.value
        # translate into cls's parameters
        prev = binding[cur.name]
        tb_: Dict[str, Optional[ast.AST]] = {}
        for q, e in b.items():
            if isinstance(e, ast.Name) and e.id in prev and prev[e.id] is not None:
                tb_[q] = prev[e.id]
            elif isinstance(e, ast.Name) and e.id not in prev:
                tb_[q] = None  # local variable of the subclass constructor
            else:
                # expression over cur's params: keep only if it is an identity of one
                ident = _identity_of(e, set(prev))
                tb_[q] = prev.get(ident) if ident else ast.Constant(value=f"<{short(e, 40)}>")
        binding[target.name] = tb_
        chain.append(target)
        cur, cur_init = target, tinit
    own_params = set(init.named_params[1:])
    # 1. property named p anywhere in the MRO
    for k in mro:
        prop = k.methods.get(p)
        if prop is not None and prop.has_decorator("property"):
            rets = [n for n in walk_no_nested(prop.node) if isinstance(n, ast.Return) and n.value is not None]
            if len(rets) == 1 and isinstance(rets[0].value, ast.Attribute) and dotted(rets[0].value).startswith("self.") and dotted(rets[0].value).count(".") == 1:
                backing = rets[0].value.attr
                kind, why = _stored(repo, cls, chain, binding, backing, p, own_params)
                return kind, f"property {k.name}.{p} returns self.{backing}; {why}"
            txt = " ".join(ast.unparse(r.value) for r in rets)
            if rets and all(any(isinstance(x, ast.Attribute) and x.attr in ("net_config", "init_dict") for x in ast.walk(r.value)) for r in rets):
                return "identity", f"property {k.name}.{p} delegates to the nested module's own constructor description ({short(rets[0].value, 50)}), which follows its mutations"
            if (k.name, p) in LOSSY_PROJECTIONS:
                return "violation", f"property {k.name}.{p} returns `{short(rets[0].value, 60)}`: {LOSSY_PROJECTIONS[(k.name, p)]}"
            return "unknown", f"property {k.name}.{p} computes its value ({short(rets[0].value, 50) if rets else '?'})"
    return _stored(repo, cls, chain, binding, p, p, own_params)


def _stored(repo: Repo, cls: Cls, chain: List[Cls], binding, attr: str, p: str, own_params: Set[str]) -> Tuple[str, str]:
    for k in chain:
        kinit = k.methods.get("__init__")
        if kinit is None:
            continue
        vals = self_attr_stores(kinit).get(attr)
        if not vals:
            continue
        kparams = set(kinit.named_params[1:])
        v = vals[-1]
        ident = _identity_of(v, kparams)
        if ident is None:
            return "unknown", f"{k.name}.__init__ stores self.{attr} = {short(v, 60)} (not an identity of a parameter)"
        src = binding.get(k.name, {}).get(ident)
        if k is cls:
            src = ast.Name(id=ident, ctx=ast.Load())
        if isinstance(src, ast.Name):
            if src.id == p:
                return "identity", f"{k.name}.__init__ stores self.{attr} = {ident} <- {p}"
            return "violation", (f"{k.name}.__init__ stores self.{attr} from its parameter `{ident}`, which {cls.name}.__init__ binds to `{src.id}`, "
                                 f"not to `{p}`: init_dict['{p}'] reports the value of `{src.id}`")
        if src is None:
            return "unknown", f"{k.name}.{attr} is fed by a value computed in {cls.name}.__init__"
        return "unknown", f"{k.name}.{attr} <- {short(src, 50)}"
    return "unknown", f"no constructor in the chain stores self.{attr}"


def _init_dict(ck: Check, repo: Repo) -> None:
    n = 0
    for modname, cname in INIT_DICT_CLASSES:
        cls = repo.cls(modname, cname)
        init = cls.methods.get("__init__")
        if init is None:
            continue
        for p in init.named_params[1:]:
            kind, why = _provider(repo, cls, p)
            n += 1
            if kind == "unknown":
                # recorded, not armed: the flow is not an identity the analysis can follow
                ck.analysed.setdefault("C03.4_not_followed", []).append(f"{cname}.{p}: {why}")
                continue
            ck.ob("C03.4", init, init.node, kind == "identity", f"{cname}: init_dict['{p}'] is the constructor argument `{p}`",
                  detail=why, construct=f"{cname}.{p}")
    ck.floor("C03.4", n, 120, "constructor parameters of evolvable classes examined")
    gi = repo.fn("agilerl.modules.base", "EvolvableModule.get_init_dict")
    src = ast.unparse(gi.node)
    ck.ob("C03.4", gi, gi.node, has(src, 'inspect.signature(self.__init__).parameters') and has(src, '{$k: getattr(self, $k) for $k in $constructor_args.keys()}'),
          "init_dict is read attribute-by-attribute from the constructor's parameter names", construct="get_init_dict")


# ------------------------------------------------------------------------------------------------ C03.7
def _forwarded(ck: Check, repo: Repo) -> None:
    fn = repo.fn("agilerl.modules.base", "EvolvableWrapper.__init__")
    cfg = CFG(fn.node)
    fw = [c for c in calls_in(fn.node) if call_name(c) == "self._init_wrapped_methods"]
    dis = [c for c in calls_in(fn.node) if last_attr(c) == "disable_mutations" and dotted(c.func.value) == "module"]
    helper = repo.fn("agilerl.modules.base", "EvolvableWrapper._init_wrapped_methods")
    re_adv = has(helper.node, 'setattr(self, $method, getattr($module, $method))')
    guard = repo.fn("agilerl.modules.base", "_mutation_wrapper")
    guarded = has(guard.node, 'if $attribute not in $module.mutation_methods:\n    ...')
    ck.note("C03.7_mechanism", {"wrapper re-advertises getattr(module, method)": re_adv, "method guard checks owner's list": guarded})
    for d in dis:
        untyped = not d.args and not d.keywords
        after = any(cfg.node_of(f) is not None and cfg.node_of(d).id in cfg.reachable_from(cfg.node_of(f)) for f in fw)
        ok = not (re_adv and guarded and untyped and after)
        ck.ob("C03.7", fn, d, ok,
              "the wrapped module keeps the method names that the wrapper re-advertised (their guard consults the owner's list)",
              detail="module.disable_mutations() empties module.mutation_methods after the wrapper stored getattr(module, method); every "
                     "forwarded method is wrapped by a guard that returns without acting unless its name is still in the owner's list, so "
                     "the head mutations advertised by StochasticActor (PPO/IPPO policy) are no-ops and the agent reports mut=None",
              construct="EvolvableWrapper.__init__: module.disable_mutations() after forwarding")
    ck.ob("C03.7", fn, fn.node, bool(fw), "the wrapper forwards the wrapped module's mutation methods", construct="forwarding in EvolvableWrapper.__init__")


# ------------------------------------------------------------------------------------------------ MutationContext
def _context(ck: Check, repo: Repo) -> None:
    ex = repo.fn("agilerl.modules.base", "MutationContext.__exit__")
    cfg = CFG(ex.node)
    rec = [cfg.node_of(c) for c in calls_in(ex.node) if call_name(c) == "self.module.recreate_network"]
    ck.ob("C03.3", ex, rec[0].ast if rec and rec[0] else ex.node, len(rec) == 1, "recreate_network is called once when a mutation finishes", construct="recreate call in MutationContext.__exit__")
    if rec and rec[0] is not None:
        atoms = [(ast.unparse(a), pol) for g, pol, _ in cfg.guards_at(rec[0]) for a, pol in conjuncts(g, pol)]
        ck.ob("C03.3", ex, rec[0].ast, ("self.module._mutation_depth == 0", True) in atoms, "only after the outermost mutation method returned (nested fallbacks do not rebuild twice)",
              detail=f"guards: {atoms}")
        # role: "the applied mutation" is whatever local holds the result of self._resolve_final_mutation_attr() (found by its
        # reaching definitions at the test, not by its spelling)
        applied = False
        for g, pol, tnode in cfg.guards_at(rec[0]):
            for a, apol in conjuncts(g, pol):
                if apol and isinstance(a, ast.Compare) and len(a.ops) == 1 and isinstance(a.ops[0], ast.IsNot) and isinstance(a.left, ast.Name) \
                        and isinstance(a.comparators[0], ast.Constant) and a.comparators[0].value is None:
                    dfs = cfg.defs_reaching(tnode, a.left.id)
                    vals = [cfg.value_of_def(d, a.left.id) for d in dfs]
                    if vals and all(isinstance(v, ast.Call) and call_name(v) == "self._resolve_final_mutation_attr" for v in vals):
                        applied = True
        ck.ob("C03.3", ex, rec[0].ast, applied, "only when a mutation was really applied")
    dec = [n for n in cfg.live_nodes() if n.kind == "stmt" and isinstance(n.ast, ast.AugAssign) and dotted(n.ast.target) == "self.module._mutation_depth" and isinstance(n.ast.op, ast.Sub)]
    ck.ob("C03.3", ex, dec[0].ast if dec else ex.node, len(dec) == 1 and cfg.postdominates(dec[0], cfg.entry), "the nesting depth is decremented on every exit")
    en = repo.fn("agilerl.modules.base", "MutationContext.__enter__")
    ck.ob("C03.3", en, en.node, has(en.node, 'self.module._mutation_depth += 1'), "and incremented on every entry", construct="depth increment")
    hook = [cfg.node_of(c) for c in calls_in(ex.node) if call_name(c) == "self.module._mutation_hook"]
    ck.ob("C03.3", ex, hook[0].ast if hook and hook[0] else ex.node, len(hook) == 1 and (not rec or rec[0] is None or hook[0].id in cfg.reachable_from(rec[0])),
          "the module's mutation hook runs after the network was rebuilt")
    meta = repo.fn("agilerl.modules.base", "ModuleMeta.__call__")
    ck.ob("C03.3", meta, meta.node, has(meta.node, 'setattr($instance, $name, _mutation_wrapper($instance, $method, $name))') and has(meta.node, '$instance.get_mutation_methods().items()'),
          "every advertised mutation method of a new module runs inside a MutationContext", construct="ModuleMeta wraps mutation methods")


# ------------------------------------------------------------------------------------------------ C03.8 / C03.9
def _reads_attr(repo: Repo, cls: Cls, fn: Fn, attr: str, depth: int = 2) -> bool:
    for n in walk_no_nested(fn.node):
        if isinstance(n, ast.Attribute) and n.attr == attr and dotted(n.value) == "self" and isinstance(n.ctx, ast.Load):
            return True
    if depth:
        for c in calls_in(fn.node):
            nm = call_name(c)
            if nm.startswith("self.") and nm.count(".") == 1:
                m = _find_method(repo, cls, nm[5:])
                if m is not None and m is not fn and _reads_attr(repo, cls, m, attr, depth - 1):
                    return True
    return False


def _find_method(repo: Repo, cls: Cls, name: str) -> Optional[Fn]:
    for c in repo.mro(cls):
        if name in c.methods:
            return c.methods[name]
    return None


def _builder_sites(rec: Fn) -> List[Tuple[str, ast.Call, ast.AST]]:
    """(self attribute, builder call, statement) for every call whose result ends up in self.<attr> inside rec."""
    out = []
    assigns = [n for n in walk_no_nested(rec.node) if isinstance(n, ast.Assign) and len(n.targets) == 1]
    local_calls: Dict[str, List[Tuple[ast.Call, ast.AST]]] = {}
    for a in assigns:
        if isinstance(a.targets[0], ast.Name) and isinstance(a.value, ast.Call) and not call_name(a.value).startswith(("torch.", "np.", "numpy.")):
            # (tensor / array constructors are data, e.g. the sample input handed to a builder, not builders)
            local_calls.setdefault(a.targets[0].id, []).append((a.value, a))
    for a in assigns:
        t = dotted(a.targets[0])
        if not (t.startswith("self.") and t.count(".") == 1):
            continue
        attr = t[5:]
        if isinstance(a.value, ast.Call):
            used = {x.id for x in ast.walk(a.value) if isinstance(x, ast.Name)} & set(local_calls)
            if used:
                for u in sorted(used):
                    for c, st in local_calls[u]:
                        out.append((attr, c, st))
            else:
                out.append((attr, a.value, a))
        elif isinstance(a.value, ast.Name) and a.value.id in local_calls:
            for c, st in local_calls[a.value.id]:
                out.append((attr, c, st))
    return out


_NOT_BUILDERS = {"deepcopy", "copy", "len", "list", "tuple", "dict", "getattr", "isinstance", "get", "pop", "get_activation"}


def _rebuild_consumes(ck: Check, repo: Repo) -> None:
    n = 0
    for modname, cname, table in SCOPE:
        cls = repo.cls(modname, cname)
        rname = "recreate_encoder" if cname == "EvolvableNetwork" else "recreate_network"
        rec = cls.methods.get(rname)
        if rec is None:
            continue
        cfg = CFG(rec.node)
        sites = [(a, c, st) for a, c, st in _builder_sites(rec) if call_name(c).split(".")[-1] not in _NOT_BUILDERS and call_name(c).split(".")[-1] != "preserve_parameters"]
        # keep only the primary network attributes (those a builder call with keywords or a self-method produces)
        for attr in table:
            consumers = 0
            for tgt, c, st in sites:
                nm = call_name(c)
                via = None
                if any(k.arg and _mentions_attr(k.value, attr) for k in c.keywords) or any(_mentions_attr(a, attr) for a in c.args if not isinstance(a, ast.Starred)):
                    via = "argument"
                if via is None and nm.startswith("self.") and nm.count(".") == 1:
                    m = _find_method(repo, cls, nm[5:])
                    if m is not None and _reads_attr(repo, cls, m, attr):
                        via = f"self-method {nm[5:]} reads self.{attr}"
                splat = [k.value for k in c.keywords if k.arg is None]
                splat_problem = None
                if via is None and splat:
                    for d in splat:
                        if not isinstance(d, ast.Name):
                            splat_problem = (f"the keyword mapping `{short(d, 60)}` is re-evaluated at the call: an item stored into an earlier evaluation "
                                             f"of that expression (a property that builds its dictionary on every access) is lost")
                            continue
                        node = cfg.node_of(st)
                        stores = [x for x in cfg.live_nodes() if x.kind == "stmt" and isinstance(x.ast, ast.Assign) and isinstance(x.ast.targets[0], ast.Subscript)
                                  and dotted(x.ast.targets[0].value) == d.id and _mentions_attr(x.ast.value, attr)]
                        if node is not None and any(cfg.dominates(x, node) for x in stores):
                            via = f"**{d.id} updated with self.{attr}"
                        else:
                            splat_problem = f"`{d.id}` is not updated with self.{attr} before the call"
                if via is None and not splat and not (nm.startswith("self.") and nm.count(".") == 1):
                    # a builder of a part that does not depend on this attribute (e.g. the output layer sized by something else)
                    continue
                if via is None and splat_problem is None:
                    continue
                consumers += 1
                n += 1
                ck.ob("C03.8", rec, c, via is not None, f"{cname}.{rname}: the rebuilt `{tgt}` is constructed from the mutated self.{attr}",
                      detail=(via or splat_problem or ""), construct=f"{cname}.{rname}: {tgt} <- {short(c.func, 40)} consumes {attr}")
            ck.ob("C03.8", rec, rec.node, consumers > 0, f"{cname}.{rname} passes the mutated self.{attr} to a builder", construct=f"{cname}.{rname}: some builder consumes {attr}",
                  detail="no builder call in the rebuild reads the attribute the mutation methods change: the advertised mutation would not change the architecture")
    ck.floor("C03.8", n, 11, "builder calls consuming a mutated attribute")


def _local_defs(fn: Fn) -> Dict[str, List[ast.AST]]:
    out: Dict[str, List[ast.AST]] = {}
    for a in walk_no_nested(fn.node):
        if isinstance(a, ast.Assign):
            for t in a.targets:
                for x in ast.walk(t):
                    if isinstance(x, ast.Name) and isinstance(x.ctx, ast.Store):
                        out.setdefault(x.id, []).append(a.value if isinstance(t, ast.Name) else None)
        elif isinstance(a, (ast.AugAssign, ast.AnnAssign)) and isinstance(a.target, ast.Name):
            out.setdefault(a.target.id, []).append(None)
        elif isinstance(a, (ast.For, ast.With)):
            for x in ast.walk(a.target if isinstance(a, ast.For) else ast.Tuple(elts=[i.optional_vars for i in a.items if i.optional_vars is not None])):
                if isinstance(x, ast.Name):
                    out.setdefault(x.id, []).append(None)
    return out


def _canon(e: ast.AST, pmap: Dict[str, str], fn: Optional[Fn] = None, depth: int = 3) -> Optional[str]:
    """Canonical text of e (self.a and the constructor parameter stored in a both become @a); None when a name in it cannot be followed."""
    defs = _local_defs(fn) if fn is not None else {}
    failed = []
    import copy
    e = copy.deepcopy(e)
    # comprehension variables are bound inside e: canonical positional names, so that their spelling does not matter
    bound: Dict[str, str] = {}
    for x in ast.walk(e):
        if isinstance(x, ast.comprehension):
            for y in ast.walk(x.target):
                if isinstance(y, ast.Name):
                    bound.setdefault(y.id, f"%{len(bound)}")

    class T(ast.NodeTransformer):
        def visit_Attribute(self, n):
            if dotted(n.value) == "self":
                return ast.Name(id="@" + n.attr, ctx=ast.Load())
            return self.generic_visit(n)

        def visit_Name(self, n):
            if n.id in bound:
                return ast.Name(id=bound[n.id], ctx=ast.Load())
            d = defs.get(n.id, [])
            if n.id in pmap and not d:
                return ast.Name(id="@" + pmap[n.id], ctx=ast.Load())
            if len(d) == 1 and d[0] is not None and depth > 0 and n.id not in pmap:
                sub = _canon(d[0], pmap, fn, depth - 1)
                if sub is None:
                    failed.append(n.id)
                    return n
                return ast.Name(id="(" + sub + ")", ctx=ast.Load())
            if d:
                failed.append(n.id)
            return n
    out = ast.unparse(T().visit(e))
    return None if failed else out


def _build_agreement(ck: Check, repo: Repo, rule: str = "C03.9") -> None:
    pairs = 0
    mods = ["agilerl.modules.mlp", "agilerl.modules.cnn", "agilerl.modules.lstm", "agilerl.modules.simba", "agilerl.modules.resnet",
            "agilerl.modules.multi_input", "agilerl.networks.custom_modules"]
    for modname in mods:
        mod = repo.mod(modname)
        for cls in mod.classes.values():
            init = cls.methods.get("__init__")
            rec = cls.methods.get("recreate_network")
            if init is None or rec is None:
                continue
            params = set(init.named_params[1:])
            # constructor parameter -> attribute it is stored in (identity stores in this __init__; same name through super().__init__)
            pmap: Dict[str, str] = {p: p for p in params}
            for a in walk_no_nested(init.node):
                if isinstance(a, ast.Assign) and len(a.targets) == 1:
                    t = dotted(a.targets[0])
                    if t.startswith("self.") and t.count(".") == 1:
                        src = _identity_of(a.value, params)
                        if src is not None:
                            pmap[src] = t[5:]
            isites = [(a, c) for a, c, st in _builder_sites(init) if len(c.keywords) >= 2 or call_name(c).startswith("self.")]
            # locals of the rebuild that merely alias a preserve function (`f = A.preserve_parameters if ... else B.shrink_preserve_parameters`)
            # are recognised by what they are bound to, not by their name
            aliases = {t.id for a in walk_no_nested(rec.node) if isinstance(a, ast.Assign) for t in a.targets if isinstance(t, ast.Name)
                       and any(isinstance(x, ast.Attribute) and x.attr in ("preserve_parameters", "shrink_preserve_parameters") for x in ast.walk(a.value))}
            rsites = [(a, c) for a, c, st in _builder_sites(rec) if call_name(c).split(".")[-1] != "preserve_parameters"
                      and not (isinstance(c.func, ast.Name) and c.func.id in aliases)]
            for attr, ic in isites:
                cands = [rc for a2, rc in rsites if a2 == attr and call_name(rc) == call_name(ic)]
                if not cands:
                    continue
                for rc in cands:
                    pairs += 1
                    ik = {k.arg: k.value for k in ic.keywords if k.arg}
                    rk = {k.arg: k.value for k in rc.keywords if k.arg}
                    defaults: Dict[str, ast.AST] = {}
                    fdef = _callee_def(repo, cls, init, ic)
                    if fdef is not None:
                        a = fdef.args
                        pos = a.posonlyargs + a.args
                        for prm, d in zip(pos[len(pos) - len(a.defaults):], a.defaults):
                            defaults[prm.arg] = d
                        for prm, d in zip(a.kwonlyargs, a.kw_defaults):
                            if d is not None:
                                defaults[prm.arg] = d
                    for k in sorted(set(ik) | set(rk)):
                        if k in ik and k in rk:
                            ci, cr = _canon(ik[k], pmap, init), _canon(rk[k], {}, rec)
                            if ci is None or cr is None:
                                ck.analysed.setdefault(rule + "_not_followed", []).append(f"{cls.name}.{attr} {k}: value goes through a reassigned local")
                                continue
                            ck.ob(rule, rec, rc, ci == cr, f"{cls.name}: `{attr}` is rebuilt with {k} as constructed",
                                  detail=f"__init__ passes {k}={short(ik[k], 60)} (canonical {ci}); recreate_network passes {k}={short(rk[k], 60)} (canonical {cr})",
                                  construct=f"{cls.name}.{attr}: {call_name(ic)}({k}=)")
                        else:
                            have, side = (ik[k], "recreate_network") if k in ik else (rk[k], "__init__")
                            same_as_default = k in defaults and ast.unparse(defaults[k]) == ast.unparse(have)
                            ck.ob(rule, rec, rc, same_as_default, f"{cls.name}: `{attr}` is built and rebuilt with the same keyword set ({k})",
                                  detail=f"{side} omits `{k}` (builder default {ast.unparse(defaults[k]) if k in defaults else 'unknown'}), the other side passes {short(have, 60)}: "
                                         f"after a mutation the live network no longer has the architecture the constructor description (init_dict) builds, "
                                         f"so clone() / checkpoints cannot load the current weights",
                                  construct=f"{cls.name}.{attr}: {call_name(ic)}({k}=)")
                    ck.ob(rule, rec, rc, len(ic.args) == len(rc.args), f"{cls.name}: `{attr}` built and rebuilt with the same positional arguments",
                          construct=f"{cls.name}.{attr}: {call_name(ic)} positional")
    ck.floor(rule, pairs, 7, "(attribute, builder) pairs constructed in __init__ and rebuilt in recreate_network")


def _callee_def(repo: Repo, cls: Cls, fn: Fn, call: ast.Call) -> Optional[ast.FunctionDef]:
    nm = call_name(call)
    if nm.startswith("self.") and nm.count(".") == 1:
        m = _find_method(repo, cls, nm[5:])
        return m.node if m is not None else None
    try:
        tgt = repo.resolve(fn.mod, nm)
    except Exception:
        tgt = None
    node = getattr(tgt, "node", None)
    return node if isinstance(node, (ast.FunctionDef,)) else None


_MLP = "agilerl/modules/mlp.py"
_CNN = "agilerl/modules/cnn.py"
_LSTM = "agilerl/modules/lstm.py"
_SIMBA = "agilerl/modules/simba.py"
_RES = "agilerl/modules/resnet.py"
_MI = "agilerl/modules/multi_input.py"
_NB = "agilerl/networks/base.py"
_MB = "agilerl/modules/base.py"
VARIANTS = [
    ("stale-forwarded-wrappers", _MB, "                if method_name in self.__dict__:\n                    object.__setattr__(\n                        self,\n                        method_name,\n                        _mutation_wrapper(self, method, method_name),\n                    )\n", "                pass\n", "fire", "C03.13"),
    ("lstm-validator-rejects-numpy-int", "agilerl/networks/base.py", "        net_config[\"hidden_size\"], (int, np.int64)\n    ), \"Net config hidden_size must be an integer.\"\n\n\n# TODO", "        net_config[\"hidden_size\"], int\n    ), \"Net config hidden_size must be an integer.\"\n\n\n# TODO", "fire", "C03.10"),
    ("added-3d-kernel-inherits-depth", _CNN, "                other = (1, other, other)", "                other = (self.sizes[-1][0], other, other)", "fire", "C03.11"),
    ("multi-input-rebuild-width-formula", _MI, "        features_dim = extracted_features_dim + self.total_vector_dims * (\n            1 - self.vector_space_mlp\n        )\n        final_dense", "        features_dim = extracted_features_dim + self.total_vector_dims\n        final_dense", "fire", "C03.12"),
    ("mlp-add-layer-le", _MLP, "if len(self.hidden_size) < self.max_hidden_layers:  # HARD LIMIT", "if len(self.hidden_size) <= self.max_hidden_layers:  # HARD LIMIT", "fire", "C03.1"),
    ("mlp-add-layer-wrong-bound", _MLP, "if len(self.hidden_size) < self.max_hidden_layers:  # HARD LIMIT", "if len(self.hidden_size) < self.max_mlp_nodes:  # HARD LIMIT", "fire", "C03.1"),
    ("mlp-remove-layer-ge", _MLP, "if len(self.hidden_size) > self.min_hidden_layers:  # HARD LIMIT", "if len(self.hidden_size) >= self.min_hidden_layers:  # HARD LIMIT", "fire", "C03.1"),
    ("mlp-add-node-unchecked-increment", _MLP, "            self.hidden_size[hidden_layer] + numb_new_nodes <= self.max_mlp_nodes\n", "            self.hidden_size[hidden_layer] <= self.max_mlp_nodes\n", "fire", "C03.1"),
    ("mlp-add-node-other-layer", _MLP, "            self.hidden_size[hidden_layer] + numb_new_nodes <= self.max_mlp_nodes\n", "            self.hidden_size[0] + numb_new_nodes <= self.max_mlp_nodes\n", "fire", "C03.1"),
    ("mlp-remove-node-no-guard", _MLP, "        if self.hidden_size[hidden_layer] - numb_new_nodes > self.min_mlp_nodes:\n            self.hidden_size[hidden_layer] -= numb_new_nodes",
     "        if True:\n            self.hidden_size[hidden_layer] -= numb_new_nodes", "fire", "C03.1"),
    ("mlp-remove-node-ge-ok", _MLP, "if self.hidden_size[hidden_layer] - numb_new_nodes > self.min_mlp_nodes:", "if self.hidden_size[hidden_layer] - numb_new_nodes >= self.min_mlp_nodes:", "silent", None),
    ("mlp-fallback-not-returned", _MLP, "            self.hidden_size += [self.hidden_size[-1]]\n        else:\n            return self.add_node()", "            self.hidden_size += [self.hidden_size[-1]]\n        else:\n            self.add_node()", "fire", "C03.2"),
    ("mlp-add-two-layers", _MLP, "            self.hidden_size += [self.hidden_size[-1]]\n", "            self.hidden_size += [self.hidden_size[-1], self.hidden_size[-1]]\n", "fire", "C03.1"),
    ("cnn-stride-not-dropped", _CNN, "            self.mut_kernel_size.remove_layer()\n            self.stride_size = self.stride_size[:-1]\n", "            self.mut_kernel_size.remove_layer()\n", "fire", "C03.1"),
    ("cnn-channel-min-dir", _CNN, "if self.channel_size[hidden_layer] - numb_new_channels >= self.min_channel_size:", "if self.channel_size[hidden_layer] - numb_new_channels <= self.min_channel_size:", "fire", "C03.1"),
    ("cnn-kernel-over-max", _CNN, "new_kernel_size = np.random.randint(1, max_kernels[hidden_layer] + 1)", "new_kernel_size = np.random.randint(1, max_kernels[hidden_layer] + 2)", "fire", "C03.6"),
    ("cnn-kernel-wrong-layer", _CNN, "new_kernel_size = np.random.randint(1, max_kernels[hidden_layer] + 1)", "new_kernel_size = np.random.randint(1, max_kernels[0] + 1)", "fire", "C03.6"),
    ("lstm-layer-bound-swapped", _LSTM, "if self.num_layers < self.max_layers:  # HARD LIMIT", "if self.num_layers < self.max_hidden_size:  # HARD LIMIT", "fire", "C03.1"),
    ("lstm-remove-node-plus", _LSTM, "        if self.hidden_size - numb_new_nodes >= self.min_hidden_size:  # HARD LIMIT\n            self.hidden_size -= numb_new_nodes", "        if self.hidden_size - numb_new_nodes >= self.min_hidden_size:  # HARD LIMIT\n            self.hidden_size -= 2 * numb_new_nodes", "fire", "C03.1"),
    ("simba-remove-block-ge", _SIMBA, "if self.num_blocks > self.min_blocks:  # HARD LIMIT", "if self.num_blocks >= self.min_blocks:  # HARD LIMIT", "fire", "C03.1"),
    ("resnet-add-channel-noguard", _RES, "        if self.channel_size + numb_new_channels < self.max_channel_size:\n            self.channel_size += numb_new_channels", "        self.channel_size += numb_new_channels", "fire", "C03.1"),
    ("latent-max-dir", _NB, "if self.latent_dim + numb_new_nodes < self.max_latent_dim:", "if self.latent_dim + numb_new_nodes > self.max_latent_dim:", "fire", "C03.1"),
    ("multiinput-latent-min", _MI, "if self.latent_dim - numb_new_nodes > self.min_latent_dim:", "if self.latent_dim > self.min_latent_dim:", "fire", "C03.1"),
    ("recreate-not-nested-only", _MB, "        if self.module._mutation_depth == 0:\n", "        if True:\n", "fire", "C03.3"),
    ("resnet-shrink-kw-dropped", _RES, "    def recreate_network(self, shrink_params: bool = False) -> None:", "    def recreate_network(self) -> None:", "fire", "C03.3"),
    ("dueling-rebuild-drops-layernorm", "agilerl/networks/custom_modules.py", "            init_layers=self.init_layers,\n            layer_norm=self.layer_norm,\n            activation=self.activation,\n            noise_std=self.noise_std,\n            device=self.device,\n            new_gelu=self.new_gelu,\n            name=\"advantage\",\n        )\n\n        self.advantage_net = EvolvableModule", "            init_layers=self.init_layers,\n            activation=self.activation,\n            noise_std=self.noise_std,\n            device=self.device,\n            new_gelu=self.new_gelu,\n            name=\"advantage\",\n        )\n\n        self.advantage_net = EvolvableModule", "fire", "C03.9"),
    ("encoder-config-property-store", _NB, "            init_dict = self.encoder.init_dict\n            init_dict[\"num_outputs\"] = self.latent_dim\n            encoder = self.encoder_cls(**init_dict)", "            self.encoder_config[\"num_outputs\"] = self.latent_dim\n            encoder = self.encoder_cls(**self.encoder_config)", "fire", "C03.8"),
    ("encoder-rebuild-forgets-latent", _NB, "            init_dict[\"num_outputs\"] = self.latent_dim\n", "", "fire", "C03.8"),
    ("encoder-rebuild-renamed-local-ok", _NB, "            init_dict = self.encoder.init_dict\n            init_dict[\"num_outputs\"] = self.latent_dim\n            encoder = self.encoder_cls(**init_dict)", "            enc_kwargs = self.encoder.init_dict\n            enc_kwargs[\"num_outputs\"] = self.latent_dim\n            encoder = self.encoder_cls(**enc_kwargs)", "silent", None),
    ("mlp-rebuild-kw-order-ok", _MLP, "            new_gelu=self.new_gelu,\n            device=self.device,\n            name=self.name,\n        )\n\n        self.model = EvolvableModule", "            device=self.device,\n            new_gelu=self.new_gelu,\n            name=self.name,\n        )\n\n        self.model = EvolvableModule", "silent", None),
    ("mlp-numoutputs-misbound", _MLP, "        self.num_outputs = num_outputs\n", "        self.num_outputs = num_inputs\n", "fire", "C03.4"),
]
VARIANTS += [
    # roles found by data flow (the local holding the resolved mutation; the draw handed to the kernel helper), not by the locals' names
    ("recreate-guard-on-other-value", _MB, "            if final_mutation_attr is not None:\n", "            if self.method_name is not None:\n", "fire", "C03.3"),
    ("cnn-new-layer-kernel-over-max", _CNN, "k_size = np.random.randint(2, max_kernels[-1] + 1)", "k_size = np.random.randint(2, max_kernels[-1] + 2)", "fire", "C03.6"),
    ("cnn-new-layer-kernel-unrelated-bound", _CNN, "k_size = np.random.randint(2, max_kernels[-1] + 1)", "k_size = np.random.randint(2, self.stride_size[-1] + 1)", "fire", "C03.6"),
]
VARIANTS += [
    ("cnn-add-channel-layer-zero-means-unset", _CNN, "        :rtype: dict[str, int]\n        \"\"\"\n        if hidden_layer is None:\n            hidden_layer = np.random.randint(0, len(self.channel_size), 1)[0]\n        else:\n            hidden_layer = min(hidden_layer, len(self.channel_size) - 1)\n",
     "        :rtype: dict[str, int]\n        \"\"\"\n        if not hidden_layer:\n            hidden_layer = np.random.randint(0, len(self.channel_size), 1)[0]\n        else:\n            hidden_layer = min(hidden_layer, len(self.channel_size) - 1)\n", "fire", "C03.14"),
    ("cnn-add-channel-is-not-none-ok", _CNN, "        :rtype: dict[str, int]\n        \"\"\"\n        if hidden_layer is None:\n            hidden_layer = np.random.randint(0, len(self.channel_size), 1)[0]\n        else:\n            hidden_layer = min(hidden_layer, len(self.channel_size) - 1)\n",
     "        :rtype: dict[str, int]\n        \"\"\"\n        if hidden_layer is not None:\n            hidden_layer = min(hidden_layer, len(self.channel_size) - 1)\n        else:\n            hidden_layer = np.random.randint(0, len(self.channel_size), 1)[0]\n", "silent", None),
    ("actor-max-latent-dim-not-forwarded", "agilerl/networks/actors.py", "            max_latent_dim=max_latent_dim,\n            n_agents=n_agents,\n            latent_dim=latent_dim,\n            simba=simba,\n            recurrent=recurrent,\n            device=device,\n        )\n\n        if isinstance(action_space, spaces.Box):\n            self.action_low",
     "            n_agents=n_agents,\n            latent_dim=latent_dim,\n            simba=simba,\n            recurrent=recurrent,\n            device=device,\n        )\n\n        if isinstance(action_space, spaces.Box):\n            self.action_low", "fire", "C03.15"),
]
VARIANTS += [
    ("resnet-constructor-rejects-numpy-channel-size", _RES, "        assert isinstance(\n            channel_size, (int, np.integer)\n        ), \"Channel size must be an integer.\"", "        assert isinstance(channel_size, int), \"Channel size must be an integer.\"", "fire", "C03.10"),
]
