"""C18.8 (helper module of c18), added after the third round of seeded changes; also the def-use helpers c18 uses to look through temporaries.

* C18.8  every indexed write of probability mass into the projection buffer ACCUMULATES: `index_add_` / `scatter_add_` (or `index_put_` / `put_` with
         `accumulate=True`).  Several source atoms of one transition regularly fall between the same pair of support atoms (terminal transitions collapse
         all of them onto the reward, clipping piles them up on v_min / v_max, gamma**n < 1 contracts the support), so the same flat index occurs more
         than once in one write.  `x[idx] += v` with a tensor-valued (advanced) index is `x[idx] = x[idx] + v`, an index_put WITHOUT accumulate: of the
         contributions addressed to one atom only one survives and the projection loses mass (clause: "its total mass equals that of the source
         distribution").  A subscript `+=` whose index consists of slices / integers only cannot address an element twice and is accepted.

The projection buffer is found by role: a local whose (only strong) definition is a `zeros(...)` tensor, written through itself, a view of it
(`view` / `reshape` / `flatten` ...) or a single-definition temporary bound to either.
"""
from __future__ import annotations

import ast
import copy
from typing import List, Optional, Tuple

from ..cfg import CFG, Node
from ..core import Fn, Repo, call_name, calls_in, const_value, dotted, get_kw, last_attr, short
from ..report import Check
from ..terms import TermBuilder, walk_atoms

RB = "agilerl.algorithms.dqn_rainbow"

ZEROS = ("torch.zeros", "torch.zeros_like", "np.zeros", "np.zeros_like")
VIEWS = ("view", "reshape", "flatten", "view_as", "contiguous", "squeeze", "unsqueeze", "ravel")
ACCUMULATING = ("index_add_", "scatter_add_")
ACCUMULATE_KW = ("index_put_", "put_")  # accumulate only with accumulate=True
OVERWRITING = ("scatter_", "index_copy_", "masked_scatter_")


def strong_def(cfg: CFG, at: Node, name: str) -> Optional[Node]:
    """The one definition that BINDS `name` as seen at `at` (element updates `name[i] = v` / `name[i] += v` do not rebind); None unless it is unique
    and on every path to `at`."""
    ds = [d for d in cfg.defs_reaching(at, name) if d is not at and any(k == name and strong for k, strong in cfg.defs_at(d))]
    if len(ds) == 1 and ds[0].kind == "stmt" and cfg.dominates(ds[0], at):
        return ds[0]
    return None


def through(cfg: CFG, e: ast.AST, at: Node) -> Tuple[ast.AST, Node]:
    """`e` with single-definition temporaries replaced by the expression bound to them, and the node at which that expression is evaluated."""
    k = 0
    while isinstance(e, ast.Name) and k < 8:
        d = strong_def(cfg, at, e.id)
        v = cfg.value_of_def(d, e.id) if d is not None else None
        if v is None or isinstance(d.ast, ast.AugAssign):
            break
        e, at, k = v, d, k + 1
    return e, at


def buffer_def(cfg: CFG, e: ast.AST, at: Node, _depth: int = 0) -> Optional[Node]:
    """The `x = zeros(...)` statement whose tensor `e` denotes at `at`: x itself, a view of it, or a temporary bound to either."""
    if _depth > 8:
        return None
    if isinstance(e, ast.Name):
        d = strong_def(cfg, at, e.id)
        v = cfg.value_of_def(d, e.id) if d is not None else None
        if v is None:
            return None
        if isinstance(v, ast.Call) and call_name(v) in ZEROS:
            return d
        return buffer_def(cfg, v, d, _depth + 1)
    if isinstance(e, ast.Call) and isinstance(e.func, ast.Attribute) and e.func.attr in VIEWS:
        return buffer_def(cfg, e.func.value, at, _depth + 1)
    return None


def flat_view(cfg: CFG, e: ast.AST, at: Node) -> Optional[Tuple[ast.Call, Node]]:
    """`e` (through temporaries) is `<tensor>.view(...)` / `.reshape(...)` / `.flatten()`: that call and the node where it is evaluated."""
    v, n = through(cfg, e, at)
    if isinstance(v, ast.Call) and isinstance(v.func, ast.Attribute) and v.func.attr in ("view", "reshape", "flatten"):
        return v, n
    return None


def _row_member(target: ast.AST, value: ast.AST, name: str) -> Optional[ast.AST]:
    """the member of the literal row `value` that the loop target `target` binds to `name`."""
    if isinstance(target, ast.Name):
        return value if target.id == name else None
    if isinstance(target, (ast.Tuple, ast.List)) and isinstance(value, (ast.Tuple, ast.List)) and len(target.elts) == len(value.elts) \
            and not any(isinstance(x, ast.Starred) for x in list(target.elts) + list(value.elts)):
        for t, v in zip(target.elts, value.elts):
            r = _row_member(t, v, name)
            if r is not None:
                return r
    return None


def _reads(e: ast.AST) -> List[str]:
    """keys (local names and dotted attribute chains) an expression reads."""
    out = []
    for x in ast.walk(e):
        if isinstance(x, ast.Name):
            out.append(x.id)
        elif isinstance(x, ast.Attribute) and "?" not in dotted(x):
            out.append(dotted(x))
    return out


def unrolled(cfg: CFG, c: ast.AST, n: Optional[Node]) -> List[ast.AST]:
    """The constructs that `c` (a call / statement evaluated at node n) stands for.  Normally [c].  When c sits in the body of ONE `for` over a non-empty
    literal tuple / list of rows (in the header or in a single-definition temporary), reads that loop's variables, and nothing the rows read is
    (re)defined or updated in place inside the loop or between the evaluation of the table and the loop, the loop is the same program as the body once per row, in order: one copy of c per row,
    the loop variables replaced by the row's members.  (`for i, w in ((L, a), (u, b)): x.index_add_(0, i, w)` is two writes.)"""
    if n is None:
        return [c]
    loop_vars = {}
    for x in ast.walk(c):
        if isinstance(x, ast.Name) and isinstance(x.ctx, ast.Load):
            ds = cfg.defs_reaching(n, x.id)
            if len(ds) == 1 and ds[0].kind == "for" and isinstance(ds[0].ast, ast.For):
                loop_vars[x.id] = ds[0]
    heads = {d.id: d for d in loop_vars.values()}
    if len(heads) != 1:
        return [c]
    head = next(iter(heads.values()))
    if not any(x is c for b in head.ast.body for x in ast.walk(b)):
        return [c]  # after the loop the variables hold the last row only
    table, at = through(cfg, head.ast.iter, head)
    if not isinstance(table, (ast.Tuple, ast.List)) or not table.elts or any(isinstance(r, ast.Starred) for r in table.elts):
        return [c]
    out = []
    inside = {id(x) for b in head.ast.body for x in ast.walk(b)}
    for r in table.elts:
        members = {v: _row_member(head.ast.target, r, v) for v in loop_vars}
        if any(m is None for m in members.values()):
            return [c]
        # the members are evaluated when the table is built: they denote the same values at c only if nothing they read is (re)defined or updated in
        # place in between, i.e. every definition that reaches c also reaches the table and none lies inside the loop
        for m in members.values():
            for k in _reads(m):
                ds = cfg.defs_reaching(n, k)
                if {d.id for d in ds} != {d.id for d in cfg.defs_reaching(at, k)} or any(id(d.ast) in inside or id(d.stmt) in inside for d in ds):
                    return [c]

        class _Subst(ast.NodeTransformer):
            def visit_Name(self, x: ast.Name) -> ast.AST:
                if isinstance(x.ctx, ast.Load) and x.id in members:
                    return ast.copy_location(copy.deepcopy(members[x.id]), x)
                return x

        out.append(ast.fix_missing_locations(_Subst().visit(copy.deepcopy(c))))
    return out


def _scalar_index(tb: TermBuilder, e: ast.AST, at: Node) -> bool:
    """an index element that cannot be a tensor: slice, constant, or an expression over loop counters / integer attributes only."""
    if isinstance(e, (ast.Slice, ast.Constant)):
        return True
    return not any(a.kind not in ("iter", "const", "attr", "global", "meta") for a, _, _ in walk_atoms(tb, tb.term(e, at)))


def _basic_index(tb: TermBuilder, sl: ast.AST, at: Node) -> bool:
    return all(_scalar_index(tb, x, at) for x in (sl.elts if isinstance(sl, ast.Tuple) else [sl]))


def mass_writes(cfg: CFG, tb: TermBuilder, fn: Fn) -> List[Tuple[ast.AST, Node, Node, bool, str]]:
    """(construct, its node, buffer definition, accumulates?, diagnosis) for every indexed in-place write into a zeros-initialised local."""
    out: List[Tuple[ast.AST, Node, Node, bool, str]] = []
    for c in calls_in(fn.node):
        la = last_attr(c)
        if not isinstance(c.func, ast.Attribute) or la not in ACCUMULATING + ACCUMULATE_KW + OVERWRITING:
            continue
        n = cfg.node_of(c)
        z = buffer_def(cfg, c.func.value, n) if n is not None else None
        if z is None:
            continue
        for c in unrolled(cfg, c, n):  # a write in a loop over a literal table of rows is one write per row
            if la in ACCUMULATING:
                out.append((c, n, z, True, ""))
            elif la in ACCUMULATE_KW:
                acc = const_value(get_kw(c, "accumulate")) is True or (len(c.args) > 2 and const_value(c.args[2]) is True)
                out.append((c, n, z, acc, "" if acc else f"`{la}` without accumulate=True writes one of several values addressed to the same element"))
            else:
                out.append((c, n, z, False, f"`{la}` overwrites: contributions addressed to the same atom replace each other instead of adding up"))
    for n in cfg.live_nodes():
        s = n.ast
        if n.kind != "stmt" or not isinstance(s, (ast.Assign, ast.AugAssign)):
            continue
        for t in (s.targets if isinstance(s, ast.Assign) else [s.target]):
            if not isinstance(t, ast.Subscript):
                continue
            z = buffer_def(cfg, t.value, n)
            if z is None:
                continue
            rows = unrolled(cfg, s, n)
            if len(rows) > 1:
                # one write per row of the literal table the enclosing loop runs over
                for s2 in rows:
                    for t2 in (s2.targets if isinstance(s2, ast.Assign) else [s2.target]):
                        if not isinstance(t2, ast.Subscript):
                            continue
                        if _basic_index(tb, t2.slice, n):
                            out.append((s2, n, z, True, ""))
                        else:
                            out.append((s2, n, z, False, f"`{short(s2, 90)}`: an indexed assignment through a tensor-valued index does not accumulate duplicate indices"))
            elif _basic_index(tb, t.slice, n):
                out.append((s, n, z, True, ""))
            elif isinstance(s, ast.AugAssign):
                out.append((s, n, z, False,
                            f"`{short(s, 90)}`: an augmented assignment through a tensor-valued (advanced) index is `x[idx] = x[idx] {_OPS.get(type(s.op).__name__, '?')} v` "
                            "(index_put without accumulate) and does not accumulate duplicate indices: when several source atoms of a transition map to the same "
                            "support atom (terminal transitions, targets clipped to v_min / v_max, gamma**n < 1) only one of their contributions survives, "
                            "so the projection loses probability mass; index_add_ / scatter_add_ add all of them"))
            else:
                out.append((s, n, z, False, f"`{short(s, 90)}`: a plain indexed assignment overwrites what was written to the same atom before"))
    out.sort(key=lambda w: (w[1].lineno, w[1].id))
    return out


_OPS = {"Add": "+", "Sub": "-", "Mult": "*", "Div": "/"}


def run_r3b(ck: Check, repo: Repo) -> None:
    ck.rule("C18.8", "probability mass is written into the projection buffer only by accumulating writes (index_add_ / scatter_add_ / index_put_ with accumulate=True, "
                     "or a subscript `+=` over slices): a subscript `+=` / `=` through a tensor-valued index keeps ONE of several contributions addressed to the same atom, "
                     "so the projection would not have the mass of the source distribution (clause: total mass equals that of the source distribution)")
    fn = repo.fn(RB, "RainbowDQN._dqn_loss")
    cfg = CFG(fn.node)
    tb = TermBuilder(repo, fn, cfg=cfg, depth=1)
    ws = mass_writes(cfg, tb, fn)
    ck.floor("C18.8", len(ws), 2, "indexed writes into the zeros-initialised projection buffer", fn=fn)
    for c, n, z, acc, why in ws:
        ck.ob("C18.8", fn, c, acc, "the write accumulates all contributions addressed to the same atom", detail=why)
