"""C17 — advantage estimation follows its definition and respects episode boundaries."""
from __future__ import annotations

import ast
from typing import Dict, List, Optional, Set, Tuple

from ..cfg import CFG, Node
from ..core import AnalysisError, Cls, Fn, Repo, call_name, calls_in, const_value, dotted, get_kw, last_attr, short, walk_no_nested
from ..report import Check
from ..terms import Atom, Poly, TermBuilder, expand_phi, mentions, single_atom, walk_atoms

LEARNERS = [("agilerl.algorithms.ppo", "PPO.learn", 1), ("agilerl.algorithms.ippo", "IPPO._learn_individual", 0)]
LOOPS = [("agilerl.training.train_on_policy", "train_on_policy"), ("agilerl.training.train_multi_agent_on_policy", "train_multi_agent_on_policy")]


def run(ck: Check, repo: Repo) -> None:
    ck.not_decided += ["numeric agreement of advantages/returns with the definition (floating point)",
                       "that the critic's value of the final next observation is what the critic would return at run time"]
    ck.trusted += ["helper summaries: vectorize_experiences_by_agent(dim=d) stacks per-agent (T, E) tensors on axis d; "
                   "concatenate_experiences_into_batches concatenates per-agent (T, E, ...) tensors on axis 0 (agent-major); "
                   "reshape is row-major (the axis order flatten_experiences merges in is derived from its code, C17.6)"]
    ck.rule("C17.1", "GAE recursion normal form: A_t = r_t + gamma*V_next*nt - V_t + gamma*lambda*nt*A_{t+1}; V_next is V_{t+1} (critic of the final next "
                     "observation at the last step); nt = 1 - done_{t+1} (1 - next_done at the last step); returns = A + V")
    ck.rule("C17.2", "no leak across episodes: substituting done_{t+1} = 1 removes every term containing V_{t+1} or A_{t+1} from A_t")
    ck.rule("C17.3", "rollout bookkeeping: the done flag stored with step t is the one observed before step t (previous step's), and the "
                     "flag observed after the last step is handed over as next_done; fields are appended once per step in one order")
    ck.rule("C17.4", "row alignment: the six tensors indexed by one minibatch index share one flattening order of (time, agent, env)")
    ck.rule("C17.5", "one agent order and one axis convention for a shared policy's rollout: IPPO groups every experience component in self.agent_ids "
                     "order; the stacking helpers iterate the group's dictionary as given (no re-ordering); per-step components are stacked on axis 1 "
                     "(time, agent, env) and the final-step components, which have no time axis, on axis 0 (agent, env)")
    from ._c17_r3b import run_r3b
    run_r3b(ck, repo)
    _stacking(ck, repo)
    for modname, q, depth in LEARNERS:
        fn = repo.fn(modname, q)
        _gae(ck, repo, fn, depth)
        _alignment(ck, repo, fn)
    for modname, q in LOOPS:
        _rollout(ck, repo, repo.fn(modname, q))
    from ._c17_r5 import run_r5
    run_r5(ck, repo)


# ------------------------------------------------------------------------------------------------ C17.5
def _iter_kind(it: ast.AST, param: str) -> Optional[str]:
    """How an iteration visits the dictionary parameter: 'as-given', 'reordered', or None when it does not iterate it."""
    if dotted(it) == param:
        return "as-given"
    if isinstance(it, ast.Call) and isinstance(it.func, ast.Attribute) and dotted(it.func.value) == param and it.func.attr in ("keys", "items", "values"):
        return "as-given"
    if isinstance(it, ast.Call) and call_name(it) in ("sorted", "reversed", "set", "frozenset") and it.args and _iter_kind(it.args[0], param) is not None:
        return "reordered"
    if isinstance(it, ast.Call) and call_name(it) in ("list", "tuple", "iter", "enumerate") and it.args:
        return _iter_kind(it.args[0], param)
    return None


def _stacking(ck: Check, repo: Repo) -> None:
    AU = "agilerl.utils.algo_utils"
    n = 0
    for q in ("vectorize_experiences_by_agent", "concatenate_experiences_into_batches"):
        fn = repo.fn(AU, q)
        p0 = fn.named_params[0]
        for x in ast.walk(fn.node):
            its = [x.iter] if isinstance(x, ast.For) else ([g.iter for g in x.generators] if isinstance(x, (ast.ListComp, ast.DictComp, ast.GeneratorExp, ast.SetComp)) else [])
            for it in its:
                k = _iter_kind(it, p0)
                if k is None:
                    continue
                n += 1
                ck.ob("C17.5", fn, it, k == "as-given", f"{q}: the agents of the group are visited in the order of the dictionary handed in",
                      detail=f"`{short(it, 60)}` visits them in another order than the sibling helper that stacks the other components: one agent's log-probs / rewards / "
                             "values land on another agent's observations and actions (e.g. agent_10 sorts before agent_2)",
                      construct=f"{q}: agent iteration {short(it, 50)}")
    ck.floor("C17.5", n, 4, "iterations over the per-agent dictionary in the two stacking helpers")
    # the stacking axis reaches the members of Dict / Tuple components: every recursive call passes `dim` on
    vz = repo.fn(AU, "vectorize_experiences_by_agent")
    rec = [c for c in calls_in(vz.node, nested=True) if call_name(c) == "vectorize_experiences_by_agent"]
    for c in rec:
        d = get_kw(c, "dim", 1)
        ck.ob("C17.5", vz, c, d is not None and dotted(d) == "dim", "vectorize_experiences_by_agent: the recursive call for a Dict / Tuple member stacks on the caller's axis (dim=dim)",
              detail="`dim` is not passed on: the members are stacked on the default axis 1 while a plain component with dim=0 is stacked agent-first — the bootstrap values of "
                     "Tuple / Dict observations come out environment-major",
              construct=f"vectorize_experiences_by_agent: recursion {short(c, 50)}")
    ck.floor("C17.5", len(rec), 2, "recursive calls of vectorize_experiences_by_agent (Dict and Tuple members)", fn=vz)
    # the bootstrap observation is prepared exactly like the rollout observations
    lif = repo.fn("agilerl.algorithms.ippo", "IPPO._learn_individual")
    pcalls = [c for c in calls_in(lif.node, nested=True) if call_name(c) == "preprocess_observation"]
    for c in pcalls:
        ni = get_kw(c, "normalize_images", 3)
        dv = get_kw(c, "device", 2)
        ck.ob("C17.5", lif, c, ni is not None and dotted(ni) == "self.normalize_images" and dv is not None and dotted(dv) == "self.device",
              "IPPO._learn_individual: every observation batch (rollout and bootstrap) is prepared with the agent's own device and normalize_images",
              detail=f"normalize_images = {short(ni, 30) if ni is not None else 'not passed (defaults to True)'}: the critic's bootstrap value is computed on a differently scaled image than "
                     "every other value of the rollout",
              construct=f"IPPO._learn_individual: {short(c, 60)}")
    ck.floor("C17.5", len(pcalls), 2, "preprocess_observation calls in IPPO._learn_individual", fn=lif)
    asm = repo.fn("agilerl.algorithms.ippo", "IPPO.assemble_shared_inputs")
    loops = [l for l in walk_no_nested(asm.node) if isinstance(l, ast.For) and any(isinstance(a, ast.Assign) and isinstance(a.targets[0], ast.Subscript) and isinstance(a.targets[0].value, ast.Subscript)
                                                                                   for a in ast.walk(l))]
    for lp in loops or [None]:
        it = lp.iter if lp is not None else None
        ok = lp is not None and (dotted(it) == "self.agent_ids" or (isinstance(it, (ast.ListComp, ast.GeneratorExp)) and dotted(it.generators[0].iter) == "self.agent_ids"))
        ck.ob("C17.5", asm, lp if lp is not None else asm.node, ok, "IPPO.assemble_shared_inputs builds every group's dictionary in self.agent_ids order",
              detail=f"the grouping loop runs over `{short(it, 50) if it is not None else '?'}`: each component (observations, rewards, next_state, ...) keeps the key order of its own "
                     "dictionary, and components whose orders differ are stacked in different agent orders",
              construct=f"IPPO.assemble_shared_inputs: grouping loop over {short(it, 50) if it is not None else '?'}")
    li = repo.fn("agilerl.algorithms.ippo", "IPPO._learn_individual")
    # the 8 fields of the experiences tuple by position
    fields: List[str] = []
    for a in walk_no_nested(li.node):
        if isinstance(a, ast.Assign) and isinstance(a.targets[0], ast.Tuple) and len(a.targets[0].elts) == 8 and dotted(a.value) == "experiences":
            fields = [e.id for e in a.targets[0].elts if isinstance(e, ast.Name)]
    if len(fields) != 8:
        raise AnalysisError("IPPO._learn_individual: the 8-field unpack of `experiences` was not found")
    per_step, final = set(fields[2:6]), set(fields[6:8])
    seen = set()
    for c in calls_in(li.node, nested=True):
        if call_name(c) == "vectorize_experiences_by_agent" and c.args and isinstance(c.args[0], ast.Name):
            nm = c.args[0].id
            dim = get_kw(c, "dim", 1)
            d = const_value(dim) if dim is not None else 1
            if nm in final:
                seen.add(nm)
                ck.ob("C17.5", li, c, d == 0, f"IPPO._learn_individual: the final-step component (field {fields.index(nm)}) is stacked with the agent axis leading (dim=0)",
                      detail=f"dim={d}: per-agent arrays of shape (E,) become (E, A) and flatten environment-major, while every per-step column is agent-major: the last step of "
                             "agent a in environment e is bootstrapped with the flag of another (agent, environment) pair",
                      construct=f"IPPO._learn_individual: stacking axis of final-step field {fields.index(nm)}")
            elif nm in per_step:
                seen.add(nm)
                ck.ob("C17.5", li, c, d == 1, f"IPPO._learn_individual: the per-step component (field {fields.index(nm)}) is stacked on axis 1 (time, agent, env)",
                      construct=f"IPPO._learn_individual: stacking axis of per-step field {fields.index(nm)}")
    # per-step fields stacked through map(vectorize_experiences_by_agent, (...)) use the default axis
    for c in calls_in(li.node):
        if call_name(c) == "map" and len(c.args) == 2 and dotted(c.args[0]) == "vectorize_experiences_by_agent" and isinstance(c.args[1], ast.Tuple):
            for e in c.args[1].elts:
                if isinstance(e, ast.Name):
                    seen.add(e.id)
                    ck.ob("C17.5", li, c, e.id in per_step, f"IPPO._learn_individual: `map` with the default axis (1) is applied to per-step components only",
                          detail=f"field {fields.index(e.id) if e.id in fields else '?'} is stacked on the default axis 1", construct=f"IPPO._learn_individual: default-axis stacking of field {fields.index(e.id) if e.id in fields else '?'}")
    ck.ob("C17.5", li, li.node, (per_step | final) <= seen, "IPPO._learn_individual: all six per-agent components are stacked explicitly", detail=f"stacked: {sorted(fields.index(x) for x in seen if x in fields)}",
          construct="IPPO._learn_individual: components stacked")


# ------------------------------------------------------------------------------------------------ C17.1 / C17.2
def _has_role(tb: TermBuilder, a: Atom, role: str) -> bool:
    return f"role:{role}" in a.origins


def _gae(ck: Check, repo: Repo, fn: Fn, depth: int) -> None:
    from ._c17_r3b import _in, gae_model, pretty, push_idx
    M = gae_model(repo, fn, depth)
    cfg, tb, R = M.cfg, M.tb, M.R
    label = fn.qualname
    # the recursion, found by its data flow: the store into the advantages buffer inside the backward loop (X[t] = carry = expr, carry = expr; X[t] = carry,
    # X[t] += expr ...); loop-carried successors are resolved to what the previous iteration assigned (see _c17_r3b)
    rn, L, sub_t, carry = R.node, R.loop, R.target, R.carry
    it = L.ast.iter
    # any spelling of the iteration T-1, T-2, ..., 0 (reversed(range(T)), range(T - 1, -1, -1)); T = R.bound (that T is the rollout length is C17.7)
    steps = R.bound
    ck.ob("C17.1", fn, it, steps is not None, f"{label}: the recursion runs backwards over all time steps (reversed(range(T)))")
    tvar = R.tvar
    tt = R.tt
    ck.ob("C17.1", fn, sub_t, tvar is not None and tb.term(sub_t.slice, rn) == tt, f"{label}: A is written at the current time index")
    T = R.term

    def idx_is(a: Atom, off: int) -> bool:
        # atom idx(<base>)[t + off]
        if a.kind != "idx":
            return False
        want = (tt + Poly.const(off)).key()
        return a.name == want

    gam = Poly.atom("attr:self.gamma")
    lam = Poly.atom("attr:self.gae_lambda")
    alts = M.alts
    ck.floor("C17.1", len(alts), 2, f"{label}: alternatives of the recursion (last step / earlier steps)")
    n_ok = 0
    for al in alts:
        A, atoms, done_atoms, rew, vals, boot, recs, v_next = al.poly, al.atoms, al.done_atoms, al.rew, al.vals, al.boot, al.recs, al.v_next
        # ---- C17.2: done_(t+1) := 1 kills next-step terms
        A1 = A.subst({k: Poly.const(1) for k in done_atoms})
        leak = [m for m in A1.t if any(k in v_next or k in recs for k, _ in m)]
        ck.ob("C17.2", fn, rn.ast, bool(done_atoms) and not leak,
              f"{label}: with done_(t+1) = 1 the advantage at t contains neither V_(t+1) nor A_(t+1)",
              detail=(f"done atoms {[k[:50] for k in done_atoms]}; surviving next-step monomials: {[str(m)[:120] for m in leak[:2]]}"),
              construct=f"{label}: masking of alternative {n_ok + 1} [{', '.join(sorted(x[:40] for x in done_atoms))}]")
        # ---- C17.1: normal form at done := 0
        A0 = A.subst({k: Poly.const(0) for k in done_atoms})
        v_t = al.v_t
        ok_form = len(rew) == 1 and idx_is(atoms[rew[0]], 0) and len(v_t) == 1 and len(v_next) == 1
        want = None
        if ok_form:
            want = Poly.atom(rew[0]) + gam * Poly.atom(v_next[0]) - Poly.atom(v_t[0])
            if recs:
                want = want + gam * lam * Poly.atom(recs[0])
            ok_form = A0 == want
        ck.ob("C17.1", fn, rn.ast, ok_form,
              f"{label}: at done_(t+1) = 0 the recursion is r_t + gamma*V_next - V_t (+ gamma*lambda*A_(t+1))",
              detail=f"got {A0.key()[:260]}" + (f" ; expected {want.key()[:260]}" if want is not None else f" ; rewards {len(rew)}, V_t {len(v_t)}, V_next {len(v_next)}"),
              construct=f"{label}: recursion form, alternative {n_ok + 1}")
        n_ok += 1

    # ---- pairing of the two cases: the last step uses (next_done, critic(next_state)); other steps use (dones[t+1], values[t+1])
    def pairing(s: ast.AST, v: Poly, is_last: bool) -> None:
        # an element of a whole-array expression is the expression of the elements: (1 - dones)[t + 1] = 1 - dones[t + 1]
        v = push_idx(tb, v, [])
        roles = tb.roles(v)
        if "next_done" in roles or ("done" in roles and "value" not in roles):
            okb = ("next_done" in roles) == is_last
            if not is_last:
                okb = okb and any(idx_is(a, 1) for a, _, _ in walk_atoms(tb, v) if _has_role(tb, a, "done"))
            # form 1 - flag
            flags = [k for k in v.atoms() if k in tb.atoms and (_has_role(tb, tb.atoms[k], "done") or _has_role(tb, tb.atoms[k], "next_done"))]
            okb = okb and len(flags) == 1 and v == Poly.const(1) - Poly.atom(flags[0])
            ck.ob("C17.1", fn, s, okb, f"{label}: {'last step' if is_last else 'earlier steps'}: not-terminal factor is 1 - {'next_done' if is_last else 'dones[t+1]'}",
                  detail=f"{v.key()[:120]}")
        elif "value" in roles or "next_obs" in roles:
            okb = ("next_obs" in roles) == is_last
            if not is_last:
                a = single_atom(tb, v)
                okb = okb and a is not None and idx_is(a, 1) and _has_role(tb, a, "value")
            else:
                okb = okb and mentions(tb, v, lambda a: a.kind == "call" and "critic" in a.key.split("(")[0])
            ck.ob("C17.1", fn, s, okb, f"{label}: {'last step bootstraps from critic(next_state)' if is_last else 'earlier steps use values[t+1]'}",
                  detail=f"{v.key()[:120]}")

    # the case split is made in ONE way: an if-test on the time index, loop-carried successors (initialised with the last step's values before the loop and
    # re-assigned at the end of every iteration), or shifted successor arrays cat([X[1:], Y])
    def comparison(e: ast.AST, at: Node, d: int = 0) -> Optional[Tuple[ast.Compare, Node]]:
        """the (in)equality a test stands for, looked up through single-definition temporaries (`last = t == T - 1; if last: ...`), with the node its
        operands are evaluated at"""
        if isinstance(e, ast.Compare) and len(e.ops) == 1 and isinstance(e.ops[0], (ast.Eq, ast.NotEq)):
            return e, at
        if isinstance(e, ast.Name) and d < 4:
            defs = cfg.defs_reaching(at, e.id)
            v = cfg.value_of_def(defs[0], e.id) if len(defs) == 1 else None
            if v is not None and _in(L, defs[0]):
                return comparison(v, defs[0], d + 1)
        return None

    cmp_of: Dict[int, Tuple[ast.Compare, Node]] = {}
    tests = []
    for n in cfg.live_nodes():
        if n.kind == "test" and isinstance(n.stmt, ast.If) and any(x is n.stmt for x in ast.walk(L.ast)):
            cn = comparison(n.ast, n)
            if cn is not None:
                cmp_of[n.id] = cn
                tests.append(n)
    # several if-statements on the same comparison (one per conditional assignment) are one case split
    # ... and so is a conditional expression on it (`x = a if t == T - 1 else b`, when the front end has not already loaded it as a statement)
    ifexps = []
    for n in cfg.live_nodes():
        if n.kind == "stmt" and isinstance(n.ast, ast.Assign) and any(x is n.ast for x in ast.walk(L.ast)) and isinstance(n.ast.value, ast.IfExp):
            cn = comparison(n.ast.value.test, n)
            if cn is not None:
                cmp_of[n.id] = cn
                ifexps.append(n)
    conds = {frozenset((tb.term(c.left, at).key(), tb.term(c.comparators[0], at).key())) for c, at in [cmp_of[n.id] for n in tests + ifexps]}
    carried = [R.carried[k] for k in sorted(R.carried)]
    mechanisms = len(conds) + (1 if carried else 0) + (1 if R.shifts else 0)
    ck.ob("C17.1", fn, cmp_of[tests[0].id][0] if tests else L.ast, mechanisms == 1, f"{label}: one case split between the last step and the others",
          detail=f"if-tests on the time index: {len(tests)}; loop-carried successors: {[c.name for c in carried]}; shifted successor arrays: {len(R.shifts)}", construct=f"{label}: last-step test")
    for t in tests if mechanisms == 1 else []:
        c, at = cmp_of[t.id]
        l, r = tb.term(c.left, at), tb.term(c.comparators[0], at)
        ck.ob("C17.1", fn, c, steps is not None and ((l == tt and r == steps - Poly.const(1)) or (r == tt and l == steps - Poly.const(1))),
              f"{label}: the special case is exactly t == T - 1", detail=f"{l.key()[:60]} == {r.key()[:60]}")
        eq = isinstance(c.ops[0], ast.Eq)
        for branch, is_last in ((t.stmt.body, eq), (t.stmt.orelse, not eq)):
            for s in branch:
                if not isinstance(s, ast.Assign):
                    continue
                n = cfg.node_of(s)
                pairing(s, tb.term(s.value, n), is_last)
    for n in ifexps if mechanisms == 1 else []:
        c, at = cmp_of[n.id]
        l, r = tb.term(c.left, at), tb.term(c.comparators[0], at)
        ck.ob("C17.1", fn, c, steps is not None and ((l == tt and r == steps - Poly.const(1)) or (r == tt and l == steps - Poly.const(1))),
              f"{label}: the special case is exactly t == T - 1", detail=f"{l.key()[:60]} == {r.key()[:60]}")
        eq = isinstance(c.ops[0], ast.Eq)
        pairing(n.ast.value.body, tb.term(n.ast.value.body, n), eq)
        pairing(n.ast.value.orelse, tb.term(n.ast.value.orelse, n), not eq)
    if carried and mechanisms == 1:
        # the values defined before the loop serve the first iteration (t = T - 1: the loop runs backwards from T - 1, checked above); the in-loop
        # re-assignment serves the next iteration, i.e. step t reads what step t+1 left: its value with t -> t+1
        for c in carried:
            ck.ob("C17.1", fn, c.inloop[0].ast, c.every_iteration and c.shifted is not None and len(c.inits) >= 1,
                  f"{label}: the loop-carried successor is set before the loop (last step) and re-assigned in every iteration (earlier steps read what step t+1 left)",
                  detail=f"definitions before the loop: {[d.lineno for d in c.inits]}; in the loop: {[d.lineno for d in c.inloop]}; on every path to the next iteration: {c.every_iteration}",
                  construct=f"{label}: loop-carried successor defined at {short(c.inloop[0].ast, 60)}")
            for d in c.inits:
                v = cfg.value_of_def(d, c.name)
                if v is not None:
                    pairing(d.ast, tb.term(v, d), True)
            if c.shifted is not None:
                for sh in expand_phi(tb, c.shifted, limit=8):
                    pairing(c.inloop[0].ast, sh, False)
    if R.shifts and mechanisms == 1:
        # shifted successor arrays: cat([X[1:], Y])[k] is X[k+1] for the earlier steps and Y for the last one; it must be read at the current step
        seen = set()
        for sh in R.shifts:
            key = (sh.x.key, sh.a, sh.y.key(), sh.k.key())
            if key in seen:
                continue
            seen.add(key)
            xr = {o[5:] for o in sh.x.origins if o.startswith("role:")}
            yr = tb.roles(sh.y)
            is_flag = "done" in xr and "value" not in xr
            okb = sh.a == 1 and sh.k == tt and (("next_done" in yr) if is_flag else ("value" in xr and "next_obs" in yr and mentions(tb, sh.y, lambda a: a.kind == "call" and "critic" in a.key.split("(")[0])))
            ck.ob("C17.1", fn, sh.node if sh.node is not None else rn.ast, okb,
                  f"{label}: the shifted successor array is (X[1:] followed by the final {'flag next_done' if is_flag else 'bootstrap value critic(next_state)'}) and is read at the current step t: "
                  f"{'1 - dones[t+1]' if is_flag else 'values[t+1]'} for earlier steps, the final one for the last step",
                  detail=f"X[{sh.a}:] of roles {sorted(xr)}, final element of roles {sorted(yr)}, read at index {pretty(tb, R, sh.k - tt + Poly.atom('t'))}"
                         + ("" if sh.k == tt else ": the element read there is the flag / value of step " + pretty(tb, R, sh.k - tt + Poly.atom('t') + Poly.const(sh.a)) + ", not of step t+1"),
                  construct=f"{label}: shifted successor array of {'/'.join(sorted(xr)) or '?'} read at {'t' if sh.k == tt else ('t+1' if sh.k == tt + Poly.const(1) else 'another index')}")
    if carry is not None:
        # carry starts at zero
        inits = [d for d in cfg.defs_reaching(L, carry) if not any(x is d.stmt for x in ast.walk(L.ast))]
        ck.ob("C17.1", fn, inits[0].ast if inits else L.ast, len(inits) == 1 and const_value(cfg.value_of_def(inits[0], carry)) == 0,
              f"{label}: the recursion starts with A_T = 0")
    elif R.aug is None:
        # the buffer itself carries A_(t+1) and every step is stored by the loop: the first iteration reads the element behind the last step, which must
        # still hold its initial 0
        from ._c17_r3b import elem
        behind = elem(tb, R.init_term, R.bound, []) if R.init_term is not None and R.bound is not None else None
        ck.ob("C17.1", fn, rn.ast, behind is not None and behind.const_value() == 0, f"{label}: the recursion starts with A_T = 0",
              detail=f"element T of the advantages buffer before the loop: {behind.key()[:120] if behind is not None else '?'}", construct=f"{label}: advantage behind the last step")
    else:
        # the store accumulates onto what the buffer held before the loop (the TD errors) and the loop stops one step short: the last step keeps its initial
        # content, which must be its TD error bootstrapped from critic(next_state) under 1 - next_done (A_T = 0)
        from ._c17_r3b import elem
        last = None
        if R.init_term is not None and R.bound is not None:
            last = [x for x in expand_phi(tb, elem(tb, R.init_term, R.bound, []), limit=16, rounds=6)]
        good = []
        for x in last or []:
            at = {k: tb.atoms[k] for k in x.atoms() if k in tb.atoms}
            rw = [k for k, a in at.items() if _has_role(tb, a, "reward") and not _has_role(tb, a, "done") and a.kind == "idx" and a.name == R.bound.key()]
            vt = [k for k, a in at.items() if _has_role(tb, a, "value") and a.kind == "idx" and a.name == R.bound.key()]
            bt = [k for k, a in at.items() if a.kind == "call" and _has_role(tb, a, "next_obs")]
            nd = [k for k, a in at.items() if _has_role(tb, a, "next_done")]
            if len(rw) == 1 and len(vt) == 1 and len(bt) == 1 and len(nd) == 1 and x == Poly.atom(rw[0]) + gam * Poly.atom(bt[0]) * (Poly.const(1) - Poly.atom(nd[0])) - Poly.atom(vt[0]):
                good.append(x)
        ck.ob("C17.1", fn, rn.ast, bool(good), f"{label}: the recursion starts with A_T = 0: the last step keeps r + gamma*critic(next_state)*(1 - next_done) - V",
              detail=f"content of the buffer at the last step: {[pretty(tb, R, x) for x in (last or [])[:2]]}", construct=f"{label}: advantage of the last step")
    # returns = advantages + values
    # roles instead of spellings: the minibatch tensors are sampled from a 6-field tuple (states, actions, log-probs, advantages, returns,
    # values); "returns" is the local handed over as field 4, "values" the one handed over as field 5 (and it carries the value role)
    adv = dotted(sub_t.value)
    fields = M.fields
    ret_var, val_var = (fields[4], fields[5]) if fields is not None else (None, None)
    rets = [n for n in cfg.live_nodes() if ret_var is not None and n.kind == "stmt" and isinstance(n.ast, ast.Assign) and dotted(n.ast.targets[0]) == ret_var]
    ok = len(rets) == 1 and isinstance(rets[0].ast.value, ast.BinOp) and isinstance(rets[0].ast.value.op, ast.Add) \
        and {dotted(rets[0].ast.value.left), dotted(rets[0].ast.value.right)} == {adv, val_var} and adv != val_var and fields[3] == adv \
        and "value" in tb.roles(tb.term(ast.Name(id=val_var, ctx=ast.Load()), rets[0])) \
        and rets[0].id in cfg.reachable_from(L) and not any(x is rets[0].stmt for x in ast.walk(L.ast))
    ck.ob("C17.1", fn, rets[0].ast if rets else fn.node, ok, f"{label}: returns = advantages + values, computed after the recursion finished")
    # no gradient through the estimates
    ck.ob("C17.1", fn, rn.ast, tb.in_nograd(rn), f"{label}: advantages are computed without gradient tracking")


def _sampled_fields(cfg: CFG, fn: Fn) -> Optional[List[str]]:
    """Names of the six locals whose tuple is sampled by get_experiences_samples(idx, *<tuple>): the starred argument is followed
    back through `x = helper(*x)` re-bindings to the tuple display(s); all displays found must agree."""
    found: List[List[str]] = []

    def follow(name: str, at: Node, depth: int) -> None:
        if depth > 6:
            return
        for d in cfg.defs_reaching(at, name):
            v = cfg.value_of_def(d, name)
            if isinstance(v, ast.Tuple) and len(v.elts) == 6 and all(isinstance(e, ast.Name) for e in v.elts):
                found.append([e.id for e in v.elts])
            elif isinstance(v, ast.Call):
                for a in v.args:
                    if isinstance(a, ast.Starred) and isinstance(a.value, ast.Name):
                        follow(a.value.id, d, depth + 1)

    for c in calls_in(fn.node):
        if call_name(c).split(".")[-1] == "get_experiences_samples":
            n = cfg.node_of(c)
            for a in c.args:
                if n is not None and isinstance(a, ast.Starred) and isinstance(a.value, ast.Name):
                    follow(a.value.id, n, 0)
    if found and all(f == found[0] for f in found):
        return found[0]
    return None


# ------------------------------------------------------------------------------------------------ C17.4
AX = Tuple[str, ...]
_SCALAR: AX = ("SCALAR",)


class Layout:
    """Axis-order signature of a rollout tensor, followed through reshaping code."""

    def __init__(self, fn: Fn, cfg: CFG, multi_agent: bool, flatten_order: Optional[str] = "swap"):
        self.fn, self.cfg, self.ma = fn, cfg, multi_agent
        self.flatten_order = flatten_order
        self.local_defs = {n.name: n for n in ast.walk(fn.node) if isinstance(n, ast.FunctionDef) and n is not fn.node}

    def of(self, e: ast.AST, at: Node, env: Optional[Dict[str, Optional[AX]]] = None, depth: int = 0) -> Optional[AX]:
        env = env or {}
        if depth > 30:
            return None
        if isinstance(e, ast.Name):
            if e.id in env:
                return env[e.id]
            defs = self.cfg.defs_reaching(at, e.id)
            outs = []
            for d in defs:
                if d.kind == "entry":
                    return None
                v = self.cfg.value_of_def(d, e.id)
                if v is None:
                    if isinstance(d.ast, ast.Assign) and isinstance(d.ast.targets[0], ast.Subscript):
                        continue  # element update keeps the layout of the container
                    if isinstance(d.ast, ast.AugAssign) and isinstance(d.ast.target, ast.Subscript):
                        continue  # ... so does an accumulating element update
                    if isinstance(d.ast, ast.Assign) and len(d.ast.targets) == 2:
                        continue
                    return None
                outs.append(self.of(v, d, env, depth + 1))
            outs = [o for o in outs]
            if outs and all(o == outs[0] for o in outs):
                return outs[0]
            return None
        if isinstance(e, ast.Constant) or (isinstance(e, ast.Attribute) and dotted(e).startswith("self.")):
            return _SCALAR  # broadcast: takes the layout of the other operand
        if isinstance(e, ast.Subscript) and isinstance(e.slice, ast.Slice):
            return self.of(e.value, at, env, depth + 1)  # x[a:b] keeps the axes
        if isinstance(e, ast.Subscript):
            # element k of a tuple produced by a helper / unpack
            base = e.value
            k = const_value(e.slice)
            if isinstance(base, ast.Call) and call_name(base) == "map" and len(base.args) == 2 and isinstance(base.args[1], ast.Tuple) and isinstance(k, int):
                f = dotted(base.args[0])
                return self._helper(f, [base.args[1].elts[k]], [], at, env, depth)
            if isinstance(base, ast.Call) and call_name(base).split(".")[-1] in ("stack_experiences",) and isinstance(k, int):
                return ("T", "E")
            if isinstance(base, ast.Call) and call_name(base).split(".")[-1] == "flatten_experiences" and isinstance(k, int):
                arg = base.args[0]
                if isinstance(arg, ast.Starred):
                    inner = self._tuple_elem(arg.value, k, at, env, depth)
                else:
                    inner = self.of(base.args[k], at, env, depth + 1) if k < len(base.args) else None
                return self._swap_merge(inner)
            if isinstance(base, ast.Name) and isinstance(k, int):
                r = self._tuple_elem(base, k, at, env, depth)
                if r is not None:
                    return r
            if isinstance(base, ast.Name) and getattr(e, "_unpack_len", None) == 8 and any(d.kind == "entry" for d in self.cfg.defs_reaching(at, base.id)):
                return ("PER_AGENT",)  # per-agent dictionaries of (T, E) sequences
            return None
        if isinstance(e, ast.BinOp) and isinstance(e.op, (ast.Add, ast.Sub, ast.Mult)):
            a, b = self.of(e.left, at, env, depth + 1), self.of(e.right, at, env, depth + 1)
            if a == _SCALAR or b == _SCALAR:
                return b if a == _SCALAR else a
            return a if a == b else None
        if isinstance(e, ast.Call):
            cn = call_name(e)
            la = last_attr(e)
            if isinstance(e.func, ast.Attribute) and not cn.startswith(("torch.", "np.", "self.")):
                recv = self.of(e.func.value, at, env, depth + 1)
                if la in ("squeeze", "long", "float", "to", "cpu", "detach", "clone", "contiguous", "double", "int"):
                    return recv
                if la in ("reshape", "view"):
                    # row-major: merging / splitting adjacent axes keeps the order
                    return recv
                if la in ("transpose", "swapaxes") and len(e.args) == 2 and recv is not None:
                    i, j = const_value(e.args[0]), const_value(e.args[1])
                    if isinstance(i, int) and isinstance(j, int) and max(i, j) < len(recv):
                        l = list(recv)
                        l[i], l[j] = l[j], l[i]
                        return tuple(l)
                    return None
                if la == "permute" and recv is not None:
                    idx = [const_value(a) for a in e.args]
                    if all(isinstance(i, int) and i < len(recv) for i in idx):
                        return tuple(recv[i] for i in idx)
                    return None
                if la == "flatten":
                    return recv
                return None
            name = cn.split(".")[-1]
            if name in self.local_defs:
                f = self.local_defs[name]
                rets = [n for n in ast.walk(f) if isinstance(n, ast.Return)]
                if len(rets) == 1 and rets[0].value is not None and len(f.args.args) == len(e.args):
                    env2 = dict(env)
                    for p, a in zip(f.args.args, e.args):
                        env2[p.arg] = self.of(a, at, env, depth + 1)
                    return self.of(rets[0].value, at, env2, depth + 1)
                return None
            if cn in ("torch.zeros_like", "torch.ones_like", "torch.empty_like") and e.args:
                return self.of(e.args[0], at, env, depth + 1)
            if cn in ("torch.cat", "torch.concat", "torch.concatenate", "np.concatenate") and e.args and isinstance(e.args[0], (ast.List, ast.Tuple)) \
                    and const_value(get_kw(e, "dim", 1) or get_kw(e, "axis", 1) or ast.Constant(value=0)) == 0:
                # rows appended along the leading (time) axis of the first operand: its other axes keep their order (that the appended final-step row is
                # stacked agent-first like them is C17.5)
                return self.of(e.args[0].elts[0], at, env, depth + 1) if e.args[0].elts else None
            return self._helper(name, list(e.args), e.keywords, at, env, depth)
        return None

    def _helper(self, name: str, args, kws, at, env, depth) -> Optional[AX]:
        name = name.split(".")[-1]
        if name == "vectorize_experiences_by_agent":
            d = 1
            for k in kws:
                if k.arg == "dim":
                    d = const_value(k.value)
            if len(args) > 1:
                d = const_value(args[1])
            if not isinstance(d, int):
                return None
            base = ["T", "E"]
            base.insert(d, "A")
            return tuple(base)
        if name == "concatenate_experiences_into_batches":
            return ("A", "T", "E")
        return None

    def _swap_merge(self, inner: Optional[AX]) -> Optional[AX]:
        """what flatten_experiences does to the axis order — derived from its code (C17.6: the same for every rank), not assumed"""
        if inner is None or len(inner) < 2:
            return None
        if self.flatten_order == "id":
            return inner  # merges the two leading axes as they are
        l = list(inner)
        l[0], l[1] = l[1], l[0]
        return tuple(l)

    def _tuple_elem(self, base: ast.AST, k: int, at: Node, env, depth) -> Optional[AX]:
        if not isinstance(base, ast.Name):
            return None
        outs = []
        for d in self.cfg.defs_reaching(at, base.id):
            v = self.cfg.value_of_def(d, base.id)
            if isinstance(v, ast.Tuple) and k < len(v.elts):
                outs.append(self.of(v.elts[k], d, env, depth + 1))
            elif isinstance(v, ast.Call) and call_name(v).split(".")[-1] == "flatten_experiences" and v.args and isinstance(v.args[0], ast.Starred):
                outs.append(self._swap_merge(self._tuple_elem(v.args[0].value, k, d, env, depth + 1)))
            elif isinstance(v, ast.Call) and call_name(v) == "self.to_device" and v.args and isinstance(v.args[0], ast.Starred):
                outs.append(self._tuple_elem(v.args[0].value, k, d, env, depth + 1))
            else:
                return None
        if outs and all(o == outs[0] for o in outs):
            return outs[0]
        if outs and all(o is not None for o in outs):
            # several definitions (e.g. flattened only when vectorised): alternatives, compared path by path
            return ("ALT",) + tuple("x".join(o) for o in outs)
        return None


def _alignment(ck: Check, repo: Repo, fn: Fn) -> None:
    cfg = CFG(fn.node)
    label = fn.qualname
    samp = [c for c in calls_in(fn.node) if call_name(c).split(".")[-1] == "get_experiences_samples"]
    ck.floor("C17.4", len(samp), 1, f"{label}: minibatch sampling call", fn=fn)
    from ._c17_r3b import flatten_reference
    lay = Layout(fn, cfg, "IPPO" in label, flatten_reference(repo))
    for c in samp:
        n = cfg.node_of(c)
        star = [a for a in c.args if isinstance(a, ast.Starred)]
        if not star:
            ck.ob("C17.4", fn, c, False, f"{label}: the six tensors are sampled together", detail="unexpected call shape")
            continue
        sigs = [lay._tuple_elem(star[0].value, k, n, {}, 0) for k in range(6)]
        names = ["states", "actions", "log_probs", "advantages", "returns", "values"]
        known = all(s is not None for s in sigs)
        # per-agent dictionaries pass through the agent-major concatenation only
        ck.ob("C17.4", fn, c, known and len(set(sigs)) == 1,
              f"{label}: observations, actions, old log-probs, advantages, returns and values are flattened in the same (time, agent, env) order, "
              "so one minibatch index addresses the same step of the same agent and environment in all six",
              detail="; ".join(f"{nm}: {'x'.join(s) if s else 'unknown'}" for nm, s in zip(names, sigs)),
              construct=f"{label}: flattening signatures of the minibatch tensors")
    # one index set for all six
    for c in samp:
        ck.ob("C17.4", fn, c, isinstance(c.args[0], ast.Name), f"{label}: a single index array selects the rows of all six tensors")


# ------------------------------------------------------------------------------------------------ C17.3
def _rollout(ck: Check, repo: Repo, fn: Fn) -> None:
    cfg = CFG(fn.node)
    label = fn.qualname
    steps = [c for c in calls_in(fn.node) if call_name(c) == "env.step"]
    ck.floor("C17.3", len(steps), 1, f"{label}: env.step call", fn=fn)
    sn = cfg.node_of(steps[0])
    # the innermost loop around env.step
    loops = [l for l in cfg.live_nodes() if l.kind == "for" and any(x is steps[0] for x in ast.walk(l.ast))]
    L = loops[-1]
    body = {n.id for n in cfg.live_nodes() if n.stmt is not None and any(x is n.stmt for b in L.ast.body for x in ast.walk(b))}
    # ---- roles instead of spellings
    # the acting agent: element variable of the loop over the `pop` parameter
    agents: Set[str] = set()
    for x in ast.walk(fn.node):
        if isinstance(x, ast.For):
            if dotted(x.iter) == "pop" and isinstance(x.target, ast.Name):
                agents.add(x.target.id)
            elif isinstance(x.iter, ast.Call) and call_name(x.iter) == "enumerate" and x.iter.args and dotted(x.iter.args[0]) == "pop" \
                    and isinstance(x.target, ast.Tuple) and len(x.target.elts) == 2 and isinstance(x.target.elts[1], ast.Name):
                agents.add(x.target.elts[1].id)
    # the 8 fields handed to <agent>.learn(...), by position: 0 states, 1 actions, 2 log-probs, 3 rewards, 4 done flags, 5 values, 6 next state, 7 next_done
    learns = [c for c in calls_in(fn.node) if isinstance(c.func, ast.Attribute) and c.func.attr == "learn" and isinstance(c.func.value, ast.Name) and c.func.value.id in agents]
    tups: Dict[int, Optional[ast.Tuple]] = {}
    for c in learns:
        tup = None
        a0 = c.args[0] if c.args else None
        if isinstance(a0, ast.Name):
            for d in cfg.defs_reaching(cfg.node_of(c), a0.id):
                v = cfg.value_of_def(d, a0.id)
                if isinstance(v, ast.Tuple):
                    tup = v
        tups[id(c)] = tup
    handed = [[dotted(x) for x in t.elts] for t in tups.values() if t is not None and len(t.elts) == 8]
    field = {k: handed[0][k] for k in range(8)} if handed and all(h == handed[0] for h in handed) else {}
    # what the step of this iteration produced: (next observation, reward, termination, truncation, info) = env.step(...)
    def unpacked(call: ast.Call, n: int) -> List[Optional[str]]:
        whole = {t.id for x in ast.walk(L.ast) if isinstance(x, ast.Assign) and x.value is call for t in x.targets if isinstance(t, ast.Name)}  # result kept in a temporary first
        for x in ast.walk(L.ast):
            if isinstance(x, ast.Assign) and (x.value is call or (isinstance(x.value, ast.Name) and x.value.id in whole)) and isinstance(x.targets[0], ast.Tuple) and len(x.targets[0].elts) == n:
                return [e.id if isinstance(e, ast.Name) else None for e in x.targets[0].elts]
        return [None] * n
    s_obs, s_rew, s_term, s_trunc, _s_info = unpacked(steps[0], 5)
    # ... and what the policy produced: (action, log-prob, entropy, value) = <agent>.get_action(...)
    acts = [c for c in calls_in(L.ast) if isinstance(c.func, ast.Attribute) and c.func.attr == "get_action" and isinstance(c.func.value, ast.Name) and c.func.value.id in agents]
    _a_act, _a_lp, _a_ent, a_val = unpacked(acts[0], 4) if acts else [None] * 4

    def root_name(e: ast.AST) -> Optional[str]:
        while isinstance(e, ast.Subscript):
            e = e.value
        return e.id if isinstance(e, ast.Name) else None

    def receiver_of(var: Optional[str]) -> Set[str]:
        """The lists that receive `var` (or an element of it) by append inside the step loop."""
        return {root_name(c.func.value) for c in calls_in(L.ast) if var is not None and last_attr(c) == "append" and isinstance(c.func, ast.Attribute)
                and len(c.args) == 1 and root_name(c.args[0]) == var} - {None}

    # next_done: the local assigned (wholly or per agent) the logical_or of this step's termination and truncation
    def is_step_or(v: ast.AST) -> bool:
        for x in ast.walk(v):
            if isinstance(x, ast.Call) and last_attr(x) == "logical_or" and len(x.args) == 2:
                if s_term is None or s_trunc is None or {root_name(x.args[0]), root_name(x.args[1])} == {s_term, s_trunc}:
                    return True
        return False
    nd = [n for n in cfg.live_nodes() if n.id in body and n.kind == "stmt" and isinstance(n.ast, ast.Assign) and is_step_or(n.ast.value)]
    nd_vars = {root_name(n.ast.targets[0]) for n in nd} - {None}
    # appends of the done flag: into the list handed over as field 4
    apps = [c for c in calls_in(L.ast) if last_attr(c) == "append" and isinstance(c.func, ast.Attribute) and field and root_name(c.func.value) == field[4]]
    ck.floor("C17.3", len(apps), 1, f"{label}: append of the done flag", fn=fn)
    for c in apps:
        n = cfg.node_of(c)
        arg = c.args[0]
        root = arg
        while isinstance(root, ast.Subscript):
            root = root.value
        ok = isinstance(root, ast.Name)
        detail = ""
        if ok:
            defs = cfg.defs_reaching(n, root.id)
            in_loop = [d for d in defs if d.id in body]
            before = [d for d in defs if d.id not in body]
            # the in-loop definition must come from the value observed after env.step in the PREVIOUS iteration: it is placed after the append
            ok = len(before) >= 1 and len(in_loop) == 1 and n.id not in cfg.reachable_from(in_loop[0], avoid={L.id}) and in_loop[0].id in cfg.reachable_from(n, avoid={L.id})
            v = cfg.value_of_def(in_loop[0], root.id) if in_loop else None
            ok = ok and isinstance(v, ast.Name) and v.id in nd_vars
            detail = f"`{root.id}` defined before the loop at lines {[d.lineno for d in before]} and re-bound to `{short(v, 30)}` at line {[d.lineno for d in in_loop]} (after the append: {ok})"
        ck.ob("C17.3", fn, c, ok, f"{label}: the done flag stored with a step is the previous step's outcome (appended before it is replaced by next_done)", detail=detail)
    # next_done derives from env.step of the same iteration and combines termination and truncation
    ck.ob("C17.3", fn, nd[0].ast if nd else L.ast, bool(nd) and all(cfg.dominates(sn, n) or n.id in cfg.reachable_from(sn, avoid={L.id}) for n in nd),
          f"{label}: next_done is termination OR truncation of the step just taken")
    # what is handed to learn: position 4 = the list of stored flags, position 7 = the latest next_done
    ck.floor("C17.3", len(learns), 1, f"{label}: agent.learn call", fn=fn)
    for c in learns:
        n = cfg.node_of(c)
        tup = tups[id(c)]
        ok = tup is not None and len(tup.elts) == 8
        ck.ob("C17.3", fn, c, ok, f"{label}: learn receives the 8 rollout fields", construct=f"{label}: experiences tuple")
        if ok:
            names = [dotted(x) for x in tup.elts]
            # field 3 collects this step's reward, field 5 the policy's value estimate, field 6 is the step's next observation, field 7 the flag
            # computed from the step's termination / truncation; field 4 is the list checked above (it must collect the previous step's flag)
            ck.ob("C17.3", fn, tup, bool(apps) and names[7] in nd_vars and len(nd_vars) == 1 and s_obs is not None and names[6] == s_obs
                  and receiver_of(s_rew) == {names[3]} and receiver_of(a_val) == {names[5]} and len(set(names)) == 8,
                  f"{label}: fields are handed over in the documented order (…, rewards, dones, values, next_state, next_done)", detail=str(names))
        # learn happens after the rollout loop, not inside it
        ck.ob("C17.3", fn, c, n.id not in body and n.id in cfg.reachable_from(L), f"{label}: learning starts after the rollout chunk is complete")
    # each list is appended exactly once per step
    for pos, lst in ((0, "states"), (1, "actions"), (2, "log_probs"), (3, "rewards"), (5, "values")):
        a = [c for c in calls_in(L.ast) if last_attr(c) == "append" and isinstance(c.func, ast.Attribute) and field and root_name(c.func.value) == field[pos]]
        ck.ob("C17.3", fn, a[0] if a else L.ast, len(a) == 1, f"{label}: `{lst}` receives one entry per environment step", construct=f"{label}: append to {lst}")


_PPO = "agilerl/algorithms/ppo.py"
_IPPO = "agilerl/algorithms/ippo.py"
_TOP = "agilerl/training/train_on_policy.py"
_AU = "agilerl/utils/algo_utils.py"
_FLAT_OLD = "        shape = arr.shape\n        if len(shape) < 3:\n            shape = (*shape, 1)\n\n        arr = arr.swapaxes(0, 1).reshape(shape[0] * shape[1], *shape[2:])\n        return arr\n"
_GAE_OLD = """            advantages = torch.zeros_like(rewards).float()
            last_gae_lambda = 0
            for t in reversed(range(num_steps)):
                if t == num_steps - 1:
                    next_non_terminal = 1.0 - next_done
                    nextvalue = {nv}
                else:
                    next_non_terminal = 1.0 - dones[t + 1]
                    nextvalue = values[t + 1]

                # Calculate delta (TD error)
                delta = (
                    rewards[t] + self.gamma * nextvalue * next_non_terminal - values[t]
                )

                # Use recurrence relation to compute advantage
                advantages[t] = last_gae_lambda = (
                    delta
                    + self.gamma * self.gae_lambda * next_non_terminal * last_gae_lambda
                )
"""
# TD errors of all steps at once, the loop only accumulates ({k} = t: right; t + 1: the flag of step t+2 gates A_(t+1))
_GAE_VEC = """            next_values = torch.cat([values[1:], next_value])
            next_non_terminal = 1.0 - torch.cat([dones[1:], next_done])
            deltas = rewards + self.gamma * next_values * next_non_terminal - values
            advantages = deltas.float().clone()
            for t in reversed(range(num_steps - 1)):
                advantages[t] += (
                    self.gamma
                    * self.gae_lambda
                    * next_non_terminal[{k}]
                    * advantages[t + 1]
                )
"""
# successor value / flag carried from one iteration to the next instead of the if / else ({k} = step: right)
_GAE_CARRIED = """            advantages = torch.zeros_like(rewards).float()
            running_advantage = 0
            following_value = next_value.squeeze()
            non_terminal = 1.0 - next_done
            for step in reversed(range(num_steps)):
                td_error = (
                    rewards[step]
                    + self.gamma * following_value * non_terminal
                    - values[step]
                )
                discount = self.gamma * self.gae_lambda
                running_advantage = td_error + discount * non_terminal * running_advantage
                advantages[step] = running_advantage

                following_value = values[step]
                non_terminal = 1.0 - dones[{k}]
"""
# the not-terminal factors of all steps at once before the loop (read at {k}: t + 1 is right), the case split by a named flag and conditional expressions, the
# TD error over a temporary, the chained assignment split, the iteration spelled {rng}
_GAE_HOISTED = """            advantages = torch.zeros_like(rewards).float()
            non_terminal = 1.0 - dones
            discount = self.gamma * self.gae_lambda
            last_step = num_steps - 1
            last_gae_lambda = 0
            for t in {rng}:
                is_last = t {op} last_step
                next_non_terminal = 1.0 - next_done if is_last else non_terminal[{k}]
                nextvalue = next_value.squeeze() if is_last else values[t + 1]

                bootstrap = self.gamma * nextvalue * next_non_terminal
                delta = rewards[t] + bootstrap - values[t]

                last_gae_lambda = delta + discount * next_non_terminal * last_gae_lambda
                advantages[t] = last_gae_lambda
"""
VARIANTS = [
    ("ppo-no-mask-on-value", _PPO, "rewards[t] + self.gamma * nextvalue * next_non_terminal - values[t]", "rewards[t] + self.gamma * nextvalue - values[t]", "fire", "C17.2"),
    ("ppo-no-mask-on-carry", _PPO, "+ self.gamma * self.gae_lambda * next_non_terminal * last_gae_lambda", "+ self.gamma * self.gae_lambda * last_gae_lambda", "fire", "C17.2"),
    ("ppo-mask-current-done", _PPO, "next_non_terminal = 1.0 - dones[t + 1]", "next_non_terminal = 1.0 - dones[t]", "fire", "C17"),
    ("ppo-lambda-missing", _PPO, "+ self.gamma * self.gae_lambda * next_non_terminal * last_gae_lambda", "+ self.gamma * next_non_terminal * last_gae_lambda", "fire", "C17.1"),
    ("ppo-value-t-not-subtracted", _PPO, "rewards[t] + self.gamma * nextvalue * next_non_terminal - values[t]", "rewards[t] + self.gamma * nextvalue * next_non_terminal", "fire", "C17.1"),
    ("ppo-next-value-current", _PPO, "                    nextvalue = values[t + 1]", "                    nextvalue = values[t]", "fire", "C17.1"),
    ("ppo-last-step-uses-dones", _PPO, "next_non_terminal = 1.0 - next_done\n                    nextvalue = next_value.squeeze()", "next_non_terminal = 1.0 - dones[t]\n                    nextvalue = next_value.squeeze()", "fire", "C17.1"),
    ("ppo-forward-loop", _PPO, "for t in reversed(range(num_steps)):", "for t in range(num_steps):", "fire", "C17.1"),
    ("ppo-returns-without-values", _PPO, "            returns = advantages + values\n", "            returns = advantages\n", "fire", "C17.1"),
    ("ppo-commuted-ok", _PPO, "rewards[t] + self.gamma * nextvalue * next_non_terminal - values[t]", "next_non_terminal * nextvalue * self.gamma + rewards[t] - values[t]", "silent", None),
    ("ppo-dones-flattened-separately", _PPO, "        experiences = (states, actions, log_probs, advantages, returns, values)\n        if is_vectorized_experiences(*experiences):\n            experiences = flatten_experiences(*experiences)",
     "        experiences = (states, actions, log_probs, advantages, returns, values)\n        if is_vectorized_experiences(*experiences):\n            experiences = flatten_experiences(*experiences[:3]) + tuple(x.reshape(-1) for x in experiences[3:])", "fire", "C17.4"),
    ("ippo-final-flags-env-major", _IPPO, "        next_done = vectorize_experiences_by_agent(next_done, dim=0)\n", "        next_done = vectorize_experiences_by_agent(next_done)\n", "fire", "C17.5"),
    ("ippo-group-in-dict-order", _IPPO, "        for agent_id in self.agent_ids:\n            if agent_id not in input:\n                continue\n", "        for agent_id in input:\n", "fire", "C17.5"),
    ("stack-agents-sorted", "agilerl/utils/algo_utils.py", "            for agent_id in experiences.keys()\n        ]\n        stacked_tensor = torch.stack(tensors, dim=dim)", "            for agent_id in sorted(experiences.keys())\n        ]\n        stacked_tensor = torch.stack(tensors, dim=dim)", "fire", "C17.5"),
    ("stack-agents-plain-dict-iteration-ok", "agilerl/utils/algo_utils.py", "            for agent_id in experiences.keys()\n        ]\n        stacked_tensor = torch.stack(tensors, dim=dim)", "            for agent_id in experiences\n        ]\n        stacked_tensor = torch.stack(tensors, dim=dim)", "silent", None),
    ("stack-tuple-members-on-default-axis", "agilerl/utils/algo_utils.py", "                {agent_id: experiences[agent_id][i] for agent_id in experiences},\n                dim=dim,\n", "                {agent_id: experiences[agent_id][i] for agent_id in experiences},\n", "fire", "C17.5"),
    ("ippo-bootstrap-observation-default-normalisation", _IPPO, "            next_state = preprocess_observation(\n                next_state, obs_space, self.device, self.normalize_images\n            )", "            next_state = preprocess_observation(next_state, obs_space, self.device)", "fire", "C17.5"),
    ("ippo-time-major-logprobs", _IPPO, "        log_probs = agent_major(log_probs)\n", "        log_probs = log_probs.reshape((-1,))\n", "fire", "C17.4"),
    ("ippo-no-mask", _IPPO, "rewards[t] + self.gamma * nextvalue * next_non_terminal - values[t]", "rewards[t] + self.gamma * nextvalue - values[t]", "fire", "C17.2"),
    ("rollout-done-after-update", _TOP, "                    dones.append(done)\n                    values.append(value)\n\n                    state = next_state\n                    done = next_done\n",
     "                    values.append(value)\n\n                    state = next_state\n                    done = next_done\n                    dones.append(done)\n", "fire", "C17.3"),
    ("rollout-append-next-done", _TOP, "                    dones.append(done)\n", "                    dones.append(next_done)\n", "fire", "C17.3"),
    ("rollout-swapped-fields", _TOP, "                    dones,\n                    values,\n                    next_state,", "                    values,\n                    dones,\n                    next_state,", "fire", "C17.3"),
    # behaviour-preserving rename of a local (the rules must go by role, not by spelling)
    # ---- round 3b
    # C17.6: the flattening order must not depend on the rank (seed: 2-D arrays get an early `reshape(-1, 1)` without the axis swap)
    ("flatten-2d-step-major", _AU, _FLAT_OLD,
     "        if arr.ndim < 3:\n            # One scalar per step and environment -> column vector\n            return arr.reshape(-1, 1)\n\n        return arr.swapaxes(0, 1).reshape(-1, *arr.shape[2:])\n", "fire", "C17.6"),
    ("flatten-2d-branch-assignment-step-major", _AU, _FLAT_OLD,
     "        if arr.ndim < 3:\n            arr = arr.reshape(-1, 1)\n        else:\n            arr = arr.swapaxes(0, 1).reshape(-1, *arr.shape[2:])\n        return arr\n", "fire", "C17.6"),
    ("flatten-early-return-same-order-ok", _AU, _FLAT_OLD,
     "        if arr.ndim < 3:\n            return arr.swapaxes(0, 1).reshape(-1, 1)\n\n        return arr.swapaxes(0, 1).reshape(-1, *arr.shape[2:])\n", "silent", None),
    ("flatten-pad-trailing-axis-ok", _AU, _FLAT_OLD,
     "        if arr.ndim < 3:\n            arr = arr[..., None]\n        swapped = arr.swapaxes(0, 1)\n        return swapped.reshape(-1, *swapped.shape[2:])\n", "silent", None),
    # C17.7 / Part B: the recursion is recognised by its data flow in other statement shapes
    ("ippo-vectorised-td-mask-shifted", _IPPO, _GAE_OLD.replace("{nv}", "next_value.squeeze()"), _GAE_VEC.replace("{k}", "t + 1"), "fire", "C17.7"),
    ("ippo-vectorised-td-ok", _IPPO, _GAE_OLD.replace("{nv}", "next_value.squeeze()"), _GAE_VEC.replace("{k}", "t"), "silent", None),
    ("ppo-carried-successors-ok", _PPO, _GAE_OLD.replace("{nv}", "next_value.squeeze()"), _GAE_CARRIED.replace("{k}", "step"), "silent", None),
    ("ppo-carried-successor-flag-own-step", _PPO, _GAE_OLD.replace("{nv}", "next_value.squeeze()"), _GAE_CARRIED.replace("{k}", "step - 1"), "fire", "C17"),
    ("ppo-rollout-length-one-short", _PPO, "num_steps = rewards.size(0)\n", "num_steps = rewards.size(0) - 1\n", "fire", "C17.7"),
    ("ppo-rollout-length-from-shape-ok", _PPO, "num_steps = rewards.size(0)\n", "num_steps = rewards.shape[0]\n", "silent", None),
    ("ippo-rollout-length-by-len-ok", _IPPO, "num_steps = rewards.size(0)\n", "num_steps = len(rewards)\n", "silent", None),
    ("ppo-last-step-test-negated-ok", _PPO, """                if t == num_steps - 1:
                    next_non_terminal = 1.0 - next_done
                    nextvalue = next_value.squeeze()
                else:
                    next_non_terminal = 1.0 - dones[t + 1]
                    nextvalue = values[t + 1]
""", """                if t != num_steps - 1:
                    nextvalue = values[t + 1]
                    next_non_terminal = 1.0 - dones[t + 1]
                else:
                    nextvalue = next_value.squeeze()
                    next_non_terminal = 1.0 - next_done
""", "silent", None),
    ("ppo-last-step-by-conditional-expressions-ok", _PPO, """                if t == num_steps - 1:
                    next_non_terminal = 1.0 - next_done
                    nextvalue = next_value.squeeze()
                else:
                    next_non_terminal = 1.0 - dones[t + 1]
                    nextvalue = values[t + 1]
""", """                next_non_terminal = 1.0 - next_done if t == num_steps - 1 else 1.0 - dones[t + 1]
                nextvalue = next_value.squeeze() if t == num_steps - 1 else values[t + 1]
""", "silent", None),
    ("ppo-last-step-by-conditional-expressions-flag-own-step", _PPO, """                if t == num_steps - 1:
                    next_non_terminal = 1.0 - next_done
                    nextvalue = next_value.squeeze()
                else:
                    next_non_terminal = 1.0 - dones[t + 1]
                    nextvalue = values[t + 1]
""", """                next_non_terminal = 1.0 - next_done if t == num_steps - 1 else 1.0 - dones[t]
                nextvalue = next_value.squeeze() if t == num_steps - 1 else values[t + 1]
""", "fire", "C17.1"),
    # round 4: backward iteration in another spelling, the mask read from a whole-array expression computed before the loop, the test through a named flag
    ("ppo-descending-range-ok", _PPO, "for t in reversed(range(num_steps)):", "for t in range(num_steps - 1, -1, -1):", "silent", None),
    ("ppo-descending-range-stops-before-step-0", _PPO, "for t in reversed(range(num_steps)):", "for t in range(num_steps - 1, 0, -1):", "fire", "C17.1"),
    ("ppo-descending-range-starts-one-short", _PPO, "for t in reversed(range(num_steps)):", "for t in range(num_steps - 2, -1, -1):", "fire", "C17"),
    ("ppo-hoisted-mask-named-flag-ok", _PPO, _GAE_OLD.replace("{nv}", "next_value.squeeze()"),
     _GAE_HOISTED.replace("{rng}", "range(last_step, -1, -1)").replace("{op}", "==").replace("{k}", "t + 1"), "silent", None),
    ("ppo-hoisted-mask-own-step", _PPO, _GAE_OLD.replace("{nv}", "next_value.squeeze()"),
     _GAE_HOISTED.replace("{rng}", "range(last_step, -1, -1)").replace("{op}", "==").replace("{k}", "t"), "fire", "C17"),
    ("ppo-named-flag-inverted", _PPO, _GAE_OLD.replace("{nv}", "next_value.squeeze()"),
     _GAE_HOISTED.replace("{rng}", "reversed(range(num_steps))").replace("{op}", "!=").replace("{k}", "t + 1"), "fire", "C17.1"),
    ("ppo-carry-gated-by-current-done", _PPO, "+ self.gamma * self.gae_lambda * next_non_terminal * last_gae_lambda", "+ self.gamma * self.gae_lambda * (1.0 - dones[t]) * last_gae_lambda", "fire", "C17.7"),
    ("ppo-returns-renamed-ok", _PPO, "            returns = advantages + values\n\n        # Flatten experiences from (batch_size, num_envs, ...) to (batch_size*num_envs, ...)\n        # after checking if experiences are vectorized\n        experiences = (states, actions, log_probs, advantages, returns, values)",
     "            targets = advantages + values\n\n        experiences = (states, actions, log_probs, advantages, targets, values)", "silent", None),
]
