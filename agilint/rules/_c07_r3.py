"""C07.12 – C07.13 (helper module of c07), added after the third round of seeded changes.

* C07.12  both loaders rebuild EVERY saved network from its saved constructor description, unconditionally: the loop that constructs the modules
          and stores them on the agent runs over exactly the saved `network_names` (no filter, no alternative empty iterable, no enclosing
          condition), and stores a module on every path of its body.  Shapes that happen to fit say nothing about parameter-free architecture
          (activation functions, normalisation flags): weights loaded into the receiving agent's own networks compute another function.
* C07.13  the registry comparison `load_checkpoint` makes between the saved and the receiving agent depends only on what the algorithm class
          declares (network groups, optimizer configurations, hooks), never on the hyper-parameter search space objects: an `RLParameter`
          caches the last mutated value, so two agents built from identical configurations compare unequal as soon as one of them was mutated.
"""
from __future__ import annotations

import ast
from typing import List, Optional, Set

from ..cfg import CFG, Node
from ..core import Fn, Repo, call_name, calls_in, const_value, dotted, last_attr, short, walk_no_nested
from ..report import Check

BASE = "agilerl.algorithms.core.base"


def _sources(cfg: CFG, at: Node, e: ast.AST, depth: int = 0) -> List[ast.AST]:
    if isinstance(e, ast.IfExp):
        return _sources(cfg, at, e.body, depth + 1) + _sources(cfg, at, e.orelse, depth + 1)
    if isinstance(e, ast.BoolOp):
        return [s for v in e.values for s in _sources(cfg, at, v, depth + 1)]
    if isinstance(e, ast.Name) and depth < 4:
        out: List[ast.AST] = []
        for d in cfg.defs_reaching(at, e.id):
            v = cfg.value_of_def(d, e.id)
            if v is not None:
                out += _sources(cfg, d, v, depth + 1)
            else:
                out.append(e)
        return out or [e]
    return [e]


def _is_saved_names(e: ast.AST) -> bool:
    """<checkpoint part>["network_names"]"""
    return isinstance(e, ast.Subscript) and const_value(e.slice) == "network_names"


def _store_nodes(loop: ast.For) -> List[ast.AST]:
    """statements of the loop that keep the rebuilt module: setattr(obj, <name>, module) or <mapping>[<loop variable>] = module."""
    var = loop.target.id if isinstance(loop.target, ast.Name) else None
    out: List[ast.AST] = []
    for x in ast.walk(loop):
        if isinstance(x, ast.Call) and call_name(x) == "setattr" and len(x.args) == 3:
            out.append(x)
        elif isinstance(x, ast.Assign) and var is not None and any(isinstance(t, ast.Subscript) and isinstance(t.slice, ast.Name) and t.slice.id == var for t in x.targets):
            out.append(x)
    return out


def _builds_module(loop: ast.For) -> bool:
    """the loop body constructs objects from a splatted description (`cls(**init_dict)`) and keeps them."""
    has_ctor = any(isinstance(c, ast.Call) and any(k.arg is None for k in c.keywords) and not (isinstance(c.func, ast.Name) and c.func.id in ("dict", "OptimizerWrapper"))
                   for c in ast.walk(loop))
    return has_ctor and bool(_store_nodes(loop))


def _rebuild_unconditional(ck: Check, repo: Repo) -> None:
    ck.rule("C07.12", "both loaders rebuild every saved network from its saved constructor description: the rebuild loop runs over exactly the saved network_names, "
                      "under no condition, and stores a module on every path (weights that merely fit the receiving agent's own networks do not restore "
                      "parameter-free architecture such as a mutated activation)")
    cls = repo.cls(BASE, "EvolvableAlgorithm")
    n = 0
    for mname in ("load_checkpoint", "load"):
        fn = cls.methods[mname]
        cfg = CFG(fn.node)
        loops = [l for l in cfg.live_nodes() if l.kind == "for" and isinstance(l.ast, ast.For) and _builds_module(l.ast)
                 and not any(isinstance(o, ast.For) and o is not l.ast and any(x is l.ast for x in ast.walk(o)) and _builds_module(o) for o in ast.walk(fn.node))]
        # keep the loops over network names only (the optimizer loop also builds objects, from optimizer_names)
        net_loops = []
        for l in loops:
            srcs = _sources(cfg, l, l.ast.iter)
            if any(_is_saved_names(s) for s in srcs) or any(isinstance(x, ast.Constant) and x.value == "network_names" for s in srcs for x in ast.walk(s)):
                net_loops.append((l, srcs))
        ck.floor("C07.12", len(net_loops), 1, "loop that rebuilds the saved networks", fn=fn)
        for l, srcs in net_loops:
            n += 1
            exact = bool(srcs) and all(_is_saved_names(s) for s in srcs)
            ck.ob("C07.12", fn, l.ast.iter, exact, f"{mname}: the rebuild loop runs over exactly the saved network names",
                  detail="" if exact else f"iterable: {[short(s, 60) for s in srcs]} — a conditional, filtered or alternative iterable skips saved networks",
                  construct=f"{mname}: iterable of the rebuild loop")
            # conditions that can SKIP the loop (a validation whose other outcome only raises is not one)
            gs = []
            for g, pol, t in cfg.guards_at(l):
                other = t.false_succ if (t.true_succ is not None and l.id in cfg.reachable_from(t.true_succ, avoid={t.id}) | {t.true_succ.id}) else t.true_succ
                if other is None:
                    others = [x for x in t.succ if x is not t.true_succ and x.id not in t.exc_succ]
                    other = others[0] if others else None
                normal_exit = other is None or cfg.exit.id in (cfg.reachable_from(other, avoid={l.id}, follow_exc=False) | {other.id})
                if normal_exit:
                    gs.append((ast.unparse(g), pol))
            ck.ob("C07.12", fn, l.ast, not gs, f"{mname}: the rebuild loop is not skipped by any condition", detail=f"enclosing conditions: {gs}" if gs else "",
                  construct=f"{mname}: conditions around the rebuild loop")
            # every path through the body stores a module on the agent
            stores = [cfg.node_of(c) for c in _store_nodes(l.ast)]
            stores = [s for s in stores if s is not None]
            body_first = cfg.node_of(l.ast.body[0]) if l.ast.body else None
            ok = bool(stores) and body_first is not None and cfg.path_avoiding(body_first, {l.id}, {s.id for s in stores}) is None
            ck.ob("C07.12", fn, l.ast, ok, f"{mname}: every iteration stores the rebuilt network on the agent",
                  detail="" if ok else "a path through the loop body reaches the next iteration without keeping a rebuilt module", construct=f"{mname}: store on every path of the rebuild loop")
    ck.floor("C07.12", n, 2, "rebuild loops in the two loaders")


def _registry_equality(ck: Check, repo: Repo) -> None:
    ck.rule("C07.13", "the registry comparison made by load_checkpoint reads only what the algorithm class declares (groups, optimizers, hooks): it never compares the "
                      "hyper-parameter configuration, whose RLParameter entries cache the last mutated value and therefore differ between two agents built from "
                      "identical configurations once one of them was mutated")
    reg = repo.cls("agilerl.algorithms.core.registry", "MutationRegistry")
    eq = reg.methods.get("__eq__")
    ck.floor("C07.13", 1 if eq is not None else 0, 1, "MutationRegistry.__eq__")
    # is the comparison used by the loader at all?  (load_checkpoint: `if self.registry != checkpoint_registry` or ==)
    lc = repo.cls(BASE, "EvolvableAlgorithm").methods["load_checkpoint"]
    used = any(isinstance(x, ast.Compare) and any(isinstance(o, (ast.Eq, ast.NotEq)) for o in x.ops) and "registry" in ast.unparse(x) for x in ast.walk(lc.node))
    # RLParameter: fields that a method re-assigns after construction (and that take part in the generated / written __eq__)
    rlp = repo.cls("agilerl.algorithms.core.registry", "RLParameter")
    mutable: Set[str] = set()
    for name, m in rlp.methods.items():
        if name in ("__init__", "__post_init__"):
            continue
        for x in walk_no_nested(m.node):
            tg = x.targets if isinstance(x, ast.Assign) else ([x.target] if isinstance(x, (ast.AugAssign, ast.AnnAssign)) else [])
            for t in tg:
                if isinstance(t, ast.Attribute) and dotted(t.value) == "self":
                    mutable.add(t.attr)
    excluded: Set[str] = set()
    for s in rlp.node.body:
        if isinstance(s, ast.AnnAssign) and isinstance(s.target, ast.Name) and isinstance(s.value, ast.Call) and call_name(s.value).split(".")[-1] == "field":
            for k in s.value.keywords:
                if k.arg == "compare" and isinstance(k.value, ast.Constant) and k.value.value is False:
                    excluded.add(s.target.id)
    stateful = sorted(mutable - excluded)
    reads = sorted({x.attr for x in ast.walk(eq.node) if isinstance(x, ast.Attribute) and x.attr in ("hp_config",)}) if eq is not None else []
    ok = not (used and reads and stateful)
    ck.ob("C07.13", eq if eq is not None else lc, eq.node if eq is not None else lc.node, ok,
          "MutationRegistry.__eq__ (used by load_checkpoint) does not compare hyper-parameter objects that carry run-time state",
          detail=f"__eq__ reads {reads}; RLParameter re-assigns {stateful} after construction and compares them" if not ok else
                 f"compared attributes do not include the hyper-parameter configuration; RLParameter run-time fields: {stateful}",
          construct="MutationRegistry.__eq__: attributes compared")


def run_r3(ck: Check, repo: Repo) -> None:
    _rebuild_unconditional(ck, repo)
    _registry_equality(ck, repo)
