"""C20.11 — channel-order typestate of observations inside the training loops.

With ``swap_channels=True`` an image observation comes out of the environment channels-last (RAW) and has to reach the agent and the
buffer channels-first (SWAPPED): ``obs_channels_to_first`` (or the equivalent ``np.moveaxis(x, -1, -3)``) must be applied exactly once on
every path from ``env.reset`` / ``env.step`` to ``get_action`` / the stored transition / ``learn``.  Applying it twice is as wrong as not
applying it (the second application rotates the axes again), so this is a two-state typestate per observation variable.

The function is first specialised on ``swap_channels == True`` (``if swap_channels:`` -> its body, ``a if swap_channels else b`` -> a,
``swap_channels and c`` -> c); then a forward may-analysis runs over the statement CFG, loop-carried through ``state = next_state``.
Locals are recognised by role: sources are the results of ``<env parameter>.reset()`` / ``.step()``, sinks are argument positions of
``get_action`` / ``Transition`` / ``save_to_memory`` / ``learn`` / rollout ``append``.
"""
from __future__ import annotations

import ast
import copy
from typing import Dict, FrozenSet, List, Optional, Set, Tuple

from ..cfg import CFG, Node
from ..core import Fn, Repo, call_name, const_value, dotted, get_kw, last_attr, short
from ..report import Check

R, S = "raw", "swapped"
State = Optional[FrozenSet[str]]
SWAP_PARAM = "swap_channels"
# shape-only helpers through which the channel order is carried unchanged
CARRIERS = {"expand_dims", "squeeze", "array", "asarray", "copy", "deepcopy", "stack", "concatenate", "from_numpy", "as_tensor", "tensor"}
# methods of an observation that keep its axes
CARRIER_METHODS = {"float", "to", "copy", "clone", "astype", "cpu", "numpy", "double", "half", "contiguous"}


class _Specialise(ast.NodeTransformer):
    """The function under swap_channels == True."""

    def __init__(self) -> None:
        self.sites = 0

    @staticmethod
    def _is_flag(e: ast.AST) -> bool:
        return isinstance(e, ast.Name) and e.id == SWAP_PARAM

    def _reduce(self, test: ast.AST) -> Optional[ast.AST]:
        """test with the flag replaced by True: None = the test is true; the remaining condition otherwise."""
        if self._is_flag(test):
            return None
        if isinstance(test, ast.BoolOp) and isinstance(test.op, ast.And) and any(self._is_flag(v) for v in test.values):
            rest = [v for v in test.values if not self._is_flag(v)]
            return rest[0] if len(rest) == 1 else ast.BoolOp(op=ast.And(), values=rest)
        return test

    def visit_If(self, node: ast.If):
        self.generic_visit(node)
        red = self._reduce(node.test)
        if red is None:
            self.sites += 1
            return node.body
        if red is not node.test:
            self.sites += 1
            node.test = red
        return node

    def visit_IfExp(self, node: ast.IfExp):
        self.generic_visit(node)
        red = self._reduce(node.test)
        if red is None:
            self.sites += 1
            return node.body
        if red is not node.test:
            self.sites += 1
            node.test = red
        return node


def _is_swap(c: ast.AST) -> bool:
    if not isinstance(c, ast.Call):
        return False
    if last_attr(c) == "obs_channels_to_first" or call_name(c) == "obs_channels_to_first":
        return True
    if last_attr(c) == "moveaxis" and len(c.args) == 3:
        def ax(e):
            if isinstance(e, (ast.List, ast.Tuple)) and len(e.elts) == 1:
                e = e.elts[0]
            return const_value(e)
        return ax(c.args[1]) == -1 and ax(c.args[2]) == -3
    return False


class ChannelFlow:
    def __init__(self, fn: Fn, env_names: Set[str]):
        self.fn = fn
        node = copy.deepcopy(fn.node)
        sp = _Specialise()
        node = sp.visit(node)
        ast.fix_missing_locations(node)
        self.sites = sp.sites
        self.cfg = CFG(node)
        self.env_names = env_names
        self.problems: List[Tuple[ast.AST, str]] = []
        self.sinks = 0
        self.swaps = 0
        self.sources = 0

    # ---------------------------------------------------------------- expression evaluation
    def ev(self, e: Optional[ast.AST], env: Dict[str, FrozenSet[str]], report: bool) -> State:
        if e is None:
            return None
        if isinstance(e, ast.Name):
            return env.get(e.id)
        if isinstance(e, ast.Subscript):
            return self.ev(e.value, env, report)
        if isinstance(e, ast.IfExp):
            a, b = self.ev(e.body, env, report), self.ev(e.orelse, env, report)
            return (a or frozenset()) | (b or frozenset()) or None
        if isinstance(e, (ast.DictComp, ast.ListComp, ast.GeneratorExp)):
            inner = dict(env)
            for g in e.generators:
                it = g.iter
                if isinstance(it, ast.Call) and isinstance(it.func, ast.Attribute) and it.func.attr in ("items", "values") and not it.args:
                    st = self.ev(it.func.value, env, report)
                    tgt = g.target
                    if it.func.attr == "items" and isinstance(tgt, ast.Tuple) and len(tgt.elts) == 2:
                        tgt = tgt.elts[1]
                    if isinstance(tgt, ast.Name) and st is not None:
                        inner[tgt.id] = st
                else:
                    st = self.ev(it, env, report)
                    if isinstance(g.target, ast.Name) and st is not None:
                        inner[g.target.id] = st
            return self.ev(e.value if isinstance(e, ast.DictComp) else e.elt, inner, report)
        if isinstance(e, ast.Call):
            if _is_swap(e):
                a = self.ev(e.args[0] if e.args else None, env, report)
                if report:
                    self.swaps += 1
                    if a is not None and S in a:
                        self.problems.append((e, f"`{short(e, 70)}` is applied to an observation that is already channels-first on a path "
                                                 f"(the second application rotates the axes again)"))
                return frozenset({S}) if a is not None else None
            if self._is_source(e):
                return None  # handled at the assignment (tuple position)
            if isinstance(e.func, ast.Attribute) and e.func.attr in CARRIER_METHODS and self.ev(e.func.value, env, False) is not None:
                return self.ev(e.func.value, env, report)
            if last_attr(e) in CARRIERS or call_name(e) in CARRIERS:
                sts = [self.ev(a, env, report) for a in e.args]
                sts = [s for s in sts if s is not None]
                return frozenset().union(*sts) if sts else None
            return None
        if isinstance(e, (ast.Tuple, ast.List)):
            return None
        return None

    def _is_source(self, e: ast.AST) -> bool:
        return isinstance(e, ast.Call) and isinstance(e.func, ast.Attribute) and e.func.attr in ("reset", "step") \
            and isinstance(e.func.value, ast.Name) and e.func.value.id in self.env_names

    # ---------------------------------------------------------------- transfer
    def transfer(self, n: Node, env: Dict[str, FrozenSet[str]], report: bool) -> Dict[str, FrozenSet[str]]:
        out = dict(env)
        if report:
            self._check_sinks(n, env)
        if n.kind == "stmt" and isinstance(n.ast, ast.Assign) and len(n.ast.targets) == 1:
            t, v = n.ast.targets[0], n.ast.value
            if self._is_source(v):
                if report:
                    self.sources += 1
                first = t.elts[0] if isinstance(t, ast.Tuple) and t.elts else t
                for x in ast.walk(t):
                    if isinstance(x, ast.Name):
                        out.pop(x.id, None)
                if isinstance(first, ast.Name):
                    out[first.id] = frozenset({R})
            elif isinstance(t, ast.Name):
                st = self.ev(v, env, report)
                if st is None:
                    out.pop(t.id, None)
                else:
                    out[t.id] = st
            elif isinstance(t, ast.Tuple) and isinstance(v, ast.Tuple) and len(t.elts) == len(v.elts):
                for a, b in zip(t.elts, v.elts):
                    if isinstance(a, ast.Name):
                        st = self.ev(b, env, report)
                        if st is None:
                            out.pop(a.id, None)
                        else:
                            out[a.id] = st
            else:
                if report:
                    self.ev(v, env, report)
                for x in ast.walk(t):
                    if isinstance(x, ast.Name) and isinstance(x.ctx, ast.Store):
                        out.pop(x.id, None)
        elif n.kind == "stmt" and isinstance(n.ast, ast.AnnAssign) and isinstance(n.ast.target, ast.Name) and n.ast.value is not None:
            st = self.ev(n.ast.value, env, report)
            if st is None:
                out.pop(n.ast.target.id, None)
            else:
                out[n.ast.target.id] = st
        elif report and n.kind == "stmt" and n.ast is not None:
            for c in ast.walk(n.ast):
                if _is_swap(c):
                    self.ev(c, env, True)
        return out

    def _obs_args(self, c: ast.Call) -> List[Tuple[str, ast.AST]]:
        """(role, argument) pairs of c that receive an observation."""
        la = last_attr(c)
        out: List[Tuple[str, ast.AST]] = []
        if la == "get_action" and (c.args or get_kw(c, "obs", None) is not None):
            out.append(("the observation the agent acts on", c.args[0] if c.args else get_kw(c, "obs", None)))
        elif isinstance(c.func, ast.Attribute) and isinstance(c.func.value, ast.Name) and c.func.value.id == "self" and len(c.args) == 1 \
                and isinstance(c.args[0], ast.Name) and c.func.attr in ("actor", "policy", "network"):
            out.append(("the network input", c.args[0]))
        elif la == "Transition" or call_name(c) == "Transition":
            for k in ("obs", "next_obs"):
                a = get_kw(c, k, None)
                if a is not None:
                    out.append((f"the stored `{k}`", a))
        elif la == "save_to_memory" and len(c.args) >= 4:
            out += [("the stored observation", c.args[0]), ("the stored next observation", c.args[3])]
        elif la == "TensorDict" and c.args and isinstance(c.args[0], ast.Dict):
            for k, v in zip(c.args[0].keys, c.args[0].values):
                if const_value(k) in ("obs", "next_obs"):
                    out.append((f"the stored `{const_value(k)}`", v))
        elif la == "append" and len(c.args) == 1 and isinstance(c.args[0], ast.Name):
            out.append(("an observation collected for learn()", c.args[0]))
        return out

    def _check_sinks(self, n: Node, env: Dict[str, FrozenSet[str]]) -> None:
        if n.ast is None:
            return
        roots = n.exprs() if n.kind != "stmt" else [n.ast]
        for r in roots:
            for c in ast.walk(r):
                if not isinstance(c, ast.Call):
                    continue
                for role, a in self._obs_args(c):
                    st = self.ev(a, env, False)
                    if st is None:
                        continue
                    self.sinks += 1
                    if R in st:
                        self.problems.append((c, f"{role} (`{short(a, 40)}`) can still be channels-last here: a path from the environment "
                                                 f"reaches `{short(c, 60)}` without the swap"))
            if isinstance(r, ast.Assign) and isinstance(r.value, ast.Tuple):
                # experiences = (states, ..., next_state, next_done) handed to learn()
                for a in r.value.elts:
                    if isinstance(a, ast.Name):
                        st = env.get(a.id)
                        if st is not None:
                            self.sinks += 1
                            if R in st:
                                self.problems.append((r, f"`{a.id}` goes into the experiences tuple channels-last on a path"))

    # ---------------------------------------------------------------- fixed point
    def run(self) -> None:
        cfg = self.cfg
        nodes = cfg.live_nodes()
        ins: Dict[int, Dict[str, FrozenSet[str]]] = {n.id: {} for n in nodes}
        seen: Set[int] = set()
        work = [cfg.entry]
        by_id = {n.id: n for n in nodes}
        back: Dict[int, Dict[str, FrozenSet[str]]] = {}
        while work:
            n = work.pop()
            out = self.transfer(n, ins.get(n.id, {}), False)
            for s in n.succ:
                if s.id not in by_id:
                    continue
                if s.kind == "for" and cfg.dominates(s, n):
                    b = back.setdefault(s.id, {})
                    grown = False
                    for k, v in out.items():
                        j = b.get(k, frozenset()) | v
                        if j != b.get(k):
                            b[k] = j
                            grown = True
                    if grown and s not in work:
                        work.append(s)
                if n.kind == "for" and not self._is_body(n, s):
                    # the loop is left after at least one iteration (a body that never ran would leave the locals it defines unbound):
                    # only what the back edges carry flows to the exit
                    if n.id not in back:
                        continue
                    out_exit = self.transfer(n, back[n.id], False)
                    self._join(ins, seen, work, s, out_exit)
                    continue
                self._join(ins, seen, work, s, out)
        for n in nodes:
            self.transfer(n, ins.get(n.id, {}), True)

    @staticmethod
    def _is_body(loop: Node, s: Node) -> bool:
        body = loop.ast.body  # type: ignore[union-attr]
        return bool(body) and (s.stmt is body[0] or s.ast is body[0])

    @staticmethod
    def _join(ins, seen, work, s: Node, out) -> None:
        cur = ins[s.id]
        new = dict(cur)
        changed = s.id not in seen
        for k, v in out.items():
            j = cur.get(k, frozenset()) | v
            if j != cur.get(k):
                new[k] = j
                changed = True
        if changed:
            seen.add(s.id)
            ins[s.id] = new
            work.append(s)


def channel_typestate(ck: Check, repo: Repo, fns: List[Fn], rule: str) -> None:
    total_sinks = 0
    for fn in fns:
        if SWAP_PARAM not in fn.params:
            continue
        env_names = {p for p in fn.params if p == "env"} or {fn.params[1] if fn.params and fn.params[0] == "self" and len(fn.params) > 1 else fn.params[0]}
        cf = ChannelFlow(fn, env_names)
        cf.run()
        total_sinks += cf.sinks
        # one obligation per distinct problem site; one summary obligation when clean
        seen: Set[str] = set()
        for node, msg in cf.problems:
            key = f"{type(node).__name__}:{ast.unparse(node)[:80]}"
            if key in seen:
                continue
            seen.add(key)
            ck.ob(rule, fn, node, False, f"{fn.qualname}: with swap_channels every observation is converted to channels-first exactly once between the "
                                          f"environment and the agent / buffer", detail=msg,
                  construct=f"{fn.qualname}: channel order at `{short(node, 50)}`")
        if not cf.problems and cf.sources > 0:
            ck.ob(rule, fn, fn.node, cf.sinks > 0 and cf.swaps > 0,
                  f"{fn.qualname}: with swap_channels every observation is converted to channels-first exactly once between the environment and "
                  f"the agent / buffer", detail=f"{cf.sources} environment reads, {cf.swaps} conversions, {cf.sinks} consumer arguments tracked, "
                                                f"{cf.sites} branches on the flag specialised",
                  construct=f"{fn.qualname}: channel-order typestate")
    ck.floor(rule, total_sinks, 10, "observation consumers (get_action / stored transition / learn inputs) reached by a tracked observation")
