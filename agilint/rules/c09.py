"""C09 — replay buffers hold exactly the most recent transitions, each one intact."""
from __future__ import annotations

import ast
from typing import Dict, List, Optional, Set, Tuple

from ..cfg import CFG, Node
from ..core import AnalysisError, Cls, Fn, Repo, call_name, calls_in, const_value, dotted, get_kw, last_attr, short, walk_no_nested
from ..domains import FRESH, OwnEval
from ..report import Check
from ..terms import Poly, TermBuilder, mentions, single_atom
from ..util import inplace_mutations, self_attr_stores, stores_to

RB = "agilerl.components.replay_buffer"
MA = "agilerl.components.multi_agent_replay_buffer"


def run(ck: Check, repo: Repo) -> None:
    ck.not_decided += ["content equality with 'the last min(N,k) transitions' as data (runtime values)",
                       "uniformity of sampling"]
    ck.trusted += ["tensor/TensorDict advanced indexing with an index tensor returns a copy; slicing returns a view",
                   "collections.deque(maxlen=N).append drops the oldest element when full",
                   "random.sample draws without replacement"]
    ck.rule("C09.1", "ReplayBuffer.add: on each branch destination and source slices have equal length, the source pieces tile "
                     "[0, n) in order, the first destination piece starts at the cursor and the wrap branch is taken iff cursor + n > capacity")
    ck.rule("C09.2", "cursor <- (cursor + n) mod capacity ; size <- min(size + n, capacity)")
    ck.rule("C09.3", "the uniform sample domain is the fill level (not the capacity) and is a permutation prefix (no duplicates); "
                     "__len__/size report the fill level")
    ck.rule("C09.4", "batches handed out are copies (index-by-tensor or clone), never views of the storage")
    ck.rule("C09.5", "multi-agent buffer: bounded deque, one append per environment index built from index i of every field, "
                     "sampling without replacement, fields and agents read from the same experience tuple")
    ck.rule("C09.6", "clear() re-initialises every field that add() (of the class or a subclass) advances")
    rb = repo.cls(RB, "ReplayBuffer")
    add = rb.methods["add"]
    _write_arith(ck, repo, rb, add)
    _sample(ck, repo, rb)
    _multi_agent(ck, repo)
    _reset(ck, repo)
    from ._c09_r5 import run_r5
    run_r5(ck, repo)


# ------------------------------------------------------------------------------------------------
def _slice_bounds(tb: TermBuilder, n: Node, sub: ast.Subscript, length: Poly) -> Optional[Tuple[Poly, Poly]]:
    sl = sub.slice
    if isinstance(sl, ast.Slice):
        if sl.step is not None:
            return None
        lo = tb.term(sl.lower, n) if sl.lower is not None else Poly.const(0)
        hi = tb.term(sl.upper, n) if sl.upper is not None else length
        return lo, hi
    return None


def _write_arith(ck: Check, repo: Repo, rb: Cls, add: Fn) -> None:
    cfg = CFG(add.node)
    tb = TermBuilder(repo, add, cfg=cfg, depth=0)
    init = rb.methods["__init__"]
    # roles: capacity = ctor param stored; cursor/size = attrs initialised to 0 and updated in add
    stores = [n for n in cfg.live_nodes() if n.kind == "stmt" and isinstance(n.ast, ast.Assign)
              and isinstance(n.ast.targets[0], ast.Subscript) and dotted(n.ast.targets[0].value).startswith("self.")
              and isinstance(n.ast.targets[0].slice, ast.Slice)]
    ck.floor("C09.1", len(stores), 3, "slice stores into the storage in ReplayBuffer.add", fn=add)
    storage_attr = dotted(stores[0].ast.targets[0].value)
    # capacity: leading dimension of the storage as created by _init
    _init = rb.methods.get("_init")
    cap_ok = _init is not None and "self.max_size" in ast.unparse(_init.node) and any(
        isinstance(c, ast.Call) and last_attr(c) == "expand" and "self.max_size" in ast.unparse(c) for c in calls_in(_init.node))
    ck.ob("C09.1", _init or add, (_init or add).node, cap_ok, "the storage is allocated with leading dimension self.max_size",
          construct="storage allocation in _init")
    CAP = tb.term(ast.parse("self.max_size", mode="eval").body, cfg.entry)
    # n: the batch width: data.shape[0]
    by_branch: Dict[Tuple, List[Node]] = {}
    for s in stores:
        g = tuple((ast.unparse(t), pol) for t, pol, _ in cfg.guards_at(s) if "_storage is None" not in ast.unparse(t))
        by_branch.setdefault(g, []).append(s)
    ck.ob("C09.1", add, add.node, len(by_branch) == 2, "the write has a wrap-around branch and a contiguous branch",
          construct=f"branches: {[list(k) for k in by_branch]}")
    cursor_attr = None
    for g, ss in by_branch.items():
        pieces = []
        for s in sorted(ss, key=lambda x: x.lineno):
            tgt = s.ast.targets[0]
            src = s.ast.value
            N = _batch_width(tb, s)
            d = _slice_bounds(tb, s, tgt, CAP)
            if isinstance(src, ast.Subscript):
                sb = _slice_bounds(tb, s, src, N)
            else:
                sb = (Poly.const(0), N)
            if d is None or sb is None:
                ck.ob("C09.1", add, s.ast, False, "store uses plain slices", detail="unsupported index form")
                continue
            dl, sl_ = d[1] - d[0], sb[1] - sb[0]
            ck.ob("C09.1", add, s.ast, dl == sl_, "destination slice and source slice have the same length",
                  detail=f"len(dest) = {dl.key()} ; len(src) = {sl_.key()}")
            pieces.append((d, sb, s, N))
        if not pieces:
            continue
        N = pieces[0][3]
        # source pieces tile [0, n)
        ok = pieces[0][1][0] == Poly.const(0) and pieces[-1][1][1] == N and all(
            pieces[i][1][1] == pieces[i + 1][1][0] for i in range(len(pieces) - 1))
        ck.ob("C09.1", add, pieces[0][2].ast, ok, "the source pieces cover the batch [0, n) contiguously and in order",
              detail="; ".join(f"[{p[1][0].key()}:{p[1][1].key()}]" for p in pieces), construct=f"source tiling on branch {list(g)}")
        # first dest piece starts at the cursor
        lo = pieces[0][0][0]
        a = single_atom(tb, lo)
        ok = a is not None and a.kind == "attr"
        if ok:
            cursor_attr = a.name
        ck.ob("C09.1", add, pieces[0][2].ast, ok, "the first destination piece starts at the write cursor",
              detail=f"starts at {lo.key()}", construct=f"first destination start on branch {list(g)}")
        if len(pieces) == 2:
            ok = pieces[0][0][1] == CAP and pieces[1][0][0] == Poly.const(0)
            ck.ob("C09.1", add, pieces[1][2].ast, ok, "wrap-around: first piece runs to the end of the storage, second starts at 0",
                  detail=f"dest1 = [{pieces[0][0][0].key()}:{pieces[0][0][1].key()}], dest2 = [{pieces[1][0][0].key()}:{pieces[1][0][1].key()}]")
    # branch condition: each test that decides between the two branches must send the wrap-around stores to the outcome that means
    # cursor + n > capacity and the contiguous stores to the other outcome (which outcome is the `if` and which the `else` / the code after an
    # early return, and whether the test is written as `<`, `<=` or negated, does not matter: over the integers every outcome is `D > 0`)
    wrap = [s for g, ss in by_branch.items() if len(ss) == 2 for s in ss]
    plain = [s for s in stores if s not in wrap]
    tests = [n for n in cfg.live_nodes() if n.kind == "test" and any(n.id == t.id for s in stores for _, _, t in cfg.guards_at(s))
             and "_storage is None" not in ast.unparse(n.ast)]
    for t in tests:
        c = t.ast
        ok = False
        detail = ast.unparse(c)
        if cursor_attr:
            N = _batch_width(tb, t)
            cur = Poly.atom(f"attr:{cursor_attr}")
            taken = [_outcome_at(cfg, tb, s, t) for s in wrap]
            other = [_outcome_at(cfg, tb, s, t) for s in plain]
            ok = bool(wrap) and bool(plain) and all(d is not None and d == (cur + N - CAP) for d in taken) \
                and all(d is not None and d == (CAP - cur - N + Poly.const(1)) for d in other)
            detail = " ; ".join(f"{what} when {d.key() + ' > 0' if d is not None else '(not decided by this test)'}"
                                for what, d in (("wrap-around", (taken + [None])[0]), ("contiguous write", (other + [None])[0])))
        ck.ob("C09.1", add, c, ok, "the wrap-around branch is taken iff cursor + n > capacity", detail=detail)
    # ---- C09.2
    size_attr = None
    for n in cfg.live_nodes():
        if n.kind == "stmt" and isinstance(n.ast, ast.Assign) and isinstance(n.ast.targets[0], ast.Attribute) and dotted(n.ast.targets[0]).startswith("self."):
            attr = dotted(n.ast.targets[0])
            v = n.ast.value
            N = _batch_width(tb, n)
            if cursor_attr and attr == cursor_attr:
                t = tb.term(v, n)
                a = single_atom(tb, t)
                ok = a is not None and a.kind == "binop" and a.name == "Mod" and a.sub[0] == (Poly.atom(f"attr:{cursor_attr}") + N) and a.sub[1] == CAP
                ck.ob("C09.2", add, n.ast, ok, "the cursor advances by the batch width modulo the capacity", detail=t.key()[:160])
            elif isinstance(v, ast.Call) and call_name(v) == "min" and len(v.args) == 2:
                size_attr = attr
                args = [tb.term(x, n) for x in v.args]
                SZ = Poly.atom(f"attr:{attr}")
                ok = (args[0] == SZ + N and args[1] == CAP) or (args[1] == SZ + N and args[0] == CAP)
                ck.ob("C09.2", add, n.ast, ok, "the fill level grows by the batch width and saturates at the capacity",
                      detail=" , ".join(a.key() for a in args))
    ck.ob("C09.2", add, add.node, cursor_attr is not None and size_attr is not None, "cursor and fill-level updates are present",
          construct=f"cursor={cursor_attr} size={size_attr}")
    ck.note("buffer_roles", {"storage": storage_attr, "cursor": cursor_attr, "size": size_attr})
    # data moved to the buffer's device / reshaped per key only (fields stay together): every store writes whole `data`
    for s in stores:
        v = s.ast.value
        base = v.value if isinstance(v, ast.Subscript) else v
        ck.ob("C09.1", add, s.ast, isinstance(base, ast.Name) and base.id == "data",
              "all fields of a transition are written by one TensorDict store (fields cannot drift apart)")


def _batch_width(tb: TermBuilder, n: Node) -> Poly:
    return tb.term(ast.parse("data.shape[0]", mode="eval").body, n)


def _outcome_at(cfg: CFG, tb: TermBuilder, s: Node, t: Node) -> Optional[Poly]:
    """The integer term D such that s is executed only after test t came out as `D > 0` (None: t does not decide s, or t is not a single
    order comparison).  `l < r` is r - l > 0, `l <= r` is r - l + 1 > 0, and the other outcome of `D > 0` is 1 - D > 0."""
    for c, pol, tn in cfg.guards_at(s):
        if tn.id != t.id:
            continue
        if not (isinstance(c, ast.Compare) and len(c.ops) == 1):
            return None
        l, r = tb.term(c.left, t), tb.term(c.comparators[0], t)
        op = c.ops[0]
        if isinstance(op, ast.Lt):
            d = r - l
        elif isinstance(op, ast.LtE):
            d = r - l + Poly.const(1)
        elif isinstance(op, ast.Gt):
            d = l - r
        elif isinstance(op, ast.GtE):
            d = l - r + Poly.const(1)
        else:
            return None
        return d if pol else Poly.const(1) - d
    return None


# ------------------------------------------------------------------------------------------------
def _sample(ck: Check, repo: Repo, rb: Cls) -> None:
    sample = rb.methods["sample"]
    cfg = CFG(sample.node)
    tb = TermBuilder(repo, sample, cfg=cfg, depth=0)
    perms = [c for c in calls_in(sample.node) if call_name(c) in ("torch.randperm", "np.random.permutation")]
    ck.floor("C09.3", len(perms), 1, "permutation draw in ReplayBuffer.sample", fn=sample)
    for c in perms:
        n = cfg.node_of(c)
        t = tb.term(c.args[0], n)
        a = single_atom(tb, t)
        ok = a is not None and a.kind == "attr" and a.name == "self._size"
        ck.ob("C09.3", sample, c, ok, "indices are a random permutation of range(fill level)", detail=f"domain = {t.key()}")
        # prefix of the permutation
        par = [x for x in walk_no_nested(sample.node) if isinstance(x, ast.Subscript) and x.value is c]
        ok = bool(par) and isinstance(par[0].slice, ast.Slice) and par[0].slice.lower is None and par[0].slice.step is None \
            and dotted(par[0].slice.upper) == "batch_size"
        ck.ob("C09.3", sample, par[0] if par else c, ok, "the batch is the first batch_size entries of the permutation (no duplicates)")
    # every definition of the index array that reaches the storage read is such a prefix (no second source that may repeat an index)
    reads = [x for x in walk_no_nested(sample.node) if isinstance(x, ast.Subscript) and isinstance(x.ctx, ast.Load) and dotted(x.value) == "self._storage" and isinstance(x.slice, ast.Name)]
    for r in reads:
        rn = cfg.node_of(r)
        vals = [cfg.value_of_def(d, r.slice.id) for d in cfg.defs_reaching(rn, r.slice.id)] if rn is not None else []
        okv = bool(vals) and all(isinstance(v, ast.Subscript) and any(v.value is c for c in perms) for v in vals)
        bad = [short(v, 60) for v in vals if not (isinstance(v, ast.Subscript) and any(v.value is c for c in perms))]
        ck.ob("C09.3", sample, r, okv, "every index array used to read the storage is a permutation prefix (distinct indices)",
              detail=f"other index sources reach the read: {bad} — a batch may contain the same stored transition twice", construct="ReplayBuffer.sample: index sources of the storage read")
    ln = rb.methods.get("__len__")
    ok = ln is not None and any(isinstance(x, ast.Return) and dotted(x.value) == "self._size" for x in walk_no_nested(ln.node))
    ck.ob("C09.3", ln or sample, (ln or sample).node, ok, "__len__ reports the fill level", construct="__len__ -> self._size")
    # ---- C09.4 copies
    sites = [(rb.methods["sample"], "ReplayBuffer.sample"),
             (repo.fn(RB, "MultiStepReplayBuffer.sample_from_indices"), "MultiStepReplayBuffer.sample_from_indices"),
             (repo.fn(RB, "PrioritizedReplayBuffer.sample"), "PrioritizedReplayBuffer.sample")]
    for fn, label in sites:
        fcfg = CFG(fn.node)
        rets = [n for n in fcfg.live_nodes() if n.kind == "stmt" and isinstance(n.ast, ast.Return) and n.ast.value is not None]
        for r in rets:
            ok, why = _is_copy(fn, fcfg, r.ast.value, r)
            ck.ob("C09.4", fn, r.ast, ok, f"{label} returns a copy of the stored transitions", detail=why)


def _is_copy(fn: Fn, cfg: CFG, e: ast.AST, at: Node, depth: int = 0) -> Tuple[bool, str]:
    if depth > 6:
        return False, "too deep"
    if isinstance(e, ast.Call) and isinstance(e.func, ast.Attribute) and e.func.attr == "clone":
        return True, ".clone()"
    if isinstance(e, ast.Subscript):
        base = dotted(e.value)
        if base in ("self._storage", "self.storage"):
            idx = e.slice
            if isinstance(idx, ast.Name):
                defs = cfg.defs_reaching(at, idx.id)
                kinds = []
                for d in defs:
                    if d.kind == "entry":
                        ann = next((a.annotation for a in fn.node.args.args if a.arg == idx.id), None)
                        kinds.append(ann is not None and "Tensor" in ast.unparse(ann))
                    else:
                        v = cfg.value_of_def(d, idx.id)
                        kinds.append(v is not None and _is_tensor_expr(fn, cfg, v, d))
                if kinds and all(kinds):
                    return True, f"indexed by the tensor `{idx.id}` (advanced indexing copies)"
                return False, f"index `{idx.id}` is not known to be a tensor: slicing/int indexing returns a view of the storage"
            return False, f"index {short(idx, 40)} may produce a view"
    if isinstance(e, ast.Name):
        defs = [d for d in cfg.defs_reaching(at, e.id)]
        strong = [d for d in defs if cfg.value_of_def(d, e.id) is not None]
        if not strong:
            return False, f"`{e.id}` has no plain definition"
        res = [_is_copy(fn, cfg, cfg.value_of_def(d, e.id), d, depth + 1) for d in strong]
        return all(r[0] for r in res), "; ".join(r[1] for r in res)
    return False, f"{short(e, 60)} is not a recognised copy"


def _is_tensor_expr(fn: Fn, cfg: CFG, v: ast.AST, at: Node, depth: int = 0) -> bool:
    if depth > 5:
        return False
    if isinstance(v, ast.Call):
        cn = call_name(v)
        if cn.startswith("torch."):
            return True
        if cn.startswith("self._sample"):
            return True  # returns the torch.zeros(...) index tensor (checked in C11)
    if isinstance(v, ast.Subscript):
        return _is_tensor_expr(fn, cfg, v.value, at, depth + 1)
    if isinstance(v, ast.Name):
        defs = cfg.defs_reaching(at, v.id)
        vals = [cfg.value_of_def(d, v.id) for d in defs]
        return bool(vals) and all(x is not None and _is_tensor_expr(fn, cfg, x, d, depth + 1) for x, d in zip(vals, defs))
    return False


# ------------------------------------------------------------------------------------------------
def _multi_agent(ck: Check, repo: Repo) -> None:
    cls = repo.cls(MA, "MultiAgentReplayBuffer")
    init = cls.methods["__init__"]
    st = self_attr_stores(init)
    mem = [a for a, vals in st.items() if any(isinstance(v, ast.Call) and call_name(v).split(".")[-1] == "deque" for v in vals)]
    ck.floor("C09.5", len(mem), 1, "deque attribute of MultiAgentReplayBuffer")
    memattr = mem[0]
    dq = [v for v in st[memattr] if isinstance(v, ast.Call)][0]
    ml = get_kw(dq, "maxlen", 1)
    ck.ob("C09.5", init, dq, isinstance(ml, ast.Name) and ml.id == "memory_size", "the memory is a deque bounded by memory_size")
    # who mutates the memory: only .append in _add
    muts = []
    for m in cls.methods.values():
        for node, attr, how in inplace_mutations(m.node, "self"):
            if attr == memattr:
                muts.append((m, node, how))
        for node, d in stores_to(m.node, "self"):
            if f"self.{memattr}" in d and m.name != "__init__":
                muts.append((m, node, d))
    ok = bool(muts) and all(m.name == "_add" and how == ".append()" for m, _, how in muts)
    ck.ob("C09.5", cls.methods["_add"], cls.methods["_add"].node, ok,
          "the only mutation of the memory is an append (right end) in _add",
          detail="; ".join(f"{m.qualname}:{getattr(n, 'lineno', 0)} {how}" for m, n, how in muts), construct="mutations of self.memory")
    addf = cls.methods["_add"]
    ok = any(isinstance(c.args[0] if c.args else None, ast.Starred) and call_name(c) == "self.experience" for c in calls_in(addf.node))
    ck.ob("C09.5", addf, addf.node, ok, "_add packs all fields of one transition into one tuple (*args, in order)", construct="self.experience(*args)")
    ln = cls.methods["__len__"]
    ck.ob("C09.5", ln, ln.node, any(isinstance(x, ast.Return) and ast.unparse(x.value) == f"len(self.{memattr})" for x in walk_no_nested(ln.node)),
          "__len__ is the number of stored transitions", construct="__len__")
    # sample without replacement
    smp = cls.methods["sample"]
    calls = [c for c in calls_in(smp.node) if call_name(c).startswith("random.") or call_name(c).startswith("np.random.")]
    ck.floor("C09.5", len(calls), 1, "random draw in MultiAgentReplayBuffer.sample", fn=smp)
    for c in calls:
        ok = call_name(c) == "random.sample" and dotted(c.args[0]) == f"self.{memattr}" and dotted(get_kw(c, "k", 1)) == "batch_size"
        ck.ob("C09.5", smp, c, ok, "sampling draws batch_size distinct stored transitions (random.sample over the memory)")
    # _reorganize_dicts
    ro = cls.methods["_reorganize_dicts"]
    rcfg = CFG(ro.node)
    fors = [n for n in walk_no_nested(ro.node) if isinstance(n, ast.For)]
    outer = [f for f in fors if isinstance(f.iter, ast.Call) and call_name(f.iter) == "range"]
    ck.floor("C09.5", len(outer), 1, "per-environment loop in _reorganize_dicts", fn=ro)
    ivar = outer[0].target.id if isinstance(outer[0].target, ast.Name) else None
    fields = ro.node.args.vararg.arg if ro.node.args.vararg is not None else "args"  # role: the fields are the function's *arguments
    # the loop over the fields, nested in the loop over the environments: it binds the field, and either the field's position j or, walking
    # other lists in step with the fields (zip), those lists' elements at the field's position
    inner = [(f, it) for f in ast.walk(outer[0]) if isinstance(f, ast.For) and f is not outer[0] for it in [_field_iteration(f, fields)] if it is not None]
    ok = bool(inner)
    why = f"no loop over `{fields}` (enumerate / zip) inside the loop over the environments"
    if ok:
        floop, (argvar, jvar, paired) = inner[0]
        short_ = [lst for lst in paired.values() if not _one_per_field(ro, rcfg, floop, lst, fields)]
        ok = not short_
        why = f"`{short_[0]}` is walked in step with `{fields}` but is not known to have one element per field: zip stops at the shorter one" if short_ else ""
    ck.ob("C09.5", ro, inner[0][0] if inner else ro.node, ok, "every field (arg) is visited for every environment index", detail=why)
    if ok:
        floop = inner[0][0]
        # the code that builds one field's per-environment value: the loop body, and the methods of the class it hands the environment
        # index to (with the name the index has there)
        code = _element_code(cls, floop, ivar)
        idx_i = [x for root, iv in code if iv is not None for x in ast.walk(root) if isinstance(x, ast.Subscript) and isinstance(x.ctx, ast.Load)
                 and isinstance(x.slice, ast.Name) and x.slice.id == iv]
        ck.ob("C09.5", ro, floop, len(idx_i) >= 3 and not any(isinstance(x.slice, ast.Constant) for root, _ in code for x in ast.walk(root) if isinstance(x, ast.Subscript)),
              "values of every field are taken at the same environment index i", detail=f"{len(idx_i)} reads at [{ivar}]")
        apps = [c for c in calls_in(floop) if last_attr(c) == "append"]
        resvar = _returned_name(ro)  # role: the list of per-field lists is the variable the function returns (as a tuple)
        recv = apps[0].func.value if len(apps) == 1 else None
        # the receiver is the returned list's element at the field's position: results[j], or the element zip pairs with the field
        ok2 = resvar is not None and (
            (isinstance(recv, ast.Subscript) and dotted(recv.value) == resvar and isinstance(recv.slice, ast.Name) and jvar is not None and recv.slice.id == jvar)
            or (isinstance(recv, ast.Name) and paired.get(recv.id) == resvar))
        ck.ob("C09.5", ro, apps[0] if apps else floop, ok2, "the per-environment dict of field j is appended to results[j]")
        # iterations over some mapping's items() (loops and comprehensions alike); those not nested in another one (their mapping is not
        # bound by another one) enumerate the keys of the dict that is built
        items = [(x.iter, x.target) for x in ast.walk(floop) if isinstance(x, (ast.For, ast.comprehension)) and isinstance(x.iter, ast.Call)
                 and last_attr(x.iter) == "items" and isinstance(x.iter.func, ast.Attribute)]
        bound = {y.id for _, t in items for y in ast.walk(t) if isinstance(y, ast.Name)}
        top = [it for it, _ in items if not (isinstance(it.func.value, ast.Name) and it.func.value.id in bound)]
        top.sort(key=lambda c: (c.lineno, c.col_offset))
        ck.ob("C09.5", ro, top[0] if top else floop, bool(top) and all(dotted(it.func.value) == argvar for it in top),
              "agents (keys) are read from the field being reorganised")
    # the number of environment entries must be read from an array leaf, after the same dict / tuple dispatch the element code uses
    rng = outer[0].iter.args[0] if outer and outer[0].iter.args else None
    okn = False
    whyn = "range bound not found"
    if isinstance(rng, ast.Name):
        dn = [d for d in rcfg.defs_reaching(rcfg.node_of(outer[0].iter) or rcfg.entry, rng.id)]
        vals = [rcfg.value_of_def(d, rng.id) for d in dn]
        lens = [v for v in vals if isinstance(v, ast.Call) and call_name(v) == "len" and v.args]
        if lens and len(lens) == len(vals):
            okn = True
            for v, d in zip(lens, dn):
                a = v.args[0]
                if isinstance(a, ast.Name):
                    adefs = rcfg.defs_reaching(d, a.id)
                    # the builtin type names as identifiers (not as part of some local's spelling)
                    seen = {y.id for x in adefs for g, pol, _ in rcfg.guards_at(x) for y in ast.walk(g) if isinstance(y, ast.Name)}
                    seen |= {y.id for x in adefs if x.ast is not None for y in ast.walk(x.ast) if isinstance(y, ast.Name)}
                    if not ("dict" in seen and "tuple" in seen and len(adefs) >= 2):
                        okn = False
                        whyn = f"`{a.id}` is measured without narrowing dict / tuple observations to an array leaf"
                else:
                    okn = False
                    whyn = (f"`{short(v, 70)}` measures the first agent's value of the first field directly: for Dict observations that is the number of keys, "
                            "for Tuple observations the number of members, not the number of environments, so too few (or too many) transitions are stored")
    ck.ob("C09.5", ro, rng if rng is not None else ro.node, okn,
          "the number of per-environment transitions is the length of an array leaf (dict / tuple observations are narrowed first, like the element code does)",
          detail=whyn, construct="_reorganize_dicts: number of environment entries")
    # sampled rows are combined by a dtype-promoting constructor over ALL rows (mixed int / float rewards keep their values)
    stf = cls.methods.get("stack_transitions")
    if stf is None:
        raise AnalysisError("MultiAgentReplayBuffer.stack_transitions not found")
    combiners = [c for c in calls_in(stf.node, nested=True) if call_name(c) in ("np.array", "np.stack", "np.concatenate", "np.asarray", "numpy.array")
                 and c.args and isinstance(c.args[0], (ast.ListComp, ast.Name, ast.List))]
    prealloc = [c for c in calls_in(stf.node, nested=True) if call_name(c) in ("np.empty", "np.zeros", "np.ones", "np.full", "np.empty_like", "np.zeros_like")
                and (get_kw(c, "dtype") is not None and any(isinstance(x, ast.Attribute) and x.attr == "dtype" for x in ast.walk(get_kw(c, "dtype"))) or call_name(c).endswith("_like"))]
    ck.ob("C09.5", stf, prealloc[0] if prealloc else stf.node, len(combiners) >= 3 and not prealloc,
          "MultiAgentReplayBuffer.stack_transitions combines the sampled rows with np.array / np.stack over all rows (a common dtype is chosen for the whole batch)",
          detail=(f"`{short(prealloc[0], 70)}` allocates the batch with the dtype of one row and fills it row by row: when the first sampled reward is an int, float rewards of the "
                  "other rows are truncated (0.75 -> 0)") if prealloc else f"{len(combiners)} combining calls found (dict, tuple and plain fields expected)",
          construct="stack_transitions: how rows are combined")
    sv = cls.methods["save_to_memory_vect_envs"]
    zips = [n for n in walk_no_nested(sv.node) if isinstance(n, ast.For) and isinstance(n.iter, ast.Call) and call_name(n.iter) == "zip"]
    ok = bool(zips) and any(call_name(c) == "self._add" and c.args and isinstance(c.args[0], ast.Starred) and dotted(c.args[0].value) == dotted(zips[0].target)
                            for c in calls_in(zips[0]))
    ck.ob("C09.5", sv, zips[0] if zips else sv.node, ok, "one _add per environment index with that index's slice of every field (zip(*args))")
    # _process_transition reads field f of agent a and stores to [f][a]
    pt = cls.methods["_process_transition"]
    reads = [c for c in calls_in(pt.node) if call_name(c) == "getattr" and len(c.args) == 2]
    trvar = _returned_name(pt)  # role: the nested {field: {agent: value}} dict is the variable the function returns
    stores = [n for n in ast.walk(pt.node) if isinstance(n, ast.Assign) and isinstance(n.targets[0], ast.Subscript)
              and isinstance(n.targets[0].value, ast.Subscript) and trvar is not None and dotted(n.targets[0].value.value) == trvar]
    ck.floor("C09.5", len(reads), 1, "field read in _process_transition", fn=pt)
    for c in reads:
        par = [x for x in ast.walk(pt.node) if isinstance(x, ast.Subscript) and x.value is c]
        fvar = dotted(c.args[1])
        avar = dotted(par[0].slice) if par else ""
        ok = bool(stores) and all(dotted(s.targets[0].value.slice) == fvar and dotted(s.targets[0].slice) == avar for s in stores)
        ck.ob("C09.5", pt, c, ok, "a sampled value read as (field, agent) is stored under the same (field, agent)",
              detail=f"read [{fvar}][{avar}]")


def _field_iteration(f: ast.For, fields: str) -> Optional[Tuple[str, Optional[str], Dict[str, str]]]:
    """`f` iterates over all of the sequence `fields`, one element per iteration: (name bound to the field, name bound to the field's position or
    None, {name bound to the element at the field's position of another list: that list}).  enumerate(fields) binds the position,
    zip(.., fields, ..) binds the other lists' elements at the same position (provided they are long enough: see _one_per_field)."""
    it, tg = f.iter, f.target
    if not (isinstance(it, ast.Call) and not it.keywords and isinstance(tg, ast.Tuple) and all(isinstance(e, ast.Name) for e in tg.elts)):
        return None
    if call_name(it) == "enumerate" and len(it.args) == 1 and dotted(it.args[0]) == fields and len(tg.elts) == 2:
        return tg.elts[1].id, tg.elts[0].id, {}
    if call_name(it) == "zip" and len(it.args) == len(tg.elts) and all(isinstance(a, ast.Name) for a in it.args):
        pos = [k for k, a in enumerate(it.args) if a.id == fields]
        if len(pos) == 1:
            return tg.elts[pos[0]].id, None, {e.id: a.id for k, (e, a) in enumerate(zip(tg.elts, it.args)) if k != pos[0]}
    return None


def _one_per_field(fn: Fn, cfg: CFG, at: ast.For, lst: str, fields: str) -> bool:
    """Every definition of the local `lst` that reaches the loop `at` is a list with exactly one element per field (a comprehension with a single,
    unfiltered generator over the fields or over range(len(fields))), and the list itself is not changed afterwards (no method call on it, no
    store into / deletion of its elements)."""
    n = cfg.node_of(at.iter)
    if n is None:
        return False
    defs = cfg.defs_reaching(n, lst)
    if not defs:
        return False
    for d in defs:
        v = cfg.value_of_def(d, lst)
        if not (isinstance(v, ast.ListComp) and len(v.generators) == 1 and not v.generators[0].ifs and not v.generators[0].is_async):
            return False
        g = v.generators[0].iter
        over_len = isinstance(g, ast.Call) and call_name(g) == "range" and len(g.args) == 1 and not g.keywords and isinstance(g.args[0], ast.Call) \
            and call_name(g.args[0]) == "len" and len(g.args[0].args) == 1 and dotted(g.args[0].args[0]) == fields
        if not (dotted(g) == fields or over_len):
            return False
    for x in walk_no_nested(fn.node):
        if isinstance(x, ast.Call) and isinstance(x.func, ast.Attribute) and dotted(x.func.value) == lst:
            return False
        if isinstance(x, ast.Subscript) and isinstance(x.ctx, (ast.Store, ast.Del)) and dotted(x.value) == lst:
            return False
        if isinstance(x, ast.AugAssign) and dotted(x.target) == lst:
            return False
    return True


def _element_code(cls: Cls, loop: ast.For, ivar: Optional[str]) -> List[Tuple[ast.AST, Optional[str]]]:
    """The loop and the methods of the class called from it (self.m(..), once each), each with the name the loop's environment index has there:
    the parameter the index is passed for, when it is passed as such and the parameter is never re-bound (else None)."""
    out: List[Tuple[ast.AST, Optional[str]]] = [(loop, ivar)]
    seen: Set[str] = set()
    for c in calls_in(loop):
        d = call_name(c)
        if not (d.startswith("self.") and d.count(".") == 1 and d[5:] in cls.methods) or d in seen:
            continue
        seen.add(d)
        callee = cls.methods[d[5:]].node
        a = callee.args
        params = [p.arg for p in a.posonlyargs + a.args]
        if not any(dotted(x) == "staticmethod" for x in callee.decorator_list):
            params = params[1:]
        names = {params[k] for k, x in enumerate(c.args) if isinstance(x, ast.Name) and x.id == ivar and k < len(params)}
        names |= {k.arg for k in c.keywords if k.arg is not None and isinstance(k.value, ast.Name) and k.value.id == ivar
                  and k.arg in params + [p.arg for p in a.kwonlyargs]}
        rebound = {y.id for y in ast.walk(callee) if isinstance(y, ast.Name) and isinstance(y.ctx, (ast.Store, ast.Del))}
        rebound |= {p.arg for f in ast.walk(callee) if isinstance(f, (ast.FunctionDef, ast.AsyncFunctionDef, ast.Lambda)) and f is not callee
                    for p in f.args.posonlyargs + f.args.args + f.args.kwonlyargs}
        iv = names.pop() if ivar is not None and len(names) == 1 and not (names & rebound) else None
        out.append((callee, iv))
    return out


def _returned_name(fn: Fn) -> Optional[str]:
    """The one local the function returns, directly or wrapped in a single-argument call such as tuple(x)
    (None when the returns do not agree on one name)."""
    names: Set[str] = set()
    for x in walk_no_nested(fn.node):
        if isinstance(x, ast.Return) and x.value is not None:
            v = x.value
            if isinstance(v, ast.Call) and len(v.args) == 1 and not v.keywords and isinstance(v.func, ast.Name):
                v = v.args[0]
            if not isinstance(v, ast.Name):
                return None
            names.add(v.id)
    return names.pop() if len(names) == 1 else None


# ------------------------------------------------------------------------------------------------
def _advanced_fields(repo: Repo, cls: Cls, fn: Fn, depth: int = 2) -> Dict[str, str]:
    """self fields written / mutated in place by fn and its self.* callees."""
    out: Dict[str, str] = {}
    for n in walk_no_nested(fn.node):
        targets = []
        if isinstance(n, ast.Assign):
            targets = n.targets
        elif isinstance(n, ast.AugAssign):
            targets = [n.target]
        for t in targets:
            base = t
            how = "assigned"
            while isinstance(base, ast.Subscript):
                base = base.value
                how = "element written"
            d = dotted(base)
            if d.startswith("self.") and d.count(".") == 1:
                out[d[5:]] = f"{how} in {fn.qualname}"
    for node, attr, how in inplace_mutations(fn.node, "self"):
        out[attr] = f"{how} in {fn.qualname}"
    if depth > 0:
        for c in calls_in(fn.node):
            d = call_name(c)
            if d.startswith("self.") and d.count(".") == 1:
                callee = repo.find_method(cls, d[5:])
                if callee is not None and callee is not fn:
                    for k, v in _advanced_fields(repo, cls, callee, depth - 1).items():
                        out.setdefault(k, v)
    return out


def _whole_resets(repo: Repo, cls: Cls, fn: Fn, depth: int = 1) -> Dict[str, str]:
    """self fields that fn re-initialises as a whole on every path: `self.f = <value>` or `self.f.clear()` as a top-level statement of the function
    body (not inside a loop or branch — a loop bounded by the fill level runs zero times once the fill level has been reset), also through self.* callees."""
    out: Dict[str, str] = {}
    for st in fn.node.body:
        if isinstance(st, ast.Assign):
            for t in st.targets:
                for tt in (t.elts if isinstance(t, ast.Tuple) else [t]):
                    d = dotted(tt)
                    if d.startswith("self.") and d.count(".") == 1:
                        out[d[5:]] = f"assigned in {fn.qualname}"
        elif isinstance(st, ast.AnnAssign) and st.value is not None:
            d = dotted(st.target)
            if d.startswith("self.") and d.count(".") == 1:
                out[d[5:]] = f"assigned in {fn.qualname}"
        elif isinstance(st, ast.Expr) and isinstance(st.value, ast.Call):
            c = st.value
            d = call_name(c)
            if last_attr(c) == "clear" and dotted(c.func.value).startswith("self.") and dotted(c.func.value).count(".") == 1:
                out[dotted(c.func.value)[5:]] = f"cleared in {fn.qualname}"
            elif depth > 0 and d.startswith("self.") and d.count(".") == 1:
                callee = repo.find_method(cls, d[5:])
                if callee is not None and callee is not fn:
                    for k, v in _whole_resets(repo, cls, callee, depth - 1).items():
                        out.setdefault(k, v)
    return out


def _reset(ck: Check, repo: Repo) -> None:
    names = ["ReplayBuffer", "MultiStepReplayBuffer", "PrioritizedReplayBuffer"]
    n_ob = 0
    for name in names:
        cls = repo.cls(RB, name)
        clear = repo.find_method(cls, "clear")
        if clear is None:
            raise AnalysisError(f"{name}: no clear()")
        advanced: Dict[str, str] = {}
        for c in repo.mro(cls):
            a = c.methods.get("add")
            if a is not None:
                for k, v in _advanced_fields(repo, cls, a).items():
                    advanced.setdefault(k, v)
        reset: Dict[str, str] = {}
        for c in repo.mro(cls):
            cl = c.methods.get("clear")
            if cl is None:
                continue
            for k, v in _whole_resets(repo, cls, cl).items():
                reset.setdefault(k, v)
            calls_super = any(isinstance(x.func, ast.Attribute) and x.func.attr == "clear" and isinstance(x.func.value, ast.Call)
                              and call_name(x.func.value) == "super" for x in calls_in(cl.node))
            if not calls_super:
                break
        EXEMPT = {"counter": "running total of transitions ever added (bookkeeping, not buffer content)",
                  "done_key": "name of the done field discovered from the data, not content"}
        for f, how in sorted(advanced.items()):
            if f in EXEMPT:
                continue
            n_ob += 1
            ck.ob("C09.6", clear, clear.node, f in reset,
                  f"{name}: field `{f}` advanced by add() is re-initialised by {clear.qualname}()",
                  detail=f"`{f}` is {how}; {clear.qualname} resets only {sorted(reset)} — after clear() the stale `{f}` "
                         "no longer matches the (empty) storage",
                  construct=f"{name}.clear resets {f}")
    ck.floor("C09.6", n_ob, 8, "advanced fields over the three single-agent buffers")


_RBF = "agilerl/components/replay_buffer.py"
_MAF = "agilerl/components/multi_agent_replay_buffer.py"
VARIANTS = [
    ("ma-batch-typed-after-first-row", _MAF, "            ts = np.array(ts)\n            if ts.ndim == 1:", "            first = np.asarray(ts[0])\n            batch = np.empty((len(ts), *first.shape), dtype=first.dtype)\n            for i, item in enumerate(ts):\n                batch[i] = item\n            ts = batch\n            if ts.ndim == 1:", "fire", "C09.5"),
    ("sample-small-batches-with-replacement", _RBF, "        indices = torch.randperm(self.size)[:batch_size]\n        samples: TensorDict = self._storage[indices]", "        if batch_size * 8 <= self.size:\n            indices = torch.randint(self.size, (batch_size,))\n        else:\n            indices = torch.randperm(self.size)[:batch_size]\n        samples: TensorDict = self._storage[indices]", "fire", "C09.3"),
    ("per-clear-resets-leaves-in-a-size-bounded-loop", _RBF, "        self.sum_tree = SumSegmentTree(self.sum_tree.capacity)\n        self.min_tree = MinSegmentTree(self.min_tree.capacity)\n", "        for idx in range(len(self)):\n            self.sum_tree[idx] = 0.0\n            self.min_tree[idx] = float(\"inf\")\n", "fire", "C09.6"),
    ("wrap-off-by-one", _RBF, "self._storage[: _n_transitions - n] = data[n:]", "self._storage[: _n_transitions - n + 1] = data[n:]", "fire", "C09.1"),
    ("wrap-src-gap", _RBF, "self._storage[: _n_transitions - n] = data[n:]", "self._storage[: _n_transitions - n - 1] = data[n + 1 :]", "fire", "C09.1"),
    ("wrap-cond-ge", _RBF, "        if end > self.max_size:", "        if end > self.max_size + 1:", "fire", "C09.1"),
    ("cursor-no-mod", _RBF, "self._cursor = end % self.max_size", "self._cursor = end", "fire", "C09.2"),
    ("size-unbounded", _RBF, "self._size = min(self._size + _n_transitions, self.max_size)", "self._size = self._size + _n_transitions", "fire", "C09.2"),
    ("size-plus-one", _RBF, "self._size = min(self._size + _n_transitions, self.max_size)", "self._size = min(self._size + 1, self.max_size)", "fire", "C09.2"),
    ("sample-capacity", _RBF, "indices = torch.randperm(self.size)[:batch_size]", "indices = torch.randperm(self.max_size)[:batch_size]", "fire", "C09.3"),
    ("sample-with-replacement", _RBF, "indices = torch.randperm(self.size)[:batch_size]", "indices = torch.randint(0, self.size, (batch_size,))", "fire", "C09.3"),
    ("sample-view", _RBF, "        samples: TensorDict = self._storage[indices]\n\n        if return_idx:", "        samples: TensorDict = self._storage[:batch_size]\n\n        if return_idx:", "fire", "C09.4"),
    ("per-sample-no-clone-ok", _RBF, "        samples = samples.clone()\n", "", "silent", None),
    ("temp-names-ok", _RBF, "        start = self._cursor\n        end = self._cursor + _n_transitions\n", "        start = self._cursor\n        width = _n_transitions\n        end = start + width\n", "silent", None),
    ("ma-count-container", _MAF, "        num_entries = len(first)\n", "        num_entries = len(next(iter(args[0].values())))\n", "fire", "C09.5"),
    ("ma-count-no-tuple", _MAF, "        elif isinstance(first, tuple):\n            first = first[0]\n        num_entries", "        num_entries", "fire", "C09.5"),
    ("ma-count-renamed-ok", _MAF, "        num_entries = len(first)\n        for i in range(num_entries):", "        n_envs = len(first)\n        for i in range(n_envs):", "silent", None),
    ("ma-choices", _MAF, "experiences = random.sample(self.memory, k=batch_size)", "experiences = random.choices(self.memory, k=batch_size)", "fire", "C09.5"),
    ("ma-unbounded", _MAF, "self.memory: Deque = deque(maxlen=memory_size)", "self.memory: Deque = deque()", "fire", "C09.5"),
    ("ma-appendleft", _MAF, "        self.memory.append(e)", "        self.memory.appendleft(e)", "fire", "C09.5"),
    ("ma-index-zero", _MAF, "new_dict[key] = maybe_to_array(value[i])", "new_dict[key] = maybe_to_array(value[0])", "fire", "C09.5"),
    ("ma-wrong-results-slot", _MAF, "results[j].append(new_dict)", "results[0].append(new_dict)", "fire", "C09.5"),
    ("clear-forgets-ptr", _RBF, "        self.tree_ptr = 0\n        self.sum_tree = SumSegmentTree(self.sum_tree.capacity)", "        self.sum_tree = SumSegmentTree(self.sum_tree.capacity)", "fire", "C09.6"),
    ("clear-forgets-window", _RBF, "        super().clear()\n        self.n_step_buffer.clear()\n", "        super().clear()\n", "fire", "C09.6"),
    ("clear-forgets-cursor", _RBF, "        self._size = 0\n        self._cursor = 0\n", "        self._size = 0\n", "fire", "C09.6"),
]
VARIANTS += [
    # the dict that is filled is recognised as the one the function returns, not by its name
    ("ma-transition-stored-swapped", _MAF, "transition[field][agent_id] = ts", "transition[agent_id][field] = ts", "fire", "C09.5"),
]

_WRITE_OLD = ("        if end > self.max_size:\n            n = self.max_size - start\n            self._storage[start:] = data[:n]\n"
              "            self._storage[: _n_transitions - n] = data[n:]\n        else:\n            self._storage[start:end] = data\n")


def _write_swapped(test: str) -> str:
    """the write block with the contiguous case first, under `test`"""
    return (f"        if {test}:\n            self._storage[start:end] = data\n        else:\n            n = self.max_size - start\n"
            "            self._storage[start:] = data[:n]\n            self._storage[: _n_transitions - n] = data[n:]\n")


_ADD_TAIL = ("\n        # Update cursor and size\n        self._cursor = end % self.max_size\n"
             "        self._size = min(self._size + _n_transitions, self.max_size)\n        self.counter += _n_transitions\n")


def _write_helper(test: str, helper: str) -> str:
    """the write block extracted into a private method `helper` that returns early for the contiguous case, under `test` (the method's name
    is spelled only inside VARIANTS: a name that occurs in a rule is an anchor and is never inlined by the front end)"""
    return (f"        end = self.{helper}(data, _n_transitions)\n" + _ADD_TAIL +
            f"\n    def {helper}(self, data: TensorDict, n_transitions: int) -> int:\n        start = self._cursor\n        end = start + n_transitions\n"
            f"        if {test}:\n            self._storage[start:end] = data\n            return end\n\n"
            "        head = self.max_size - start\n        self._storage[start:] = data[:head]\n"
            "        self._storage[: end - self.max_size] = data[head:]\n        return end\n")


_WRITE_BLOCK = "        start = self._cursor\n        end = self._cursor + _n_transitions\n" + _WRITE_OLD + _ADD_TAIL
VARIANTS += [
    # the test that separates the two branches is judged by the outcome each store sits under, not by its spelling
    ("wrap-contiguous-case-first-ok", _RBF, _WRITE_OLD, _write_swapped("end <= self.max_size"), "silent", None),
    ("wrap-contiguous-case-first-negated-ok", _RBF, _WRITE_OLD, _write_swapped("not end > self.max_size"), "silent", None),
    ("wrap-cond-difference-ok", _RBF, "        if end > self.max_size:", "        if end - self.max_size >= 1:", "silent", None),
    ("wrap-helper-early-return-ok", _RBF, _WRITE_BLOCK, _write_helper("end <= self.max_size", "_write"), "silent", None),
    ("wrap-contiguous-case-first-off-by-one", _RBF, _WRITE_OLD, _write_swapped("end <= self.max_size + 1"), "fire", "C09.1"),
    ("wrap-contiguous-case-first-bodies-not-swapped", _RBF, "        if end > self.max_size:", "        if end <= self.max_size:", "fire", "C09.1"),
    ("wrap-helper-early-return-off-by-one", _RBF, _WRITE_BLOCK, _write_helper("end < self.max_size - 1", "_write"), "fire", "C09.1"),
    ("wrap-contiguous-write-unguarded", _RBF, "        else:\n            self._storage[start:end] = data\n", "        self._storage[start:end] = data\n", "fire", "C09.1"),
]

_MA_COUNT = ("        # Number of environments: measure an array leaf, not the dict/tuple container\n        first = next(iter(args[0].values()))\n"
             "        if isinstance(first, dict):\n            first = next(iter(first.values()))\n        elif isinstance(first, tuple):\n"
             "            first = first[0]\n        num_entries = len(first)\n")
_MA_REORG_OLD = ("        def maybe_to_array(value):\n            return np.array(value) if not isinstance(value, np.ndarray) else value\n\n"
                 "        results = [[] for _ in range(len(args))]\n" + _MA_COUNT +
                 "        for i in range(num_entries):\n            for j, arg in enumerate(args):\n                new_dict = {}\n"
                 "                for key, value in arg.items():\n                    if isinstance(value, dict):\n"
                 "                        new_dict[key] = {\n                            k: maybe_to_array(v[i]) for k, v in value.items()\n"
                 "                        }\n                    elif isinstance(value, tuple):\n"
                 "                        new_dict[key] = tuple(maybe_to_array(v[i]) for v in value)\n                    else:\n"
                 "                        new_dict[key] = maybe_to_array(value[i])\n\n                results[j].append(new_dict)\n\n"
                 "        return tuple(results)\n")


def _ma_reorg_helper(helper: str, slots: str = "[[] for _ in args]", loop: str = "for per_env, arg in zip(results, args)", recv: str = "per_env",
                     index: str = "i", keys: str = "arg.items()", leaf: str = "value[idx]") -> str:
    """_reorganize_dicts with the dict / tuple / array dispatch in a static method `helper` that returns early and is called from a dict
    comprehension (where the front end does not inline it), the fields walked by `loop` and the value appended to `recv`; the method's name
    is spelled only inside VARIANTS"""
    return (_MA_COUNT + f"\n        results = {slots}\n        for i in range(num_entries):\n            {loop}:\n"
            f"                {recv}.append(\n                    {{key: self.{helper}(value, {index}) for key, value in {keys}}}\n                )\n\n"
            "        return tuple(results)\n\n    @staticmethod\n"
            f"    def {helper}(value: NumpyObsType, idx: int) -> NumpyObsType:\n\n        def maybe_to_array(entry):\n"
            "            return np.array(entry) if not isinstance(entry, np.ndarray) else entry\n\n        if isinstance(value, dict):\n"
            "            return {k: maybe_to_array(v[idx]) for k, v in value.items()}\n        if isinstance(value, tuple):\n"
            f"            return tuple(maybe_to_array(v[idx]) for v in value)\n        return maybe_to_array({leaf})\n")


VARIANTS += [
    # the fields may be walked by zip(results, args) (the slot is the element paired with the field) as well as by enumerate(args) + results[j];
    # the element code may sit in a method of the class that receives the environment index; the keys may be enumerated by a comprehension
    ("ma-reorg-helper-zip-comprehension-ok", _MAF, _MA_REORG_OLD, _ma_reorg_helper("_select_env"), "silent", None),
    ("ma-reorg-helper-enumerate-comprehension-ok", _MAF, _MA_REORG_OLD,
     _ma_reorg_helper("_select_env", slots="[[] for _ in range(len(args))]", loop="for j, arg in enumerate(args)", recv="results[j]"), "silent", None),
    ("ma-reorg-zip-slots-one-short", _MAF, _MA_REORG_OLD, _ma_reorg_helper("_select_env", slots="[[] for _ in args[1:]]"), "fire", "C09.5"),
    ("ma-reorg-zip-slots-of-other-list", _MAF, _MA_REORG_OLD,
     _ma_reorg_helper("_select_env", slots="[[] for _ in args]\n        spare = [[] for _ in args]", loop="for per_env, arg in zip(spare, args)"), "fire", "C09.5"),
    ("ma-reorg-helper-given-index-zero", _MAF, _MA_REORG_OLD, _ma_reorg_helper("_select_env", index="0"), "fire", "C09.5"),
    ("ma-reorg-helper-leaf-at-zero", _MAF, _MA_REORG_OLD, _ma_reorg_helper("_select_env", leaf="value[0]"), "fire", "C09.5"),
    ("ma-reorg-comprehension-keys-of-first-field", _MAF, _MA_REORG_OLD, _ma_reorg_helper("_select_env", keys="args[0].items()"), "fire", "C09.5"),
]
