"""C14 — every selected action is a legal member of the action space."""
from __future__ import annotations

import ast
from typing import Dict, List, Optional, Set, Tuple

from ..cfg import CFG, Node
from ..core import AnalysisError, Cls, Fn, Repo, call_name, calls_in, const_value, dotted, get_kw, last_attr, short, walk_no_nested
from ..pat import has
from ..report import Check
from ..terms import Atom, Poly, TermBuilder, expand_phi, mentions, single_atom, walk_atoms

DISCRETE = [
    ("agilerl.algorithms.dqn", "DQN._get_action", "action_mask"),
    ("agilerl.algorithms.dqn_rainbow", "RainbowDQN.get_action", "action_mask"),
    ("agilerl.algorithms.cqn", "CQN.get_action", "action_mask"),
    ("agilerl.algorithms.neural_ucb_bandit", "NeuralUCB.get_action", "action_mask"),
    ("agilerl.algorithms.neural_ts_bandit", "NeuralTS.get_action", "action_mask"),
]
MULTI = [("agilerl.algorithms.maddpg", "MADDPG.get_action"), ("agilerl.algorithms.matd3", "MATD3.get_action")]
CONT = [("agilerl.algorithms.ddpg", "DDPG.get_action"), ("agilerl.algorithms.td3", "TD3.get_action")]


def run(ck: Check, repo: Repo) -> None:
    ck.not_decided += ["that the returned array has the batch shape of the observation (runtime shapes)",
                       "that the chosen action is the best allowed one as a value (needs the network's outputs)"]
    ck.trusted += ["numpy masked arrays: entries whose mask is True are ignored by argmax", "argmax of -inf entries is never chosen while a finite entry exists",
                   "np.random.uniform(0,1) / torch.rand values are > 0 almost surely, so value*mask is positive exactly on legal actions"]
    ck.rule("C14.1", "masks precede arg-max: on every path with a mask, both the greedy and the exploratory choice take the arg-max of values "
                     "that passed the mask with the right polarity (illegal -> -inf / hidden / zero random score)")
    ck.rule("C14.2", "deterministic continuous actions returned by get_action pass a clip whose bounds come from the action space without "
                     "projecting to one dimension; exploration noise is added before the clip, not after")
    ck.rule("C14.3", "policy-gradient agents bring evaluation-mode continuous actions into the bounds (rescale squashed outputs, clip the others)")
    ck.rule("C14.5", "array-kind agreement on the clipping path: a value that has become a numpy array is not combined arithmetically with the "
                     "actor's torch bound tensors (scale_action)")
    ck.rule("C14.6", "batch size of locally generated actions / default masks: wherever get_action measures the prepared observation (len(x), x.size(0), "
                     "x.shape[0]) the measured object is a tensor leaf — the observation itself only where it cannot be a dict or tuple, a member of it "
                     "only under the matching isinstance test")
    n_meas = 0
    for modname, q in (("agilerl.algorithms.dqn", "DQN.get_action"), ("agilerl.algorithms.cqn", "CQN.get_action")):
        n_meas += _batch_measure(ck, repo, repo.fn(modname, q))
    ck.floor("C14.6", n_meas, 4, "places where a value-based get_action measures the prepared observation")
    ck.rule("C14.7", "IPPO: the masks of the agents sharing a policy are collected per agent in observation order and combined on a new LEADING axis "
                     "(agent-major, like the concatenated observations), so that mask.view(logits.shape) pairs every row of logits with the mask of the same agent and environment")
    _ippo_masks(ck, repo)
    ck.rule("C14.8", "IPPO: the Box used to bring a group's evaluation-mode action into bounds is the action space of a member of THAT group "
                     "(looked up through the group id of the loop that produced the action), not one addressed by the loop's position")
    _ippo_clip_space(ck, repo)
    ck.rule("C14.9", "policy-gradient get_action hands the actor's action on with the axes the actor produced (batch, *action_shape): no axis is inserted or removed "
                     "between the actor call and the return")
    _no_axis_change(ck, repo)
    from ._c14_r3 import run_r3
    run_r3(ck, repo)
    n_arg = 0
    for modname, q, mask in DISCRETE:
        n_arg += _discrete(ck, repo, repo.fn(modname, q), mask)
    for modname, q in MULTI:
        n_arg += _multi_discrete(ck, repo, repo.fn(modname, q))
    ck.floor("C14.1", n_arg, 13, "arg-max sites in the discrete get_action functions")
    for modname, q in CONT:
        _continuous(ck, repo, repo.fn(modname, q))
    for modname, q in MULTI:
        _multi_continuous(ck, repo, repo.fn(modname, q))
    _policy_gradient(ck, repo)
    _dqn_wrapper(ck, repo)
    from ._c14_r5 import run_r5
    run_r5(ck, repo)


# ------------------------------------------------------------------------------------------------ choices of a value, in either spelling
Guards = List[Tuple[ast.AST, bool]]


def _alts(v: Optional[ast.AST], guards: Optional[Guards] = None) -> List[Tuple[Guards, Optional[ast.AST]]]:
    """(guards, value) for every value an expression may stand for: `a if c else b` is a under (c, True) and b under (c, False)."""
    guards = list(guards or [])
    if isinstance(v, ast.IfExp):
        return _alts(v.body, guards + [(v.test, True)]) + _alts(v.orelse, guards + [(v.test, False)])
    return [(guards, v)]


def _def_alts(cfg: CFG, at: Optional[Node], name: str, paths: bool = False) -> List[Tuple[Guards, Optional[ast.AST], Node]]:
    """(guards, value, definition node) for every value the local `name` may hold at node `at`: one entry per reaching definition and per alternative
    of a conditional expression, each with the branch outcomes under which it is bound.  `x = a if c else b` and `if c: x = a` / `else: x = b`
    give the same list (value None = not a plain binding).  With `paths` the guards are stated for the USE: temporaries in them are replaced by their
    definitions and the branch outcomes every path from the definition to `at` has taken are added (`x = a` / `if c: x = b` / use(x): a under not c)."""
    out = []
    for d in (cfg.defs_reaching(at, name) if at is not None else []):
        if paths:
            here = [(_subst_temps(cfg, t, g), pol) for g, pol, t in cfg.guards_at(d)] + _reach_guards(cfg, d, at, name)
            out += [([(_subst_temps(cfg, d, g), pol) if i >= len(here) else (g, pol) for i, (g, pol) in enumerate(gs)], v, d)
                    for gs, v in _alts(cfg.value_of_def(d, name), here)]
            continue
        here = [(g, pol) for g, pol, _ in cfg.guards_at(d)]
        out += [(gs, v, d) for gs, v in _alts(cfg.value_of_def(d, name), here)]
    return out


def _same_operands(cfg: CFG, v: ast.AST, d: Node, at: Node) -> bool:
    """Do the names / attribute chains read by expression v (evaluated at d) still have the same definitions at node `at`?"""
    for x in ast.walk(v):
        if isinstance(x, (ast.Name, ast.Attribute)):
            k = dotted(x)
            if "?" not in k and {n.id for n in cfg.defs_reaching(d, k)} != {n.id for n in cfg.defs_reaching(at, k)}:
                return False
    return True


_PURE = (ast.Name, ast.Attribute, ast.Subscript, ast.Constant, ast.BinOp, ast.UnaryOp, ast.Compare, ast.BoolOp, ast.Tuple, ast.Slice,
         ast.expr_context, ast.operator, ast.unaryop, ast.cmpop, ast.boolop)


def _temp_value(cfg: CFG, at: Optional[Node], e: ast.AST, pure: bool = True) -> Optional[Tuple[ast.AST, Node]]:
    """(defining expression, definition node) of a local that is a single-definition temporary at node `at` whose operands are unchanged since:
    reading the local is reading the expression.  `pure`: only expressions without calls (safe to substitute anywhere); otherwise any expression
    (enough for the truth value of a guard: the flag was computed from it)."""
    if not isinstance(e, ast.Name) or at is None:
        return None
    ds = cfg.defs_reaching(at, e.id)
    if len(ds) != 1 or ds[0].kind != "stmt" or ds[0] is at:
        return None
    v = cfg.value_of_def(ds[0], e.id)
    if v is None or hasattr(v, "_unpack_len") or (pure and not all(isinstance(x, _PURE) for x in ast.walk(v))):
        return None
    if any(isinstance(x, (ast.NamedExpr, ast.Await, ast.Yield, ast.YieldFrom, ast.Lambda)) for x in ast.walk(v)) or not _same_operands(cfg, v, ds[0], at):
        return None
    return v, ds[0]


def _subst_temps(cfg: CFG, at: Optional[Node], e: ast.AST, depth: int = 0) -> ast.AST:
    """e with every single-definition temporary (call-free definition, operands unchanged) replaced by its definition: `v = d[k]` ... `f(v)` reads as `f(d[k])`."""
    if at is None or depth > 6:
        return e

    class _T(ast.NodeTransformer):
        def visit_Name(self, x: ast.Name) -> ast.AST:
            tv = _temp_value(cfg, at, x) if isinstance(x.ctx, ast.Load) else None
            return x if tv is None else _subst_temps(cfg, tv[1], tv[0], depth + 1)

        def visit_Lambda(self, x: ast.Lambda) -> ast.AST:
            return x

    import copy
    return _T().visit(copy.deepcopy(e))


def _region_avoiding(starts: List[Node], avoid: Set[int]) -> Set[int]:
    seen: Set[int] = set()
    st = [s for s in starts if s is not None]
    while st:
        x = st.pop()
        if x.id in seen or x.id in avoid:
            continue
        seen.add(x.id)
        st.extend(x.succ)
    return seen


def _reach_guards(cfg: CFG, d: Node, at: Node, name: str) -> Guards:
    """Branch outcomes known whenever definition d of `name` is the one read at node `at`: for an `if` test t passed on every path from d to `at`
    (d dominates t, t dominates `at`), the outcome is known when `at` is reachable from only one of its branches without passing another binding of
    `name` (or the test again).  `x = a` / `if c: x = b` / use(x) reads a only under `not c`."""
    kill = {n.id for n in cfg.live_nodes() if n is not d and any(k == name and strong for k, strong in cfg.defs_at(n))}
    out: Guards = []
    for t in cfg.live_nodes():
        if t.kind != "test" or not isinstance(t.stmt, ast.If) or t.true_succ is None or t is at or t is d:
            continue
        if not (cfg.dominates(d, t) and cfg.dominates(t, at)):
            continue
        others = [t.false_succ] if t.false_succ is not None else [s for s in t.succ if s is not t.true_succ and s.id not in t.exc_succ]
        via_t = at.id in _region_avoiding([t.true_succ], kill | {t.id})
        via_f = at.id in _region_avoiding(others, kill | {t.id})
        if via_t != via_f:
            out.append((_subst_temps(cfg, t, t.ast), via_t))
    return out


def _value_alts(cfg: CFG, at: Optional[Node], e: Optional[ast.AST], guards: Optional[Guards] = None, depth: int = 0) -> List[Tuple[Guards, Optional[ast.AST], Optional[Node]]]:
    """(guards, expression, node it is evaluated at) for every expression the value `e` read at node `at` may stand for: locals are followed through
    their reaching definitions (each with the outcomes it is bound and read under), conditional expressions through both arms; a value passed
    directly, through a temporary or through a chain of temporaries gives the same list."""
    guards = list(guards or [])
    if isinstance(e, ast.IfExp):
        return _value_alts(cfg, at, e.body, guards + [(_subst_temps(cfg, at, e.test), True)], depth + 1) + \
            _value_alts(cfg, at, e.orelse, guards + [(_subst_temps(cfg, at, e.test), False)], depth + 1)
    if isinstance(e, ast.Name) and at is not None and depth < 6:
        alts = _def_alts(cfg, at, e.id, paths=True)
        if alts and all(v is not None and not hasattr(v, "_unpack_len") and d.kind == "stmt" for _, v, d in alts):
            out = []
            for gs, v, d in alts:
                out += _value_alts(cfg, d, v, guards + gs, depth + 1) if isinstance(v, ast.Name) else [(guards + gs, v, d)]
            return out
    return [(guards, e, at)]


def _guard_facts(cfg: CFG, node: Optional[Node]) -> List[Tuple[str, bool]]:
    """(atom text, polarity) for every atomic condition known to hold at `node`.  Conjunctions are split; a guard that is a single-definition flag
    (`flag = a and b` ... `if flag:`) stands for the conjuncts of its definition; a disjunction of which all members but one are refuted by the other
    facts yields that member (`if f and s: ... elif f: HERE` gives f and not s, like `if f: if s: ... else: HERE`)."""
    from ..domains import conjuncts
    if node is None:
        return []
    units: List[Tuple[ast.AST, bool]] = []
    clauses: List[Tuple[List[Tuple[ast.AST, bool]], Node]] = []

    def key(a: ast.AST, p: bool) -> Tuple[str, bool]:
        return _facts([(a, p)])[0]

    def add(e: ast.AST, pol: bool, t: Node, depth: int = 0) -> None:
        for a, p in conjuncts(e, pol):
            tv = _temp_value(cfg, t, a, pure=False) if depth < 6 else None
            if tv is not None:
                add(tv[0], p, tv[1], depth + 1)
            elif isinstance(a, ast.BoolOp):
                # (a and b) known false = not a or not b; (a or b) known true
                clauses.append(([(v, p) for v in a.values], t))
            else:
                units.append((a, p))

    for g, pol, t in cfg.guards_at(node):
        add(g, pol, t)
    changed = True
    while changed:
        changed = False
        known = {key(a, p) for a, p in units}
        for cl in list(clauses):
            lits, t = cl
            open_ = []
            def refuted(e: ast.AST, pol_: bool, t_: Node, depth: int = 0) -> bool:
                """e (with polarity) is a conjunction of atoms, flags and disjunctions: refuted when an atom contradicts a known fact, a flag's
                definition is refuted, or every member of a disjunction is."""
                for a, q in conjuncts(e, pol_):
                    tv = _temp_value(cfg, t_, a, pure=False) if depth < 6 else None
                    if tv is not None:
                        if refuted(tv[0], q, tv[1], depth + 1):
                            return True
                    elif isinstance(a, ast.BoolOp):
                        if depth < 6 and all(refuted(v_, q, t_, depth + 1) for v_ in a.values):
                            return True
                    else:
                        k, kp = key(a, q)
                        if (k, not kp) in known:
                            return True
                return False

            for v, p in lits:
                if not refuted(v, p, t):
                    open_.append((v, p))
            if len(open_) == 1:
                clauses.remove(cl)
                add(open_[0][0], open_[0][1], t)
                changed = True
    out = []
    for a, p in units:
        k = (ast.unparse(a), p)
        if k not in out:
            out.append(k)
    return out


def _facts(guards: Guards) -> List[Tuple[str, bool]]:
    """The atoms known to hold (text without blanks, polarity); `x is None` is stated as `x is not None` with the opposite polarity."""
    from ..domains import conjuncts
    out = []
    for g, pol in guards:
        for a, p in conjuncts(g, pol):
            if isinstance(a, ast.Compare) and len(a.ops) == 1 and isinstance(a.ops[0], ast.Is) and isinstance(a.comparators[0], ast.Constant) and a.comparators[0].value is None:
                a, p = ast.Compare(left=a.left, ops=[ast.IsNot()], comparators=a.comparators), not p
            out.append((ast.unparse(a).replace(" ", ""), p))
    return out


# ------------------------------------------------------------------------------------------------ C14.1
def _mask_polarity(tb: TermBuilder, m: Poly, mask_atoms: Set[str]) -> str:
    """'inverse' if m == 1 - mask, 'direct' if m == mask, else 'unknown'."""
    for k in mask_atoms:
        if m == Poly.const(1) - Poly.atom(k):
            return "inverse"
        if m == Poly.atom(k):
            return "direct"
    return "unknown"


def _mask_atoms(tb: TermBuilder, fn: Fn, mask_param: str, at: Node) -> Set[str]:
    t = tb.term(ast.Name(id=mask_param, ctx=ast.Load()), at)
    out = set()
    for a, _, _ in walk_atoms(tb, t):
        if a.kind == "param" and a.name == mask_param:
            out.add(a.key)
    # the mask as seen at `at` (possibly stacked / converted): top-level atoms deriving from the parameter
    for k in t.atoms():
        out.add(k)
    for alt in expand_phi(tb, t):
        for k in alt.atoms():
            out.add(k)
    return out


def _no_mask(facts: List[Tuple[str, bool]], mask_param: str) -> bool:
    """Do the known conditions (atoms with polarity) say that no mask was passed?"""
    return any((t.replace(" ", "") == f"{mask_param}isnotNone" and not p) or (t.replace(" ", "") == f"{mask_param}isNone" and p) for t, p in facts)


def _discrete(ck: Check, repo: Repo, fn: Fn, mask_param: str) -> int:
    cfg = CFG(fn.node)
    tb = TermBuilder(repo, fn, cfg=cfg, depth=0)
    label = fn.qualname
    args = [c for c in calls_in(fn.node) if last_attr(c) == "argmax" or call_name(c) in ("np.argmax", "torch.argmax")]
    n = 0
    for c in args:
        node = cfg.node_of(c)
        operand = c.args[0] if call_name(c) in ("np.argmax", "torch.argmax") and c.args else (c.func.value if isinstance(c.func, ast.Attribute) else None)
        if operand is None or node is None:
            continue
        here = _guard_facts(cfg, node)
        # one arg-max site per PATH: an operand that is one value on the no-mask path and another one otherwise (`if mask is not None: v = masked(v)` /
        # argmax(v)) is two sites, exactly like two arg-max calls in the two branches of `if mask is None`
        paths = [(_facts(gs), v, d) for gs, v, d in _value_alts(cfg, node, operand)] if isinstance(operand, ast.Name) else []
        if len(paths) < 2 or not any(_no_mask(f, mask_param) for f, _, _ in paths) or any(v is None for _, v, _ in paths):
            paths = [([], operand, node)]
        for facts, v, d in paths:
            n += 1
            if _no_mask(here + facts, mask_param):
                ck.ob("C14.1", fn, c, True, f"{label}: without a mask the arg-max runs over all actions", construct=f"{label}: {short(c, 60)} [no mask]")
                continue
            masks = _mask_atoms(tb, fn, mask_param, node)
            t = tb.term(v, d)
            ok, why = _operand_masked(tb, t, masks, v, cfg, d)
            ck.ob("C14.1", fn, c, ok, f"{label}: the arg-max operand has passed the action mask with the right polarity", detail=why,
                  construct=f"{label}: {short(c, 70)}")
    return n


def _operand_masked(tb: TermBuilder, t: Poly, masks: Set[str], operand: ast.AST, cfg: CFG, node: Node) -> Tuple[bool, str]:
    a = single_atom(tb, t)
    # form 1: np.ma.array(values, mask=M)
    if a is not None and a.kind == "call" and a.name == "array" and isinstance(a.node, ast.Call) and call_name(a.node) in ("np.ma.array", "np.ma.masked_array", "numpy.ma.array"):
        mk = get_kw(a.node, "mask", 1)
        if mk is None:
            return False, "masked array built without a mask"
        n2 = cfg.node_of(a.node) or node
        m = tb.term(mk, n2)
        pol = _mask_polarity(tb, m, masks)
        # also accept phi over (1 - mask | None) (multi-agent: mask may be absent)
        if pol == "unknown":
            alts = expand_phi(tb, m)
            pols = {_mask_polarity(tb, x, masks) if not (single_atom(tb, x) is not None and single_atom(tb, x).key == "const:None") else "none" for x in alts}
            if pols <= {"inverse", "none"} and "inverse" in pols:
                pol = "inverse"
        return pol == "inverse", f"numpy masked array with mask = {m.key()[:80]} ({pol}; numpy hides entries whose mask is True, so it must be 1 - action_mask)"
    # form 2: polynomial in the mask: mask := 0 removes the scores, mask := 1 keeps them
    present = [k for k in t.atoms() if k in masks]
    if present:
        t0 = t.subst({k: Poly.const(0) for k in present})
        t1 = t.subst({k: Poly.const(1) for k in present})
        value_atoms = [k for k in t1.atoms() if not k.startswith("const:")]
        illegal_ok = all(k.startswith("const:") or "inf" in k for k in t0.atoms())
        neg_inf = any("-inf" in k or "'-inf'" in k for k in t0.atoms())
        if not t0.atoms() and t0.const_value() == 0:
            # value * mask: only sound for non-negative random scores
            rnd = all(("rand" in k or "uniform" in k) for k in value_atoms)
            return rnd and bool(value_atoms), f"scores multiplied by the mask: {'random scores in [0,1) (legal actions strictly positive)' if rnd else 'NOT random scores: a negative Q-value times 1 loses against 0 of an illegal action'}"
        return illegal_ok and neg_inf and bool(value_atoms), f"at mask=0 the operand is {t0.key()[:60]}, at mask=1 it is {t1.key()[:60]}"
    return False, f"the arg-max operand {t.key()[:100]} does not depend on the mask"


def _multi_discrete(ck: Check, repo: Repo, fn: Fn) -> int:
    cfg = CFG(fn.node)
    tb = TermBuilder(repo, fn, cfg=cfg, depth=0)
    label = fn.qualname
    args = [c for c in calls_in(fn.node) if last_attr(c) == "argmax"]
    n = 0
    # roles of the locals: (action masks, environment-defined actions, agent masks) = self.process_infos(infos)
    am = eda = gm = "?"
    for a_ in walk_no_nested(fn.node):
        if isinstance(a_, ast.Assign) and isinstance(a_.value, ast.Call) and call_name(a_.value) == "self.process_infos" and isinstance(a_.targets[0], ast.Tuple) \
                and len(a_.targets[0].elts) == 3 and all(isinstance(e, ast.Name) for e in a_.targets[0].elts):
            am, eda, gm = (e.id for e in a_.targets[0].elts)
    ck.ob("C14.1", fn, fn.node, am != "?", f"{label}: the masks come from self.process_infos(infos)", construct=f"{label}: process_infos unpack")
    for c in args:
        node = cfg.node_of(c)
        n += 1
        recv = c.func.value
        # the receiver: np.ma.array(action, mask=mask) with mask = 1 - np.array(action_masks[agent]) where that agent has a mask, None where it has none.
        # Every expression the receiver and the mask may stand for is inspected together with the branch outcomes it is bound under: a conditional
        # expression or an if / else statement, values passed directly or through temporaries (`m = action_masks[agent]` ... `m is None`), in either
        # order of the arms
        ok = True
        why = ""
        for gs0, v, d in _value_alts(cfg, node, recv):
            if not (isinstance(v, ast.Call) and call_name(v) in ("np.ma.array", "np.ma.masked_array", "numpy.ma.array")):
                ok, why = False, "receiver is not a masked array"
                break
            mk = get_kw(v, "mask", 1)
            vals = _value_alts(cfg, d, mk, gs0) if mk is not None else []
            hidden, absent = [], []
            for gs, x, dx in vals:
                xs = ast.unparse(_subst_temps(cfg, dx, x)).replace(" ", "") if x is not None else ""
                facts = _facts(gs)
                # 1 - np.array(<action masks>[K]) under `<action masks>[K] is not None`
                key = xs[len("1-np.array("):-1] if xs.startswith(f"1-np.array({am}[") and xs.endswith(")") else None
                hidden.append(key is not None and (f"{key}isnotNone", True) in facts)
                absent.append(isinstance(x, ast.Constant) and x.value is None and any(t.startswith(f"{am}[") and t.endswith("isnotNone") and not p for t, p in facts))
            if not (any(hidden) and all(h or a for h, a in zip(hidden, absent))):
                ok = False
            why = f"mask = {[(short(x, 70), _facts(gs)) for gs, x, _ in vals]}"
        ck.ob("C14.1", fn, c, ok, f"{label}: the per-agent arg-max runs over a masked array hiding illegal actions (mask = 1 - action_mask of that agent)", detail=why)
        ck.ob("C14.1", fn, c, const_value(get_kw(c, "axis")) == -1, f"{label}: the arg-max runs over the action axis")
    # env-defined actions overwrite with the environment's own actions under the agent's mask
    # (an index held in a temporary, `sel = <agent masks>[agent]` ... `x[agent][sel] = y[agent][sel]`, is the same assignment)
    sets = []
    for n_ in walk_no_nested(fn.node):
        if isinstance(n_, ast.Assign) and isinstance(n_.targets[0], ast.Subscript):
            nd = cfg.node_of(n_)
            sl_ = _subst_temps(cfg, nd, n_.targets[0].slice)
            if isinstance(sl_, ast.Subscript) and dotted(sl_.value) == gm:
                sets.append((n_, sl_, nd))
    for s, sl_, nd in sets:
        sl = ast.unparse(sl_)  # <agent masks>[<agent>]
        ag = ast.unparse(sl_.slice)
        ok = f"{eda}[{ag}][{sl}]" in ast.unparse(_subst_temps(cfg, nd, s.value))
        ck.ob("C14.1", fn, s, ok, f"{label}: environment-defined actions replace the policy's action exactly where the agent's mask says so")
    return n


# ------------------------------------------------------------------------------------------------ C14.7
_LEADING_COMBINERS = {"torch.Tensor", "torch.tensor", "torch.as_tensor", "torch.FloatTensor", "np.array", "np.asarray", "numpy.array"}
_STACKERS = {"np.stack", "torch.stack", "numpy.stack"}


def _ippo_masks(ck: Check, repo: Repo, rule: str = "C14.7") -> None:
    fn = repo.fn("agilerl.algorithms.ippo", "IPPO.extract_action_masks")
    # (a) collection: for <agent>, <info> in infos.items(): <box>[self.get_homo_id(<agent>)].append(...)
    # the collection loop visits the agents (in self.agent_ids order: C15.9) and reads each agent's own info entry
    loops = [n for n in walk_no_nested(fn.node) if isinstance(n, ast.For) and (
        (isinstance(n.iter, ast.Call) and ast.unparse(n.iter) == "infos.items()" and isinstance(n.target, ast.Tuple))
        or (isinstance(n.target, ast.Name) and any(isinstance(x, (ast.Subscript, ast.Call)) and ast.unparse(x) in (f"infos[{n.target.id}]", f"infos.get({n.target.id})")
                                                     for x in ast.walk(n))))]
    okc = False
    box = None
    for lp in loops:
        agent = dotted(lp.target.elts[0]) if isinstance(lp.target, ast.Tuple) else lp.target.id
        hid = [a.targets[0].id for a in ast.walk(lp) if isinstance(a, ast.Assign) and isinstance(a.targets[0], ast.Name) and isinstance(a.value, ast.Call)
               and call_name(a.value) == "self.get_homo_id" and a.value.args and dotted(a.value.args[0]) == agent]
        for c in calls_in(lp, nested=True):
            if last_attr(c) == "append" and isinstance(c.func.value, ast.Subscript) and isinstance(c.func.value.value, ast.Name) and dotted(c.func.value.slice) in hid:
                okc, box = True, c.func.value.value.id
    ck.ob(rule, fn, loops[0] if loops else fn.node, okc, "IPPO.extract_action_masks: one mask per agent, read from that agent's own info entry, is appended to its policy group's list",
          construct="IPPO.extract_action_masks: collection loop")
    # (b) combination: <box>[g] = <combiner>(<box>[g]) on the leading axis
    n = 0
    for a in walk_no_nested(fn.node):
        if not (isinstance(a, ast.Assign) and isinstance(a.targets[0], ast.Subscript) and dotted(a.targets[0].value) == box and isinstance(a.value, ast.Call)):
            continue
        tgt = ast.unparse(a.targets[0])
        inner = [c for c in ast.walk(a.value) if isinstance(c, ast.Call) and c.args and ast.unparse(c.args[0]) == tgt]
        if not inner:
            continue
        n += 1
        c = inner[0]
        nm = call_name(c)
        axis = get_kw(c, "axis") or get_kw(c, "dim") or (c.args[1] if len(c.args) > 1 and nm in _STACKERS else None)
        ok = nm in _LEADING_COMBINERS or (nm in _STACKERS and (axis is None or const_value(axis) == 0))
        ck.ob(rule, fn, c, ok, "IPPO.extract_action_masks: the group's masks are combined on a new leading axis (agent-major)",
              detail=f"combined by `{short(c, 70)}`: with several environments the agent axis is not the leading one, while observations and logits of the group are "
                     "concatenated agent-major; mask.view(logits.shape) then gives a row the mask of another (agent, environment) pair",
              construct="IPPO.extract_action_masks: combination of the group's masks")
    ck.floor(rule, n, 1, "combination of a policy group's masks", fn=fn)
    # the consumer reshapes by view(): it relies on identical element order
    ap = repo.fn("agilerl.networks.distributions", "EvolvableDistribution.apply_mask")
    reinterprets = has(ap.node, "$_.view($_.shape)") or has(ap.node, "$_.reshape($_.shape)") or has(ap.node, "$_.view($_.size())") or has(ap.node, "$_.reshape($_.size())") \
        or has(ap.node, "$_.view_as($_)") or has(ap.node, "$_.reshape_as($_)")
    ck.ob(rule, ap, ap.node, reinterprets, "apply_mask reinterprets the mask with the logits' shape by view(): element order must already agree",
          construct="apply_mask view")


# ------------------------------------------------------------------------------------------------ C14.9
_AXIS_OPS = {"unsqueeze", "squeeze", "expand_dims", "reshape", "view", "flatten", "ravel", "unsqueeze_", "squeeze_"}


def _no_axis_change(ck: Check, repo: Repo) -> None:
    n = 0
    for modname, q in (("agilerl.algorithms.ppo", "PPO.get_action"), ("agilerl.algorithms.ippo", "IPPO.get_action")):
        fn = repo.fn(modname, q)
        cfg = CFG(fn.node)
        rets = [r for r in cfg.live_nodes() if r.kind == "stmt" and isinstance(r.ast, ast.Return) and r.ast.value is not None]
        # the action variable: first element of the returned tuple (PPO) / the name stored into the first returned dict (IPPO: per-group action)
        names = set()
        for r in rets:
            v = r.ast.value
            first = v.elts[0] if isinstance(v, ast.Tuple) and v.elts else v
            if isinstance(first, ast.Name):
                names.add(first.id)
        if q.startswith("IPPO"):
            names = {a.value.id for a in walk_no_nested(fn.node) if isinstance(a, ast.Assign) and isinstance(a.targets[0], ast.Subscript) and isinstance(a.value, ast.Name)
                     and any(isinstance(c, ast.Call) and last_attr(c) == "disassemble_homogeneous_outputs" and c.args and dotted(c.args[0]) == dotted(a.targets[0].value)
                             for c in ast.walk(fn.node))} or names
        ops = []
        for a in walk_no_nested(fn.node):
            if isinstance(a, ast.Assign) and isinstance(a.targets[0], ast.Name) and a.targets[0].id in names:
                for c in ast.walk(a.value):
                    if isinstance(c, ast.Call) and (last_attr(c) in _AXIS_OPS or call_name(c) in ("np.expand_dims", "np.squeeze", "np.reshape")) \
                            and any(isinstance(x, ast.Name) and x.id in names for x in ast.walk(c)):
                        ops.append(c)
                for sct in ast.walk(a.value):
                    if isinstance(sct, ast.Subscript) and dotted(sct.value) in names and any(isinstance(x, ast.Constant) and x.value is None for x in ast.walk(sct.slice)):
                        ops.append(sct)
        n += 1
        ck.ob("C14.9", fn, ops[0] if ops else fn.node, bool(names) and not ops, f"{q}: the returned action keeps the axes the actor produced",
              detail=f"`{short(ops[0], 60)}` changes the axes of the action: for Box(shape=(1,)) a (B, 4) observation batch gives an action of shape (B, 1, 1), which is not B elements of "
                     "the action space" if ops else f"action variable(s): {sorted(names)}",
              construct=f"{q}: axes of the returned action")
    ck.floor("C14.9", n, 2, "policy-gradient get_action functions")


# ------------------------------------------------------------------------------------------------ C14.8
def _ippo_clip_space(ck: Check, repo: Repo) -> None:
    fn = repo.fn("agilerl.algorithms.ippo", "IPPO.get_action")
    cfg = CFG(fn.node)
    clips = [c for c in calls_in(fn.node) if call_name(c) in ("np.clip", "numpy.clip") and len(c.args) == 3 and dotted(c.args[1]).endswith(".low")]
    ck.floor("C14.8", len(clips), 1, "evaluation-mode clip in IPPO.get_action", fn=fn)
    for c in clips:
        node = cfg.node_of(c)
        sp = dotted(c.args[1])[:-4]
        ok, why = False, f"space = {sp}"
        # the group loop: for <pos>, (<group id>, ...) in enumerate(zip(<group ids>, ...)) enclosing the clip
        loops = [l for l in walk_no_nested(fn.node) if isinstance(l, ast.For) and any(x is c for x in ast.walk(l))]
        gid = None
        for l in loops:
            t = l.target
            if isinstance(t, ast.Tuple) and len(t.elts) == 2 and isinstance(t.elts[1], ast.Tuple) and isinstance(t.elts[1].elts[0], ast.Name):
                gid = t.elts[1].elts[0].id
            elif isinstance(t, ast.Tuple) and isinstance(t.elts[0], ast.Name) and not (isinstance(l.iter, ast.Call) and call_name(l.iter) == "enumerate"):
                gid = t.elts[0].id
        if gid is not None and node is not None and isinstance(c.args[1].value, ast.Name):
            vals = [v for _, v, _ in _def_alts(cfg, node, sp)]
            okv = []
            for v in vals:
                # self.action_space[K] / .get(K) with K = self.homogeneous_agents[<group id>][i], or self.unique_action_spaces[<group id>]
                key = v.slice if isinstance(v, ast.Subscript) else (v.args[0] if isinstance(v, ast.Call) and last_attr(v) == "get" and v.args else None)
                holder = dotted(v.value) if isinstance(v, ast.Subscript) else (dotted(v.func.value) if isinstance(v, ast.Call) and isinstance(v.func, ast.Attribute) else "")
                if key is None:
                    okv.append(False)
                    continue
                kvals = [key]
                if isinstance(key, ast.Name):
                    kvals = [k for _, k, _ in _def_alts(cfg, node, key.id)]
                def from_group(k):
                    txt = ast.unparse(k) if k is not None else ""
                    return (holder == "self.unique_action_spaces" and txt == gid) or (holder == "self.action_space" and txt.startswith(f"self.homogeneous_agents[{gid}]["))
                okv.append(bool(kvals) and all(from_group(k) for k in kvals))
                why = f"space = {short(v, 60)}, key = {[short(k, 50) if k is not None else None for k in kvals]}, group id = {gid}"
            ok = bool(okv) and all(okv)
        ck.ob("C14.8", fn, c, ok, "IPPO.get_action: the clipping Box is the action space of a member of the group whose policy produced the action", detail=why,
              construct="IPPO.get_action: space used for the evaluation-mode clip")


# ------------------------------------------------------------------------------------------------ C14.6
def _batch_measure(ck: Check, repo: Repo, fn: Fn) -> int:
    from ..domains import conjuncts
    cfg = CFG(fn.node)
    label = fn.qualname
    # the prepared observation: every name assigned from self.preprocess_observation(...)
    prepared: Set[str] = set()
    for a in walk_no_nested(fn.node):
        if isinstance(a, ast.Assign) and isinstance(a.value, ast.Call) and call_name(a.value) == "self.preprocess_observation" and isinstance(a.targets[0], ast.Name):
            prepared.add(a.targets[0].id)
    ck.ob("C14.6", fn, fn.node, bool(prepared), f"{label}: the observation is prepared by self.preprocess_observation", construct=f"{label}: prepared observation")

    def kinds_of(e: ast.AST, node: Node, guards: List[Tuple[str, bool]], depth: int = 0) -> List[Tuple[str, str, List[Tuple[str, bool]]]]:
        """[(kind, prepared name, guards)] for an expression that may denote (a member of) the prepared observation; kind in whole / tuple-elem / dict-value / other."""
        if depth > 4:
            return [("other", "", guards)]
        if isinstance(e, ast.Name) and e.id in prepared:
            return [("whole", e.id, guards)]
        if isinstance(e, ast.Subscript) and isinstance(e.value, ast.Name) and e.value.id in prepared:
            return [("tuple-elem", e.value.id, guards)]
        if isinstance(e, ast.Call) and call_name(e) == "next" and e.args and isinstance(e.args[0], ast.Call) and call_name(e.args[0]) == "iter" and e.args[0].args:
            inner = e.args[0].args[0]
            if isinstance(inner, ast.Call) and last_attr(inner) == "values" and isinstance(inner.func.value, ast.Name) and inner.func.value.id in prepared:
                return [("dict-value", inner.func.value.id, guards)]
        if isinstance(e, ast.IfExp):
            gt = [(ast.unparse(a), p) for a, p in conjuncts(e.test, True)]
            gf = [(ast.unparse(a), p) for a, p in conjuncts(e.test, False)]
            return kinds_of(e.body, node, guards + gt, depth + 1) + kinds_of(e.orelse, node, guards + gf, depth + 1)
        if isinstance(e, ast.Name):
            out = []
            for d in cfg.defs_reaching(node, e.id):
                v = cfg.value_of_def(d, e.id)
                if v is None:
                    out.append(("other", "", guards))
                    continue
                gd = [(ast.unparse(a), p) for g, pol, _ in cfg.guards_at(d) for a, p in conjuncts(g, pol)]
                out += kinds_of(v, d, guards + gd, depth + 1)
            return out or [("other", "", guards)]
        return [("other", "", guards)]

    def excluded(name: str, typ: str, guards: List[Tuple[str, bool]]) -> bool:
        for t, pol in guards:
            if not pol and t.replace(" ", "").startswith(f"isinstance({name},") and typ in t:
                return True
        return False

    def asserted(name: str, typ: str, guards: List[Tuple[str, bool]]) -> bool:
        return any(pol and t.replace(" ", "").startswith(f"isinstance({name},") and typ in t for t, pol in guards)

    n = 0
    for x in walk_no_nested(fn.node):
        base = None
        if isinstance(x, ast.Call) and call_name(x) == "len" and len(x.args) == 1:
            base = x.args[0]
        elif isinstance(x, ast.Call) and last_attr(x) == "size" and len(x.args) == 1 and const_value(x.args[0]) == 0:
            base = x.func.value
        elif isinstance(x, ast.Subscript) and isinstance(x.value, ast.Attribute) and x.value.attr == "shape" and const_value(x.slice) == 0:
            base = x.value.value
        if base is None:
            continue
        node = cfg.node_of(x)
        if node is None:
            continue
        here = [(ast.unparse(a), p) for g, pol, _ in cfg.guards_at(node) for a, p in conjuncts(g, pol)]
        alts = kinds_of(base, node, here)
        if all(k == "other" for k, _, _ in alts):
            continue
        n += 1
        bad = []
        for kind, nm, gs in alts:
            if kind == "whole" and not (excluded(nm, "dict", gs) and excluded(nm, "tuple", gs)):
                bad.append(f"`{nm}` itself is measured where it may still be a dict or a tuple (Dict / Tuple observation spaces): the result is the number of keys / members, not the batch size")
            elif kind == "tuple-elem" and not asserted(nm, "tuple", gs):
                bad.append(f"`{nm}[...]` is measured without an isinstance({nm}, tuple) test")
            elif kind == "dict-value" and not asserted(nm, "dict", gs):
                bad.append(f"a value of `{nm}` is measured without an isinstance({nm}, dict) test")
        ck.ob("C14.6", fn, x, not bad, f"{label}: the batch size is read from a tensor leaf of the prepared observation",
              detail="; ".join(bad) or f"alternatives: {[k for k, _, _ in alts]}", construct=f"{label}: batch size via {short(x, 60)}")
    return n


# ------------------------------------------------------------------------------------------------ C14.2
def _continuous(ck: Check, repo: Repo, fn: Fn) -> None:
    cfg = CFG(fn.node)
    label = fn.qualname
    rets = [n for n in cfg.live_nodes() if n.kind == "stmt" and isinstance(n.ast, ast.Return)]
    ck.floor("C14.2", len(rets), 1, f"{label}: return")
    for r, v in [(r, v) for r in rets for _, v in _alts(r.ast.value)]:
        # (one set of obligations per returned alternative: `return a if c else b` is `if c: return a` / `else: return b`)
        rs = r.ast if v is r.ast.value else ast.copy_location(ast.Return(value=v), r.ast)
        ok = isinstance(v, ast.Call) and last_attr(v) in ("clip", "clamp") and len(v.args) == 2
        ck.ob("C14.2", fn, rs, ok, f"{label}: the returned action is the result of a clip", detail=short(v, 80))
        if ok:
            lo, hi = dotted(v.args[0]), dotted(v.args[1])
            ck.ob("C14.2", fn, rs, lo == "self.action_space.low" and hi == "self.action_space.high",
                  f"{label}: the clip bounds are the action space's full low / high vectors", detail=f"clip({lo}, {hi})")
            # noise is added before
            noise = [n for n in cfg.live_nodes() if n.kind == "stmt" and "action_noise" in ast.unparse(n.ast)]
            ck.ob("C14.2", fn, rs, all(cfg.dominates(n, r) or r.id in cfg.reachable_from(n) for n in noise) and all(r.id not in {x.id for x in [n]} for n in noise),
                  f"{label}: exploration noise is applied before the clip")


def _multi_continuous(ck: Check, repo: Repo, fn: Fn) -> None:
    cfg = CFG(fn.node)
    label = fn.qualname
    clamps = [c for c in calls_in(fn.node) if call_name(c) in ("torch.clamp", "torch.clip", "np.clip")]
    ck.floor("C14.2", len(clamps), 1, f"{label}: clamp of the noisy action")
    for c in clamps:
        n = cfg.node_of(c)
        lo, hi = (c.args[1], c.args[2]) if len(c.args) >= 3 else (get_kw(c, "min"), get_kw(c, "max"))
        for which, b in (("lower", lo), ("upper", hi)):
            vals = []
            if isinstance(b, ast.Name):
                vals = [v for _, v, _ in _def_alts(cfg, n, b.id)]
            else:
                vals = [v for _, v in _alts(b)]
            for v in vals:
                if v is None:
                    ck.ob("C14.2", fn, c, False, f"{label}: {which} bound has a recognisable definition")
                    continue
                if isinstance(v, ast.Constant):
                    gs = [ast.unparse(g) for g, pol, _ in cfg.guards_at(cfg.defs_reaching(n, b.id)[0])] if isinstance(b, ast.Name) else []
                    ck.ob("C14.2", fn, v, const_value(v) in (0, 1), f"{label}: constant {which} bound {const_value(v)} is used for discrete (probability-vector) actions only",
                          construct=f"{label}: {which} bound constant {const_value(v)}")
                    continue
                src = ast.unparse(v)
                proj = _projection_depth(v)
                attr = "min_action" if which == "lower" else "max_action"
                ok = f"self.{attr}[" in src and proj <= 1 and not _reduced(v, attr)
                ck.ob("C14.2", fn, v, ok,
                      f"{label}: the {which} clamp bound is the agent's whole bound vector (no projection to its first component)",
                      detail=f"bound = {src[:80]}: for an action space with different bounds per dimension every dimension is clamped with the first one's bound",
                      construct=f"{label}: {which} bound {src[:80]}")
        # noise inside the clamp
        ck.ob("C14.2", fn, c, "action_noise" in ast.unparse(c.args[0]), f"{label}: the exploration noise is inside the clamp")


_BOUND_WRAPPERS = {"torch.as_tensor", "torch.tensor", "torch.from_numpy", "np.asarray", "np.array", "torch.Tensor"}
_BOUND_METHODS = {"to", "float", "clone", "detach", "cpu", "type", "double"}


def _reduced(v: ast.AST, attr: str) -> bool:
    """Is something other than a tensor conversion applied on top of self.<attr>[...] (a reduction over the action dimensions, a cast to a Python scalar)?"""
    cur = v
    while True:
        if isinstance(cur, ast.Call) and call_name(cur) in _BOUND_WRAPPERS and cur.args:
            cur = cur.args[0]
        elif isinstance(cur, ast.Call) and isinstance(cur.func, ast.Attribute) and cur.func.attr in _BOUND_METHODS:
            cur = cur.func.value
        else:
            break
    base = cur
    while isinstance(base, ast.Subscript):
        base = base.value
    return not (isinstance(base, ast.Attribute) and base.attr == attr and dotted(base.value) == "self")


def _projection_depth(v: ast.AST) -> int:
    """Number of subscripts applied on top of self.min_action / self.max_action."""
    best = 0
    for x in ast.walk(v):
        d = 0
        cur = x
        while isinstance(cur, ast.Subscript):
            d += 1
            cur = cur.value
        if isinstance(cur, ast.Attribute) and cur.attr in ("min_action", "max_action"):
            best = max(best, d)
    return best


# ------------------------------------------------------------------------------------------------ C14.3 / C14.5
def _kind(cfg: CFG, e: ast.AST, at: Node, depth: int = 0) -> str:
    if depth > 8:
        return "unknown"
    if isinstance(e, ast.Call):
        if last_attr(e) == "numpy" or call_name(e).startswith("np."):
            return "numpy"
        if call_name(e).startswith("torch.") or last_attr(e) in ("to", "unsqueeze", "squeeze", "clone", "detach"):
            if isinstance(e.func, ast.Attribute) and last_attr(e) in ("to", "unsqueeze", "squeeze", "clone", "detach"):
                return _kind(cfg, e.func.value, at, depth + 1)
            return "torch"
        if last_attr(e) == "get_action":
            return "numpy"  # the agents' get_action returns numpy arrays (checked for PPO / IPPO below)
        return "unknown"
    if isinstance(e, ast.Subscript):
        return _kind(cfg, e.value, at, depth + 1)
    if isinstance(e, ast.IfExp):
        ks = {_kind(cfg, v, at, depth + 1) for _, v in _alts(e)}
        return ks.pop() if len(ks) == 1 else "unknown"
    if isinstance(e, ast.Name):
        ks = set()
        for d in cfg.defs_reaching(at, e.id):
            if d.kind == "for":
                it = d.ast.iter  # type: ignore[attr-defined]
                src = it.func.value if isinstance(it, ast.Call) and isinstance(it.func, ast.Attribute) and it.func.attr in ("items", "values") else it
                ks.add(_kind(cfg, src, d, depth + 1))
                continue
            v = cfg.value_of_def(d, e.id)
            if v is None:
                ks.add("unknown")
            else:
                ks.add(_kind(cfg, v, d, depth + 1))
        return ks.pop() if len(ks) == 1 else "unknown"
    if isinstance(e, ast.Attribute) and isinstance(e.value, ast.Attribute) is False and e.attr == "data":
        return _kind(cfg, e.value, at, depth + 1)
    if isinstance(e, ast.Attribute):
        return _kind(cfg, e.value, at, depth + 1) if e.attr in ("data",) else "unknown"
    if isinstance(e, ast.Dict):
        ks = {_kind(cfg, v, at, depth + 1) for v in e.values}
        return ks.pop() if len(ks) == 1 else "unknown"
    if isinstance(e, ast.DictComp):
        return _kind(cfg, e.value, at, depth + 1)
    return "unknown"


def _policy_gradient(ck: Check, repo: Repo) -> None:
    # the actor's bounds are torch tensors
    sa = repo.fn("agilerl.networks.actors", "StochasticActor.__init__")
    src = ast.unparse(sa.node)
    bounds_torch = "self.action_low = torch.as_tensor(self.action_space.low" in src and "self.action_high = torch.as_tensor(" in src
    ck.note("scale_action_bounds_are_torch_tensors", bounds_torch)
    sites = [("agilerl.algorithms.ppo", "PPO.get_action"), ("agilerl.algorithms.ippo", "IPPO.get_action"),
             ("agilerl.training.train_on_policy", "train_on_policy"), ("agilerl.training.train_multi_agent_on_policy", "train_multi_agent_on_policy")]
    n_sites = 0
    for modname, q in sites:
        fn = repo.fn(modname, q)
        cfg = CFG(fn.node)
        calls = [c for c in calls_in(fn.node) if last_attr(c) == "scale_action"]
        clips = [c for c in calls_in(fn.node) if call_name(c) == "np.clip"]
        for c in calls:
            n_sites += 1
            n = cfg.node_of(c)
            k = _kind(cfg, c.args[0], n)
            ck.ob("C14.5", fn, c, not (k == "numpy" and bounds_torch),
                  f"{q}: scale_action receives a torch tensor (its bounds are torch tensors)",
                  detail=f"the argument `{short(c.args[0], 40)}` is a {k} array at this point: numpy * Tensor raises TypeError, so a squashed policy cannot produce "
                         "an in-bounds action on this path",
                  construct=f"{q}: {short(c, 70)}")
            gs = _guard_facts(cfg, n)
            ck.ob("C14.3", fn, c, any("squash_output" in g and pol for g, pol in gs) and any("spaces.Box" in g and pol for g, pol in gs),
                  f"{q}: squashed continuous actions are rescaled to the action bounds", construct=f"{q}: rescale guard {short(c, 50)}")
        for c in clips:
            n = cfg.node_of(c)
            gs = _guard_facts(cfg, n)
            ok = any("squash_output" in g and not pol for g, pol in gs) and any("spaces.Box" in g and pol for g, pol in gs) and len(c.args) == 3 \
                and dotted(c.args[1]).endswith(".low") and dotted(c.args[2]).endswith(".high") and dotted(c.args[1])[:-4] == dotted(c.args[2])[:-5]
            ck.ob("C14.3", fn, c, ok, f"{q}: un-squashed continuous actions are clipped to the action space's low / high", detail=short(c, 90))
        if q.endswith("get_action"):
            for c in calls + clips:
                n = cfg.node_of(c)
                # (atoms of the known conditions: `not self.training` is the atom self.training with polarity False)
                gs = _guard_facts(cfg, n)
                ck.ob("C14.3", fn, c, any(g == "self.training" and not pol for g, pol in gs),
                      f"{q}: bounds are enforced in evaluation mode (not self.training)", construct=f"{q}: eval-mode guard {short(c, 50)}")
    ck.floor("C14.5", n_sites, 4, "scale_action call sites on the acting path")


def _dqn_wrapper(ck: Check, repo: Repo) -> None:
    fn = repo.fn("agilerl.algorithms.dqn", "DQN.get_action")
    src = ast.unparse(fn.node)
    ck.ob("C14.1", fn, fn.node, has(src, '$action_mask = torch.ones(($_, self.action_dim), device=$_)'), "DQN: no mask means every action is legal (mask of ones)",
          construct="DQN.get_action default mask")
    ck.ob("C14.1", fn, fn.node, has(src, 'self._get_action($torch_obs, $epsilon, $action_mask)'), "DQN: the mask reaches the action selection", construct="DQN.get_action passes mask")
    inner = repo.fn("agilerl.algorithms.dqn", "DQN._get_action")
    s2 = ast.unparse(inner.node)
    icfg = CFG(inner.node)
    wh = [c for c in calls_in(inner.node) if call_name(c) == "torch.where" and len(c.args) == 3 and all(isinstance(a, ast.Name) for a in c.args[1:])]
    okw = False
    for c in wh:
        nd = icfg.node_of(c)
        cands = [[v for _, v, _ in _def_alts(icfg, nd, a.id)] for a in c.args[1:]]
        # both alternatives are arg-max results (every arg-max operand is shown to be masked by the rule above)
        if all(v and all(isinstance(x, ast.Call) and last_attr(x) == "argmax" for x in v) for v in cands) and c.args[1].id != c.args[2].id:
            okw = True
    ck.ob("C14.1", inner, wh[0] if wh else inner.node, okw, "DQN: both the greedy and the exploratory candidate are masked choices",
          construct="DQN._get_action final choice")


_DQ = "agilerl/algorithms/dqn.py"
_RB = "agilerl/algorithms/dqn_rainbow.py"
_CQ = "agilerl/algorithms/cqn.py"
_UCB = "agilerl/algorithms/neural_ucb_bandit.py"
_DD = "agilerl/algorithms/ddpg.py"
_MA = "agilerl/algorithms/maddpg.py"
_PP = "agilerl/algorithms/ppo.py"
_UCB_OLD = "        if action_mask is None:\n            action = np.argmax(action_values)\n        else:\n            inv_mask = 1 - action_mask\n            masked_action_values = np.ma.array(action_values, mask=inv_mask)\n            action = np.argmax(masked_action_values)\n"
_PP_OLD = "        if not self.training and isinstance(self.action_space, spaces.Box):\n            if self.actor.squash_output:\n                action = self.actor.scale_action(action)\n            else:\n                action = np.clip(action, self.action_space.low, self.action_space.high)\n"
_MA_OLD = "                mask = (\n                    1 - np.array(action_masks[agent])\n                    if action_masks[agent] is not None\n                    else None\n                )\n                action: np.ndarray = np.ma.array(action, mask=mask)\n                discrete_action_dict[agent] = action.argmax(axis=-1)\n"
_MA_SET_OLD = "                    discrete_action_dict[agent][agent_masks[agent]] = (\n                        env_defined_actions[agent][agent_masks[agent]]\n                    )\n"
VARIANTS = [
    ("rescale-softsign-filed-under-zero-one", "agilerl/networks/actors.py", '        if output_activation in ["Tanh", "Softsign"]:\n            prescaled_min, prescaled_max = -1.0, 1.0\n        elif output_activation in ["Sigmoid", "Softmax", "GumbelSoftmax"]:',
     '        if output_activation in ["Tanh"]:\n            prescaled_min, prescaled_max = -1.0, 1.0\n        elif output_activation in ["Sigmoid", "Softsign", "Softmax", "GumbelSoftmax"]:', "fire", "C14.10"),
    ("rescale-ranges-by-equality-tests-ok", "agilerl/networks/actors.py", '        if output_activation in ["Tanh", "Softsign"]:\n            prescaled_min, prescaled_max = -1.0, 1.0',
     '        if output_activation == "Tanh" or output_activation == "Softsign":\n            prescaled_min = -1.0\n            prescaled_max = 1.0', "silent", None),
    ("rainbow-noise-mode-from-agent-flag", _RB, "        self.actor.train(mode=training)", "        self.actor.train(mode=self.training)", "fire", "C14.11"),
    ("rainbow-noise-mode-positional-ok", _RB, "        self.actor.train(mode=training)", "        self.actor.train(training)", "silent", None),

    ("ppo-box1-action-gets-extra-axis", "agilerl/algorithms/ppo.py", "        # Clip to action space during inference\n        action = action.cpu().data.numpy()", "        if isinstance(self.action_space, spaces.Box) and self.action_space.shape == (1,):\n            action = action.unsqueeze(1)\n\n        # Clip to action space during inference\n        action = action.cpu().data.numpy()", "fire", "C14.9"),
    ("matd3-clamp-bounds-reduced-to-scalars", "agilerl/algorithms/matd3.py", "                        torch.as_tensor(self.min_action[idx], device=actions.device),\n                        torch.as_tensor(self.max_action[idx], device=actions.device),", "                        float(self.min_action[idx].min()),\n                        float(self.max_action[idx].max()),", "fire", "C14.2"),
    ("ippo-clip-space-by-loop-position", "agilerl/algorithms/ippo.py", "            agent_id = self.homogeneous_agents[shared_id][0]\n            agent_space = self.action_space[agent_id]", "            agent_space = self.action_space[self.agent_ids[idx]]", "fire", "C14.8"),
    ("dqn-mask-polarity", _DQ, "q_values.masked_fill((1 - action_mask).bool(), float(\"-inf\"))", "q_values.masked_fill(action_mask.bool(), float(\"-inf\"))", "fire", "C14.1"),
    ("dqn-mask-by-multiplication", _DQ, "masked_q_values = q_values.masked_fill((1 - action_mask).bool(), float(\"-inf\"))", "masked_q_values = q_values * action_mask", "fire", "C14.1"),
    ("dqn-random-unmasked", _DQ, "masked_random_values = torch.rand_like(q_values) * action_mask", "masked_random_values = torch.rand_like(q_values)", "fire", "C14.1"),
    ("ippo-masks-env-major", "agilerl/algorithms/ippo.py", "action_masks[homo_id] = torch.Tensor(action_masks[homo_id])", "action_masks[homo_id] = torch.as_tensor(np.stack(action_masks[homo_id], axis=-2), dtype=torch.float32)", "fire", "C14.7"),
    ("ippo-masks-stack0-ok", "agilerl/algorithms/ippo.py", "action_masks[homo_id] = torch.Tensor(action_masks[homo_id])", "action_masks[homo_id] = torch.as_tensor(np.stack(action_masks[homo_id], axis=0), dtype=torch.float32)", "silent", None),
    ("cqn-batch-len-container", "agilerl/algorithms/cqn.py", "                batch_size = len(next(iter(obs.values())))", "                batch_size = len(obs)", "fire", "C14.6"),
    ("dqn-batch-inline-ok", "agilerl/algorithms/dqn.py", "                batch_size = torch_obs.size(0)\n\n            action_mask = torch.ones((batch_size, self.action_dim), device=device)", "                batch_size = torch_obs.shape[0]\n\n            action_mask = torch.ones((batch_size, self.action_dim), device=device)", "silent", None),
    ("dqn-where-form-ok", _DQ, "masked_q_values = q_values.masked_fill((1 - action_mask).bool(), float(\"-inf\"))", "masked_q_values = torch.where(action_mask.bool(), q_values, float(\"-inf\"))", "silent", None),
    ("rainbow-mask-not-inverted", _RB, "            inv_mask = 1 - action_mask\n            masked_action_values = np.ma.array(\n                action_values.cpu().data.numpy(), mask=inv_mask\n            )",
     "            masked_action_values = np.ma.array(\n                action_values.cpu().data.numpy(), mask=action_mask\n            )", "fire", "C14.1"),
    ("rainbow-argmax-unmasked", _RB, "            action = np.argmax(masked_action_values, axis=-1)\n\n        self.actor.train()", "            action = np.argmax(action_values.cpu().data.numpy(), axis=-1)\n\n        self.actor.train()", "fire", "C14.1"),
    ("cqn-random-ignores-mask", _CQ, "                        np.random.uniform(0, 1, (batch_size, self.action_dim))\n                        * action_mask\n", "                        np.random.uniform(0, 1, (batch_size, self.action_dim))\n", "fire", "C14.1"),
    ("ucb-mask-not-inverted", _UCB, "            inv_mask = 1 - action_mask\n", "            inv_mask = action_mask\n", "fire", "C14.1"),
    ("ddpg-noise-after-clip", _DD, "        if training:\n            action += self.action_noise()\n\n        return action.clip(self.action_space.low, self.action_space.high)", "        action = action.clip(self.action_space.low, self.action_space.high)\n        if training:\n            action += self.action_noise()\n\n        return action", "fire", "C14.2"),
    ("ddpg-clip-scalar-bound", _DD, "return action.clip(self.action_space.low, self.action_space.high)", "return action.clip(self.action_space.low[0], self.action_space.high[0])", "fire", "C14.2"),
    ("maddpg-first-dim-bound", _MA, "                        torch.as_tensor(self.min_action[idx], device=actions.device),", "                        self.min_action[idx][0],", "fire", "C14.2"),
    ("maddpg-mask-not-inverted", _MA, "                    1 - np.array(action_masks[agent])\n", "                    np.array(action_masks[agent])\n", "fire", "C14.1"),
    ("ppo-clip-in-training-only", _PP, "        if not self.training and isinstance(self.action_space, spaces.Box):", "        if self.training and isinstance(self.action_space, spaces.Box):", "fire", "C14.3"),
    # a choice between two values spelled as an if / else statement instead of a conditional expression (and the other way round) is the same program
    ("maddpg-mask-if-statement-ok", _MA, "                mask = (\n                    1 - np.array(action_masks[agent])\n                    if action_masks[agent] is not None\n                    else None\n                )\n",
     "                if action_masks[agent] is not None:\n                    mask = 1 - np.array(action_masks[agent])\n                else:\n                    mask = None\n", "silent", None),
    ("maddpg-mask-if-none-statement-ok", _MA, "                mask = (\n                    1 - np.array(action_masks[agent])\n                    if action_masks[agent] is not None\n                    else None\n                )\n",
     "                if action_masks[agent] is None:\n                    mask = None\n                else:\n                    mask = 1 - np.array(action_masks[agent])\n", "silent", None),
    ("maddpg-mask-none-first-expression-ok", _MA, "                mask = (\n                    1 - np.array(action_masks[agent])\n                    if action_masks[agent] is not None\n                    else None\n                )\n",
     "                mask = None if action_masks[agent] is None else 1 - np.array(action_masks[agent])\n", "silent", None),
    ("maddpg-mask-if-statement-not-inverted", _MA, "                mask = (\n                    1 - np.array(action_masks[agent])\n                    if action_masks[agent] is not None\n                    else None\n                )\n",
     "                if action_masks[agent] is not None:\n                    mask = np.array(action_masks[agent])\n                else:\n                    mask = None\n", "fire", "C14.1"),
    ("maddpg-mask-if-statement-dropped", _MA, "                mask = (\n                    1 - np.array(action_masks[agent])\n                    if action_masks[agent] is not None\n                    else None\n                )\n",
     "                if action_masks[agent] is not None and self.training:\n                    mask = 1 - np.array(action_masks[agent])\n                else:\n                    mask = None\n", "fire", "C14.1"),
    ("maddpg-mask-expression-dropped", _MA, "                    if action_masks[agent] is not None\n                    else None\n", "                    if action_masks[agent] is not None and self.training\n                    else None\n", "fire", "C14.1"),
    ("maddpg-bounds-conditional-expressions-ok", _MA, "                if self.discrete_actions:\n                    min_action, max_action = 0, 1\n                else:\n                    # Clamp every action dimension with its own bound\n                    min_action, max_action = (\n                        torch.as_tensor(self.min_action[idx], device=actions.device),\n                        torch.as_tensor(self.max_action[idx], device=actions.device),\n                    )\n",
     "                min_action = 0 if self.discrete_actions else torch.as_tensor(self.min_action[idx], device=actions.device)\n                max_action = 1 if self.discrete_actions else torch.as_tensor(self.max_action[idx], device=actions.device)\n", "silent", None),
    ("maddpg-bounds-conditional-expression-first-dim", _MA, "                if self.discrete_actions:\n                    min_action, max_action = 0, 1\n                else:\n                    # Clamp every action dimension with its own bound\n                    min_action, max_action = (\n                        torch.as_tensor(self.min_action[idx], device=actions.device),\n                        torch.as_tensor(self.max_action[idx], device=actions.device),\n                    )\n",
     "                min_action = 0 if self.discrete_actions else self.min_action[idx][0]\n                max_action = 1 if self.discrete_actions else torch.as_tensor(self.max_action[idx], device=actions.device)\n", "fire", "C14.2"),
    ("ddpg-return-conditional-expression-ok", _DD, "        return action.clip(self.action_space.low, self.action_space.high)", "        return action.clip(self.action_space.low, self.action_space.high) if training else action.clip(self.action_space.low, self.action_space.high)", "silent", None),
    ("ddpg-return-if-statement-ok", _DD, "        return action.clip(self.action_space.low, self.action_space.high)", "        if training:\n            return action.clip(self.action_space.low, self.action_space.high)\n        else:\n            return action.clip(self.action_space.low, self.action_space.high)", "silent", None),
    ("ddpg-return-conditional-expression-unclipped", _DD, "        return action.clip(self.action_space.low, self.action_space.high)", "        return action.clip(self.action_space.low, self.action_space.high) if training else action", "fire", "C14.2"),
    ("dqn-candidates-conditional-expression-ok", _DQ, "        masked_policy_actions = torch.argmax(masked_q_values, dim=-1)\n", "        masked_policy_actions = torch.argmax(masked_q_values, dim=-1) if masked_q_values.dim() > 1 else torch.argmax(masked_q_values, dim=0)\n", "silent", None),
    ("dqn-candidates-conditional-expression-unmasked", _DQ, "        masked_policy_actions = torch.argmax(masked_q_values, dim=-1)\n", "        masked_policy_actions = torch.argmax(masked_q_values, dim=-1) if masked_q_values.dim() > 1 else torch.zeros_like(masked_random_actions)\n", "fire", "C14.1"),
    ("ppo-clip-bounds-swapped-space", _PP, "action = np.clip(action, self.action_space.low, self.action_space.high)", "action = np.clip(action, self.observation_space.low, self.action_space.high)", "fire", "C14.3"),
    # round 4: one arg-max over a value that is the masked array on the mask path and the plain values otherwise = two arg-max calls in two branches
    ("ucb-single-argmax-over-optionally-masked-values-ok", _UCB, _UCB_OLD,
     "        if action_mask is not None:\n            action_values = np.ma.array(action_values, mask=1 - action_mask)\n        action = np.argmax(action_values)\n", "silent", None),
    ("ucb-single-argmax-mask-not-inverted", _UCB, _UCB_OLD,
     "        if action_mask is not None:\n            action_values = np.ma.array(action_values, mask=action_mask)\n        action = np.argmax(action_values)\n", "fire", "C14.1"),
    ("ucb-single-argmax-masked-only-sometimes", _UCB, _UCB_OLD,
     "        if action_mask is not None and len(action_values) > 2:\n            action_values = np.ma.array(action_values, mask=1 - action_mask)\n        action = np.argmax(action_values)\n", "fire", "C14.1"),
    # a guard held in a single-definition flag stands for the conjuncts of its definition; `if f and s: A elif f: B` = `if f: if s: A else: B`
    ("ppo-clip-guard-in-flag-ok", _PP, _PP_OLD,
     "        clip_to_space = not self.training and isinstance(self.action_space, spaces.Box)\n        if clip_to_space and self.actor.squash_output:\n            action = self.actor.scale_action(action)\n        elif clip_to_space:\n            action = np.clip(action, self.action_space.low, self.action_space.high)\n", "silent", None),
    ("ppo-clip-guard-in-flag-training-only", _PP, _PP_OLD,
     "        clip_to_space = self.training and isinstance(self.action_space, spaces.Box)\n        if clip_to_space and self.actor.squash_output:\n            action = self.actor.scale_action(action)\n        elif clip_to_space:\n            action = np.clip(action, self.action_space.low, self.action_space.high)\n", "fire", "C14.3"),
    ("ppo-clip-guard-in-flag-arms-not-exclusive", _PP, _PP_OLD,
     "        clip_to_space = not self.training and isinstance(self.action_space, spaces.Box)\n        if clip_to_space:\n            action = np.clip(action, self.action_space.low, self.action_space.high)\n        elif clip_to_space and self.actor.squash_output:\n            action = self.actor.scale_action(action)\n", "fire", "C14.3"),
    ("ppo-clip-guard-in-flag-overwritten", _PP, _PP_OLD,
     "        clip_to_space = not self.training and isinstance(self.action_space, spaces.Box)\n        clip_to_space = clip_to_space or self.training\n        if clip_to_space and self.actor.squash_output:\n            action = self.actor.scale_action(action)\n        elif clip_to_space:\n            action = np.clip(action, self.action_space.low, self.action_space.high)\n", "fire", "C14.3"),
    # values passed directly or through temporaries: the agent's mask read once, the masked array not named, the index of the forced actions named
    ("maddpg-mask-through-temporaries-ok", _MA, _MA_OLD,
     "                legal = action_masks[agent]\n                illegal = None if legal is None else 1 - np.array(legal)\n                chosen = np.ma.array(action, mask=illegal).argmax(axis=-1)\n                discrete_action_dict[agent] = chosen\n", "silent", None),
    ("maddpg-mask-through-temporaries-not-inverted", _MA, _MA_OLD,
     "                legal = action_masks[agent]\n                illegal = None if legal is None else np.array(legal)\n                chosen = np.ma.array(action, mask=illegal).argmax(axis=-1)\n                discrete_action_dict[agent] = chosen\n", "fire", "C14.1"),
    ("maddpg-mask-through-temporaries-dropped-on-other-test", _MA, _MA_OLD,
     "                legal = action_masks[agent]\n                illegal = None if (legal is None or env_defined_actions is None) else 1 - np.array(legal)\n                chosen = np.ma.array(action, mask=illegal).argmax(axis=-1)\n                discrete_action_dict[agent] = chosen\n", "fire", "C14.1"),
    ("maddpg-mask-temporary-rebound", _MA, _MA_OLD,
     "                legal = action_masks[agent]\n                illegal = None if legal is None else 1 - np.array(legal)\n                illegal = None\n                chosen = np.ma.array(action, mask=illegal).argmax(axis=-1)\n                discrete_action_dict[agent] = chosen\n", "fire", "C14.1"),
    ("maddpg-forced-actions-index-temporary-ok", _MA, _MA_SET_OLD,
     "                    forced = agent_masks[agent]\n                    discrete_action_dict[agent][forced] = env_defined_actions[agent][forced]\n", "silent", None),
    ("maddpg-forced-actions-index-temporary-other-rows", _MA, _MA_SET_OLD,
     "                    forced = agent_masks[agent]\n                    discrete_action_dict[agent][forced] = env_defined_actions[agent][~forced]\n", "fire", "C14.1"),
]
