"""C12 — the vectorised multi-agent environment equals N independent environments."""
from __future__ import annotations

import ast
import copy as _copy
from typing import Dict, List, Optional, Set, Tuple

from ..cfg import CFG, Node
from ..core import AnalysisError, Cls, Fn, Repo, call_name, calls_in, const_value, dotted, get_kw, last_attr, short, walk_no_nested
from ..report import Check
from ..terms import Atom, Poly, TermBuilder, mentions, single_atom, walk_atoms

AV = "agilerl.vector.pz_async_vec_env"
PV = "agilerl.vector.pz_vec_env"
WR = "agilerl.wrappers.pettingzoo_wrappers"


def run(ck: Check, repo: Repo) -> None:
    ck.not_decided += ["equality with N independently stepped environments for every interleaving (runtime behaviour)",
                       "dtype/shape equality of the arrays returned"]
    ck.trusted += ["numpy reshape is row-major: row i of reshape((num_envs, *shape)) is the flat range [i*prod(shape), (i+1)*prod(shape))",
                   "multiprocessing pipes deliver messages in order"]
    ck.rule("C12.1", "after an auto-reset the observation published to shared memory is the reset's: the value handed to "
                     "write_to_shared_memory in the step branch has the result of env.reset() among its reaching definitions")
    ck.rule("C12.2", "no dead store in the worker / placeholder / wrapper code: every value computed for a transition is used "
                     "(a rebinding of a loop variable or an overwritten reset result never reaches the caller)")
    ck.rule("C12.3", "sibling agreement of the Dict / Tuple / plain-space branches (placeholder values, shared-memory creation, "
                     "write and read): the same shape expression and dtype source in every branch")
    ck.rule("C12.4", "the auto-reset condition combines termination and truncation per agent before `all` (worker and wrapper)")
    ck.rule("C12.5", "ordering agreement: actions are transposed in self.agents order and the worker reads them by enumerate(agents) of "
                     "the same list; tuple positions agree from env.step through the pipe to step_wait's return value")
    ck.rule("C12.6", "slice agreement: writer slice [i*size, (i+1)*size) with size = prod(shape); buffer length num_envs*prod(shape); "
                     "reader reshapes to (num_envs, *shape)")
    ck.rule("C12.7", "copy mode: with copy=True the observations handed to the caller own their memory (deep copy at the return site, or the "
                     "reader itself allocates), so a later step cannot overwrite an observation already returned")
    worker = repo.fn(AV, "_async_worker")
    ck.rule("C12.8", "seeding: reset(seed=s) with an integer s resets environment i with s + i for EVERY integer (0 included): the 'no seed' case is recognised by "
                     "`seed is None`, not by truthiness")
    ck.rule("C12.9", "info masks are per key: the default mask of a key seen for the first time is allocated for that key (a mask object shared between keys "
                     "marks environments that never reported the key)")
    _seeding(ck, repo)
    _info_masks(ck, repo)
    _copy_mode(ck, repo)
    _reset_obs(ck, repo, worker)
    _dead_stores(ck, repo)
    _siblings(ck, repo)
    _reset_condition(ck, repo, worker)
    _ordering(ck, repo, worker)
    _slices(ck, repo)


# ------------------------------------------------------------------------------------------------
def _branch_nodes(cfg: CFG, fn: Fn, command: str) -> Set[int]:
    """CFG nodes of the `command == "<command>"` branch of the worker loop."""
    for n in cfg.live_nodes():
        if n.kind == "test" and isinstance(n.ast, ast.Compare) and isinstance(n.ast.ops[0], ast.Eq) \
                and const_value(n.ast.comparators[0]) == command and n.true_succ is not None:
            body = n.stmt.body
            ids = set()
            for m in cfg.live_nodes():
                if m.stmt is not None and any(x is m.stmt for b in body for x in ast.walk(b)):
                    ids.add(m.id)
            return ids
    raise AnalysisError(f"_async_worker: branch for command `{command}` not found")


def _env_local(worker: Fn) -> Optional[str]:
    """The worker's local holding the sub-environment: bound to `env_fn()` (env_fn is a parameter of the worker).
    None when there is no such local: nothing then counts as a call on the sub-environment and the obligations fail."""
    names = {n.targets[0].id for n in walk_no_nested(worker.node) if isinstance(n, ast.Assign) and len(n.targets) == 1
             and isinstance(n.targets[0], ast.Name) and isinstance(n.value, ast.Call) and call_name(n.value) == "env_fn"}
    return names.pop() if len(names) == 1 else None


def _is_env_call(env: str, method: str):
    """Atom predicate: a call of <env local>.<method>(...)."""
    def pred(a: Atom) -> bool:
        return a.kind == "call" and a.name == method and isinstance(a.node, ast.Call) and dotted(a.node.func) == f"{env}.{method}"
    return pred


def _reset_obs(ck: Check, repo: Repo, worker: Fn) -> None:
    cfg = CFG(worker.node)
    tb = TermBuilder(repo, worker, cfg=cfg, depth=0)
    env = _env_local(worker)
    _is_env_reset = _is_env_call(env, "reset")
    step_ids = _branch_nodes(cfg, worker, "step")
    reset_ids = _branch_nodes(cfg, worker, "reset")
    writes = [c for c in calls_in(worker.node) if call_name(c) == "write_to_shared_memory"]
    ck.floor("C12.1", len(writes), 2, "write_to_shared_memory calls in the worker", fn=worker)
    resets_in_step = [c for c in calls_in(worker.node) if dotted(c.func) == f"{env}.reset" and cfg.node_of(c) is not None and cfg.node_of(c).id in step_ids]
    ck.ob("C12.1", worker, resets_in_step[0] if resets_in_step else worker.node, len(resets_in_step) >= 1,
          "the step branch resets the sub-environment when its episode is over", construct="env.reset() in step branch")
    for w in writes:
        n = cfg.node_of(w)
        if n is None:
            continue
        obs = get_kw(w, "observation", 1)
        t = tb.term(obs, n)
        if n.id in step_ids:
            ok = mentions(tb, t, _is_env_reset)
            ck.ob("C12.1", worker, w, ok,
                  "on the auto-reset path the published observation derives from env.reset()",
                  detail="the observation written to shared memory derives only from env.step(): the result of env.reset() is "
                         "overwritten before use, so the caller sees the terminal observation and never the first observation "
                         "of the new episode" if not ok else "env.reset() is among the reaching definitions")
            ok2 = mentions(tb, t, _is_env_call(env, "step"))
            ck.ob("C12.1", worker, w, ok2, "on the ordinary path the published observation derives from env.step()")
            ck.ob("C12.1", worker, w, dotted(w.args[0]) == "index" if w.args else False, "the worker writes into its own slot (index)")
        elif n.id in reset_ids:
            ok = mentions(tb, t, _is_env_reset)
            ck.ob("C12.1", worker, w, ok, "the reset command publishes the reset observation")
    # reward / terminated / truncated sent after an auto-reset are those of the terminal step
    sends = [c for c in calls_in(worker.node) if call_name(c) == "pipe.send" and cfg.node_of(c) is not None and cfg.node_of(c).id in step_ids]
    for s in sends:
        n = cfg.node_of(s)
        payload = s.args[0].elts[0] if isinstance(s.args[0], ast.Tuple) else None
        if isinstance(payload, ast.Tuple) and len(payload.elts) == 4:
            for k, e in enumerate(payload.elts[:3]):
                t = tb.term(e, n)
                ok = mentions(tb, t, lambda a: a.kind == "call" and a.name == "step") and not (
                    mentions(tb, t, _is_env_reset) and not mentions(tb, t, lambda a: a.kind == "call" and a.name == "step"))
                ck.ob("C12.1", worker, e, ok, f"element {k} of the step result sent to the parent (reward/terminated/truncated) comes from env.step()")


# ------------------------------------------------------------------------------------------------
def dead_stores(fn: Fn) -> List[Tuple[Node, str]]:
    """Strong definitions of local names whose value reaches no use."""
    cfg = CFG(fn.node)
    rd = cfg.reaching()
    used: Set[Tuple[int, str]] = set()
    for n in cfg.live_nodes():
        names = set()
        for x in n.walk():
            if isinstance(x, ast.Name) and isinstance(x.ctx, ast.Load):
                names.add(x.id)
            # augmented assignment reads its target
        if n.kind == "stmt" and isinstance(n.ast, ast.AugAssign) and isinstance(n.ast.target, ast.Name):
            names.add(n.ast.target.id)
        # weak updates (x[k] = v, x.append) read x
        for k, strong in cfg.defs_at(n):
            if not strong and "." not in k:
                names.add(k)
        for nm in names:
            for d in rd.get(n.id, {}).get(nm, ()):
                used.add((d, nm))
    # names used in nested functions/lambdas/comprehensions defined later are conservatively "used"
    nested_names: Set[str] = set()
    for x in ast.walk(fn.node):
        if isinstance(x, (ast.Lambda, ast.FunctionDef, ast.AsyncFunctionDef)) and x is not fn.node:
            for y in ast.walk(x):
                if isinstance(y, ast.Name):
                    nested_names.add(y.id)
    out = []
    for n in cfg.live_nodes():
        if n.kind not in ("stmt",):
            continue
        if not isinstance(n.ast, (ast.Assign, ast.AnnAssign)):
            continue
        for k, strong in cfg.defs_at(n):
            if not strong or "." in k or k.startswith("_") or k in nested_names:
                continue
            if (n.id, k) not in used:
                out.append((n, k))
    return out


def _dead_stores(ck: Check, repo: Repo) -> None:
    table = [
        repo.fn(AV, "_async_worker"),
        repo.fn(AV, "process_transition"),
        repo.fn(AV, "get_placeholder_value"),
        repo.fn(AV, "write_to_shared_memory"),
        repo.fn(WR, "PettingZooAutoResetParallelWrapper.step"),
        repo.fn(PV, "PettingZooVecEnv.step"),
        repo.fn(AV, "AsyncPettingZooVecEnv.step_wait"),
    ]
    for fn in table:
        ds = dead_stores(fn)
        # unpacking idiom: a tuple target where some elements are used is fine only for the unused *siblings* named `_...`;
        # an element of a multi-target unpack that is never used is still reported when ALL targets of the statement are dead
        by_node: Dict[int, List[str]] = {}
        for n, k in ds:
            by_node.setdefault(n.id, []).append(k)
        reported = False
        cfg_nodes = {n.id: n for n, _ in ds}
        for nid, names in by_node.items():
            n = cfg_nodes[nid]
            all_defs = [k for k, s in CFG.target_keys(n.ast.targets[0] if isinstance(n.ast, ast.Assign) else n.ast.target)]
            if set(names) != set(all_defs):
                continue  # partially used unpack: not a dead statement
            reported = True
            ck.ob("C12.2", fn, n.ast, False,
                  f"the value assigned to {names} in {fn.qualname} is used",
                  detail=f"no use of {names} is reached by this definition: the computed value is thrown away "
                         "(placeholders for departed agents / the observation of the new episode never reach the caller)")
        if not reported:
            ck.ob("C12.2", fn, fn.node, True, f"{fn.qualname}: every assigned value reaches a use", construct=f"dead stores in {fn.qualname}: none")
    # process_transition: the completed per-agent dict must be what is returned
    pt = repo.fn(AV, "process_transition")
    cfg = CFG(pt.node)
    tb = TermBuilder(repo, pt, cfg=cfg, depth=0)
    rets = [n for n in cfg.live_nodes() if n.kind == "stmt" and isinstance(n.ast, ast.Return) and n.ast.value is not None]
    for r in rets:
        t = tb.term(r.ast.value, r)
        ok = mentions(tb, t, lambda a: a.kind == "call" and a.name == "get_placeholder_value") or \
            mentions(tb, t, lambda a: a.kind == "comp" and "get_placeholder_value" in a.key)
        ck.ob("C12.2", pt, r.ast, ok, "what process_transition returns contains the placeholder-completed per-agent dictionaries",
              detail="the returned list derives only from the input tuple: agents that left the episode stay missing" if not ok else "")


# ------------------------------------------------------------------------------------------------
class _Norm(ast.NodeTransformer):
    def __init__(self, space_names: Set[str], key_names: Set[str], local_names: Optional[Dict[str, str]] = None):
        self.space_names = space_names
        self.key_names = key_names
        self.local_names = local_names or {}

    def visit_Name(self, node: ast.Name):
        if node.id in self.space_names:
            return ast.copy_location(ast.Name(id="S", ctx=node.ctx), node)
        if node.id in self.local_names:
            return ast.copy_location(ast.Name(id=self.local_names[node.id], ctx=node.ctx), node)
        return node

    def visit_Subscript(self, node: ast.Subscript):
        node = self.generic_visit(node)
        # container[key] with a key variable of the branch -> the bare container (member selection)
        if isinstance(node.slice, ast.Name) and node.slice.id in self.key_names:
            return node.value
        return node

    def visit_Attribute(self, node: ast.Attribute):
        node = self.generic_visit(node)
        # <S>.spaces[i] handled by Subscript; agent_space.spaces[i] -> S
        return node


def _norm(e: ast.AST, spaces_: Set[str], keys: Set[str], locals_: Optional[Dict[str, str]] = None) -> str:
    t = _Norm(spaces_, keys, locals_).visit(_copy.deepcopy(e))
    s = ast.unparse(t)
    for sp in list(spaces_):
        s = s.replace(f"{sp}.spaces", "S")
    s = s.replace("S.spaces", "S")
    return s


class _Subst(ast.NodeTransformer):
    def __init__(self, env: Dict[str, ast.AST]):
        self.env = env

    def visit_Name(self, node: ast.Name):
        if isinstance(node.ctx, ast.Load) and node.id in self.env:
            return _copy.deepcopy(self.env[node.id])
        return node


def _resolved_steps(stmts: List[ast.stmt]) -> List[ast.stmt]:
    """The statements of one branch with its temporaries resolved (def-use): a local bound exactly once in the branch, by a plain
    `name = value` statement of the branch's own statement list, whose value reads nothing that the branch rebinds, is replaced by that
    value in the statements after it, and the binding itself is dropped when something after it reads the local.  What remains are the
    steps with an effect, written over the branch's inputs: how many temporaries a branch spreads one step over makes no difference."""
    stores: Dict[str, int] = {}
    for s in stmts:
        for x in ast.walk(s):
            if isinstance(x, ast.Name) and isinstance(x.ctx, (ast.Store, ast.Del)):
                stores[x.id] = stores.get(x.id, 0) + 1
            elif isinstance(x, ast.AugAssign) and isinstance(x.target, ast.Name):
                stores[x.target.id] = stores.get(x.target.id, 0) + 1
    env: Dict[str, ast.AST] = {}
    out: List[ast.stmt] = []
    for k, s in enumerate(stmts):
        s = _Subst(env).visit(_copy.deepcopy(s))
        if isinstance(s, ast.Assign) and len(s.targets) == 1 and isinstance(s.targets[0], ast.Name) and stores.get(s.targets[0].id) == 1:
            name = s.targets[0].id
            read_later = any(isinstance(x, ast.Name) and x.id == name and isinstance(x.ctx, ast.Load) for t in stmts[k + 1:] for x in ast.walk(t))
            stable = not any(isinstance(x, ast.Name) and x.id in stores for x in ast.walk(s.value))
            if read_later and stable:
                env[name] = s.value
                continue
        out.append(s)
    return out


def _space_local(fn: Fn, container: str) -> Optional[str]:
    """The local of fn holding one agent's space: bound to `<container>[...]`, or the value variable of a loop over
    `<container>.items()` (`container` is a parameter of fn or an attribute of self)."""
    for n in ast.walk(fn.node):
        if isinstance(n, ast.Assign) and len(n.targets) == 1 and isinstance(n.targets[0], ast.Name) \
                and isinstance(n.value, ast.Subscript) and dotted(n.value.value) == container:
            return n.targets[0].id
        if isinstance(n, ast.For) and isinstance(n.iter, ast.Call) and dotted(n.iter.func) == f"{container}.items" \
                and isinstance(n.target, ast.Tuple) and len(n.target.elts) == 2 and isinstance(n.target.elts[1], ast.Name):
            return n.target.elts[1].id
    return None


def _branches_by_space_kind(fn: Fn, space_var: Optional[str]) -> Dict[str, List[ast.stmt]]:
    """Bodies of `if isinstance(<space_var>, spaces.Dict) / elif Tuple / else` in fn."""
    out: Dict[str, List[ast.stmt]] = {}
    if space_var is None:
        return out
    for n in ast.walk(fn.node):
        if isinstance(n, ast.If) and isinstance(n.test, ast.Call) and call_name(n.test) == "isinstance" and dotted(n.test.args[0]) == space_var \
                and dotted(n.test.args[1]).endswith("Dict"):
            out["Dict"] = n.body
            rest = n.orelse
            if len(rest) == 1 and isinstance(rest[0], ast.If) and dotted(rest[0].test.args[1]).endswith("Tuple"):
                out["Tuple"] = rest[0].body
                out["plain"] = rest[0].orelse
            else:
                out["plain"] = rest
            return out
    return out


def _siblings(ck: Check, repo: Repo) -> None:
    # (1) placeholder values
    gp = repo.fn(AV, "get_placeholder_value")
    br = _branches_by_space_kind(gp, _space_local(gp, "obs_spaces"))
    ck.floor("C12.3", len(br), 3, "space-kind branches in get_placeholder_value")
    forms = {}
    for kind, body in br.items():
        calls = [c for s in body for c in calls_in(s) if call_name(c).startswith("np.")]
        if not calls:
            forms[kind] = "<none>"
            continue
        c = calls[0]
        arg = c.args[0] if c.args else None
        forms[kind] = f"{call_name(c)}(<space>.{arg.attr})" if isinstance(arg, ast.Attribute) else f"{call_name(c)}({short(arg, 30)})"
    ref = forms.get("Dict")
    for kind, f in forms.items():
        ck.ob("C12.3", gp, br[kind][0] if br[kind] else gp.node, f == ref and f == "np.ones(<space>.shape)",
              f"placeholder for a {kind} space is built like its siblings: an array of the member space's shape",
              detail=f"{kind}: {f}; Dict: {ref} — `np.ones_like(x.shape)` has the shape *of the shape tuple* (rank-1, length = rank), not the space's shape",
              construct=f"placeholder form for {kind}: {f}")
    # (2) write_to_shared_memory
    wf = repo.fn(AV, "write_to_shared_memory")
    wsp = _space_local(wf, "obs_space")
    br = _branches_by_space_kind(wf, wsp)
    ck.floor("C12.3", len(br), 3, "space-kind branches in write_to_shared_memory")
    normed: Dict[str, List[str]] = {}
    for kind, body in br.items():
        stmts = body
        keys: Set[str] = set()
        sp: Set[str] = {wsp}
        if len(body) == 1 and isinstance(body[0], ast.For):
            stmts = body[0].body
            for t in ast.walk(body[0].target):
                if isinstance(t, ast.Name):
                    keys.add(t.id)
            # the member-space variable is the last loop target
            tg = body[0].target
            last = tg.elts[-1] if isinstance(tg, ast.Tuple) else tg
            if isinstance(last, ast.Name):
                sp.add(last.id)
                keys.discard(last.id)
        # temporaries are resolved first: the steps are compared over the branch's inputs, whatever the number of statements
        stmts = _resolved_steps(stmts)
        # the remaining locals bound inside the branch are numbered in order of first binding: their spelling is irrelevant
        bound =sorted((x for s in stmts for x in ast.walk(s) if isinstance(x, ast.Name) and isinstance(x.ctx, ast.Store)),
                       key=lambda x: (x.lineno, x.col_offset))
        loc: Dict[str, str] = {}
        for x in bound:
            if x.id not in sp and x.id not in keys:
                loc.setdefault(x.id, f"L{len(loc)}")
        normed[kind] = [_norm(s, sp, keys, loc) for s in stmts]
    ref_l = normed.get("plain", [])
    for kind, l in normed.items():
        ck.ob("C12.3", wf, br[kind][0], l == ref_l,
              f"the {kind} branch of write_to_shared_memory performs the same steps per member space as the plain branch",
              detail=f"{kind}: {l} vs plain: {ref_l}", construct=f"write_to_shared_memory {kind} branch (normalised)")
    # (3) create_shared_memory: each branch allocates through _create_memory_array(num_envs, <member space>, context)
    cf = repo.fn(AV, "create_shared_memory")
    br = _branches_by_space_kind(cf, _space_local(cf, "obs_spaces"))
    ck.floor("C12.3", len(br), 3, "space-kind branches in create_shared_memory")
    for kind, body in br.items():
        calls = [c for s in body for c in calls_in(s) if call_name(c) == "_create_memory_array"]
        ok = len(calls) == 1 and dotted(calls[0].args[0]) == "num_envs" and dotted(calls[0].args[2]) == "context"
        ck.ob("C12.3", cf, body[0], ok, f"the {kind} branch allocates one array per member space through _create_memory_array(num_envs, space, context)")
    # (4) reader: Observations.__getitem__ reshapes every member to (num_envs, *shape) with the scalar-shape fallback
    gi = repo.fn(AV, "Observations.__getitem__")
    br = _branches_by_space_kind(gi, _space_local(gi, "self.obs_spaces"))
    ck.floor("C12.3", len(br), 3, "space-kind branches in Observations.__getitem__")
    for kind, body in br.items():
        resh = [c for s in body for c in calls_in(s, nested=True) if last_attr(c) == "reshape"]
        ok = bool(resh)
        for c in resh:
            a = c.args[0]
            ok = ok and isinstance(a, ast.Tuple) and dotted(a.elts[0]) == "self.num_envs" and isinstance(a.elts[1], ast.Starred)
        ck.ob("C12.6", gi, resh[0] if resh else body[0], ok, f"the {kind} branch of the reader reshapes to (num_envs, *member shape)")
        ast_t = [c for s in body for c in calls_in(s, nested=True) if last_attr(c) == "astype"]
        ok = bool(ast_t) and all(isinstance(c.args[0], ast.Attribute) and c.args[0].attr == "dtype" for c in ast_t)
        ck.ob("C12.3", gi, ast_t[0] if ast_t else body[0], ok, f"the {kind} branch of the reader returns the member space's dtype")


# ------------------------------------------------------------------------------------------------
def _per_agent_or(arg: ast.AST) -> Tuple[bool, str]:
    """Is `arg` (the argument of all()/np.all()) a per-agent combination of termination and truncation?"""
    if isinstance(arg, (ast.ListComp, ast.GeneratorExp)):
        elt = arg.elt
        gens = arg.generators
        if len(gens) == 1 and isinstance(gens[0].iter, ast.Call) and call_name(gens[0].iter) == "zip" and len(gens[0].iter.args) == 2:
            srcs = [ast.unparse(a) for a in gens[0].iter.args]
            tnames = [t.id for t in gens[0].target.elts] if isinstance(gens[0].target, ast.Tuple) else []
            comb = (isinstance(elt, ast.BinOp) and isinstance(elt.op, ast.BitOr)) or (isinstance(elt, ast.BoolOp) and isinstance(elt.op, ast.Or))
            used = {x.id for x in ast.walk(elt) if isinstance(x, ast.Name)}
            if comb and set(tnames) <= used and len(tnames) == 2 and all(".values()" in s for s in srcs) and srcs[0] != srcs[1]:
                return True, f"per-agent `{ast.unparse(elt)}` over zip({', '.join(srcs)})"
        # comprehension over agents with dict lookups
        if isinstance(elt, (ast.BinOp, ast.BoolOp)) and len(gens) == 1:
            subs = [x for x in ast.walk(elt) if isinstance(x, ast.Subscript)]
            if len({dotted(s.value) for s in subs}) == 2:
                return True, f"per-agent `{ast.unparse(elt)}`"
        return False, f"comprehension `{short(arg, 80)}` does not combine the two flags of one agent"
    if isinstance(arg, ast.Call) and call_name(arg) in ("np.logical_or", "np.bitwise_or") and len(arg.args) == 2:
        return True, "element-wise logical_or of two arrays"
    if isinstance(arg, ast.BinOp) and isinstance(arg.op, ast.BitOr):
        return True, "element-wise | of two arrays"
    if isinstance(arg, ast.BoolOp) and isinstance(arg.op, ast.Or):
        return False, ("Python `or` between two collections evaluates to the first non-empty one: truncation flags are never looked at "
                       "(an episode that ends by truncation only is never reset)")
    return False, f"unrecognised form `{short(arg, 80)}`"


class _Scope:
    """Where an expression is evaluated: the CFG of one function and, inside a local helper, the binding of the helper's parameters to the
    argument expressions of the call (each evaluated in the caller's scope at the node of the call).  A helper is a function the call denotes
    without any knowledge of the library: a function nested in the calling function, a function of the caller's module, or (`self.f(...)`) a
    method of the caller's class."""

    MAX_LEVEL = 3

    def __init__(self, repo: Repo, owner: Fn, node: ast.AST, bind: Optional[Dict[str, tuple]] = None, outer: Optional[tuple] = None, level: int = 0):
        self.repo, self.owner, self.node = repo, owner, node
        self.cfg = CFG(node)
        self.bind = bind or {}
        self.outer = outer  # (scope, node) of the call, for a nested helper that reads variables of the enclosing function
        self.level = level

    def callee(self, call: ast.Call) -> Optional[ast.AST]:
        f = call.func
        if isinstance(f, ast.Name):
            for root in (self.node, self.owner.node):
                nested = [x for x in ast.walk(root) if isinstance(x, (ast.FunctionDef, ast.AsyncFunctionDef)) and x is not root and x.name == f.id]
                if nested:
                    return nested[0] if len(nested) == 1 else None
            if any(isinstance(x, ast.Name) and x.id == f.id and isinstance(x.ctx, ast.Store) for x in ast.walk(self.node)):
                return None  # a local of that name hides the module's function
            m = self.owner.mod.functions.get(f.id)
            return m.node if m is not None else None
        if isinstance(f, ast.Attribute) and isinstance(f.value, ast.Name) and f.value.id in ("self", "cls") and self.owner.cls is not None:
            m = self.repo.find_method(self.owner.cls, f.attr)
            return m.node if m is not None else None
        return None

    def enter(self, fd: ast.AST, call: ast.Call, at: Node) -> Optional["_Scope"]:
        """The scope of the helper's body for this call; None when the arguments cannot be matched to parameters one by one."""
        if self.level >= self.MAX_LEVEL or fd is self.node:
            return None
        a = fd.args
        params = [x.arg for x in a.posonlyargs + a.args]
        static = any(dotted(d) == "staticmethod" for d in fd.decorator_list)
        if isinstance(call.func, ast.Attribute) and not static:
            params = params[1:]
        if a.vararg or a.kwarg or any(isinstance(x, ast.Starred) for x in call.args) or any(k.arg is None for k in call.keywords) \
                or len(call.args) > len(params):
            return None
        bind: Dict[str, tuple] = {p: (self, at, v) for p, v in zip(params, call.args)}
        names = params + [x.arg for x in a.kwonlyargs]
        for k in call.keywords:
            if k.arg not in names or k.arg in bind:
                return None
            bind[k.arg] = (self, at, k.value)
        # (a parameter left to its default is not bound: a default is evaluated at definition time and carries no flag)
        nested = any(x is fd for x in ast.walk(self.node))
        return _Scope(self.repo, self.owner, fd, bind, (self, at) if nested else None, self.level + 1)

    def returns(self) -> List[Tuple[Node, ast.AST]]:
        return [(n, n.ast.value) for n in self.cfg.live_nodes() if n.kind == "stmt" and isinstance(n.ast, ast.Return) and n.ast.value is not None]

    def helper_body(self, call: ast.AST, at: Node) -> Optional[Tuple["_Scope", str]]:
        if not isinstance(call, ast.Call):
            return None
        fd = self.callee(call)
        inner = self.enter(fd, call, at) if fd is not None else None
        return (inner, fd.name) if inner is not None else None


def _step_flags(sc: _Scope, at: Node, e: ast.AST, depth: int = 3) -> Set[int]:
    """Which of the per-agent flag dictionaries returned by `<env>.step(...)` (position 2: termination, position 3:
    truncation) the expression `e` evaluated at node `at` is computed from, following local definitions; the value of a call of a local
    helper is computed from what the helper returns, with its parameters standing for the arguments."""
    out: Set[int] = set()
    cfg = sc.cfg
    bound = {t.id for x in ast.walk(e) if isinstance(x, ast.comprehension) for t in ast.walk(x.target) if isinstance(t, ast.Name)}
    stack = [e]
    while stack:
        x = stack.pop()
        inner = sc.helper_body(x, at)
        if inner is not None:
            for r, v in inner[0].returns():
                out |= _step_flags(inner[0], r, v, depth)
            continue
        stack.extend(ast.iter_child_nodes(x))
        if not (isinstance(x, ast.Name) and isinstance(x.ctx, ast.Load)) or x.id in bound:
            continue
        defs = cfg.defs_reaching(at, x.id)
        if not defs and sc.outer is not None:
            # a variable of the enclosing function read by a nested helper
            out |= _step_flags(sc.outer[0], sc.outer[1], x, depth)
        for d in defs:
            if d.kind == "entry":
                if x.id in sc.bind:
                    csc, cat, arg = sc.bind[x.id]
                    out |= _step_flags(csc, cat, arg, depth)
                continue
            v = cfg.value_of_def(d, x.id)
            if isinstance(v, ast.Subscript) and _is_step_result(cfg, d, v.value):
                # element k of the step result (tuple unpacking is encoded as <call>[k] by value_of_def)
                if const_value(v.slice) in (2, 3):
                    out.add(const_value(v.slice))
            elif v is not None and depth > 0:
                out |= _step_flags(sc, d, v, depth - 1)
    return out


def _is_step_result(cfg: CFG, at: Node, e: ast.AST) -> bool:
    """`<env>.step(...)` itself, or a local bound only to such a call."""
    if isinstance(e, ast.Call):
        return isinstance(e.func, ast.Attribute) and e.func.attr == "step"
    if isinstance(e, ast.Name):
        defs = cfg.defs_reaching(at, e.id)
        return bool(defs) and all(isinstance(cfg.value_of_def(d, e.id), ast.Call) and _is_step_result(cfg, d, cfg.value_of_def(d, e.id)) for d in defs)
    return False


def _single_value(sc: _Scope, at: Node, e: ast.AST) -> Optional[Tuple[_Scope, Node, ast.AST]]:
    """The expression a name stands for: its only reaching definition when that is a plain binding, or the argument a helper's parameter
    is bound to."""
    if not isinstance(e, ast.Name):
        return None
    defs = sc.cfg.defs_reaching(at, e.id)
    if len(defs) != 1:
        return None
    if defs[0].kind == "entry":
        return sc.bind.get(e.id)
    v = sc.cfg.value_of_def(defs[0], e.id)
    return (sc, defs[0], v) if v is not None else None


def _episode_over(sc: _Scope, at: Node, e: ast.AST, hops: int = 6) -> Tuple[bool, str]:
    """Does the condition `e` (evaluated at `at`) say 'every agent is terminated or truncated'?  Temporaries holding the condition or the
    combined flags are looked through; a call of a local helper is judged by every value the helper returns."""
    sv = _single_value(sc, at, e) if hops > 0 else None
    if sv is not None:
        return _episode_over(sv[0], sv[1], sv[2], hops - 1)
    if isinstance(e, ast.Call) and call_name(e) in ("all", "np.all") and e.args:
        arg = e.args[0]
        for _ in range(hops):
            # a temporary holding the combined flags: judge the expression it is bound to
            sv = _single_value(sc, at, arg)
            if sv is None:
                break
            sc, at, arg = sv
        return _per_agent_or(arg)
    inner = sc.helper_body(e, at) if hops > 0 else None
    if inner is not None:
        rets = inner[0].returns()
        verdicts = [_episode_over(inner[0], r, v, hops - 1) for r, v in rets]
        bad = [w for ok, w in verdicts if not ok]
        if not rets or bad:
            return False, f"`{inner[1]}`: " + (bad[0] if bad else "returns no value")
        return True, f"`{inner[1]}`: {verdicts[0][1]}"
    if isinstance(e, ast.BoolOp):
        return False, (f"`{short(e, 90)}` quantifies over the agents separately for each flag: an episode in which some agents terminated and "
                       "the others were only truncated is over, but neither all(...) holds, so it is never reset")
    return False, f"unrecognised reset condition `{short(e, 80)}`"


def _reset_guards(sc: _Scope, fn: Fn) -> List[Tuple[ast.AST, bool, Node]]:
    """(condition, polarity, test node) of every test on the agents' flags whose outcome decides whether a `reset` call of fn is
    executed: `if` statements through the CFG (so `if c: reset` and `if not c: return` + reset are the same site) and conditional
    expressions around the call inside its own statement."""
    out: List[Tuple[ast.AST, bool, Node]] = []
    seen: Set[int] = set()
    for c in calls_in(fn.node):
        n = sc.cfg.node_of(c) if last_attr(c) == "reset" else None
        if n is None:
            continue
        guards = list(sc.cfg.guards_at(n))
        for x in n.walk():
            if isinstance(x, ast.IfExp):
                in_body, in_else = any(y is c for y in ast.walk(x.body)), any(y is c for y in ast.walk(x.orelse))
                if in_body != in_else:
                    g, pol = x.test, in_body
                    while isinstance(g, ast.UnaryOp) and isinstance(g.op, ast.Not):
                        g, pol = g.operand, not pol
                    guards.append((g, pol, n))
        for g, pol, t in guards:
            if id(g) not in seen and _step_flags(sc, t, g):
                seen.add(id(g))
                out.append((g, pol, t))
    return out


def _reset_condition(ck: Check, repo: Repo, worker: Fn) -> None:
    sites = []
    for fn in (worker, repo.fn(WR, "PettingZooAutoResetParallelWrapper.step")):
        sc = _Scope(repo, fn, fn.node)
        guards = _reset_guards(sc, fn)
        sites += [(fn, sc, g) for g in guards]
        ck.ob("C12.4", fn, fn.node, bool(guards), f"{fn.qualname}: restarts the episode under a condition on the agents' termination / truncation flags",
              construct=f"{fn.qualname}: auto-reset site")
    for fn, sc, (cond, pol, t) in sites:
        if pol:
            ok, why = _episode_over(sc, t, cond)
        else:
            ok, why = False, f"the episode is restarted when `{short(cond, 80)}` does NOT hold"
        ck.ob("C12.4", fn, cond, ok, f"{fn.qualname}: an episode is over when every agent is terminated or truncated (combined per agent)", detail=why)
        ck.ob("C12.4", fn, cond, _step_flags(sc, t, cond) == {2, 3}, f"{fn.qualname}: both termination and truncation flags enter the condition")


# ------------------------------------------------------------------------------------------------
def _ordering(ck: Check, repo: Repo, worker: Fn) -> None:
    st = repo.fn(PV, "PettingZooVecEnv.step")
    apps = [c for c in calls_in(st.node) if last_attr(c) == "append" and isinstance(c.func.value, ast.Subscript)]
    ck.floor("C12.5", len(apps), 1, "per-environment append in PettingZooVecEnv.step", fn=st)
    agent_loops = [n for n in ast.walk(st.node) if isinstance(n, ast.For) and dotted(n.iter) == "self.agents"]
    env_loops = [n for n in ast.walk(st.node) if isinstance(n, ast.For) and isinstance(n.iter, ast.Call) and call_name(n.iter) == "enumerate"]
    ok = len(agent_loops) == 1 and len(env_loops) == 1 and any(x is agent_loops[0] for x in ast.walk(env_loops[0]))
    ck.ob("C12.5", st, agent_loops[0] if agent_loops else st.node, ok, "per environment, actions are listed in self.agents order")
    if ok:
        avar = agent_loops[0].target.id
        evar = env_loops[0].target.elts[0].id
        # the per-environment action lists: the local handed to self.step_async(...)
        handed = {dotted(c.args[0]) for c in calls_in(st.node) if call_name(c) == "self.step_async" and c.args and isinstance(c.args[0], ast.Name)}
        for c in apps:
            okc = dotted(c.func.value.value) in handed and dotted(c.func.value.slice) == evar
            ck.ob("C12.5", st, c, okc, "the action is appended to the list of its own environment index")
        cfg = CFG(st.node)
        tb = TermBuilder(repo, st, cfg=cfg, depth=0)
        for c in apps:
            n = cfg.node_of(c)
            subs = [x for x in ast.walk(cfg.value_of_def(cfg.defs_reaching(n, dotted(c.args[0]))[0], dotted(c.args[0])))
                    if isinstance(x, ast.Subscript)] if isinstance(c.args[0], ast.Name) and cfg.defs_reaching(n, c.args[0].id) else []
            inner = [x for x in subs if isinstance(x.value, ast.Subscript)]
            okv = bool(inner) and all(dotted(x.value.value) == "actions" and dotted(x.value.slice) == avar and dotted(x.slice) == evar for x in inner)
            ck.ob("C12.5", st, c, okv, "the appended action is actions[agent][env_idx] of the same agent and environment",
                  detail=f"reads: {[ast.unparse(x) for x in inner]}")
    # worker: data[idx] for idx, possible_agent in enumerate(agents)
    cfgw = CFG(worker.node)
    comps = [n for n in ast.walk(worker.node) if isinstance(n, ast.DictComp) and isinstance(n.generators[0].iter, ast.Call)
             and call_name(n.generators[0].iter) == "enumerate"]
    # the command's payload: the second element unpacked from pipe.recv() (pipe is a parameter of the worker)
    payloads = {n.targets[0].elts[1].id for n in walk_no_nested(worker.node) if isinstance(n, ast.Assign) and isinstance(n.targets[0], ast.Tuple)
                and len(n.targets[0].elts) == 2 and isinstance(n.targets[0].elts[1], ast.Name)
                and isinstance(n.value, ast.Call) and call_name(n.value) == "pipe.recv"}
    ok = False
    for dc in comps:
        g = dc.generators[0]
        if not any(dotted(x.value) in payloads for x in ast.walk(dc.value) if isinstance(x, ast.Subscript)):
            continue
        if isinstance(g.target, ast.Tuple):
            ivar, avar = g.target.elts[0].id, g.target.elts[1].id
            ok = dotted(g.iter.args[0]) == "agents" and dotted(dc.key) == avar and \
                all(dotted(x.slice) == ivar for x in ast.walk(dc.value) if isinstance(x, ast.Subscript) and dotted(x.value) in payloads)
            ck.ob("C12.5", worker, dc, ok, "the worker assigns position k of the action list to agent k of `agents` (the list it was given, in its order)",
                  detail=f"enumerates {short(g.iter.args[0], 60)}")
    ck.ob("C12.5", worker, worker.node, bool(comps), "the worker rebuilds the action dict by enumerate(agents)", construct="action dict in worker")
    # the list passed to the worker is the parent's self.agents
    init = repo.fn(AV, "AsyncPettingZooVecEnv.__init__")
    procs = [c for c in calls_in(init.node) if last_attr(c) == "Process"]
    ok = False
    for p in procs:
        args = get_kw(p, "args")
        params = worker.named_params
        if isinstance(args, ast.Tuple) and len(args.elts) == len(params):
            k = params.index("agents")
            # the worker's own index: the counter of the enumerate(...) loop that creates the processes
            counters = [lp.target.elts[0].id for lp in ast.walk(init.node) if isinstance(lp, ast.For) and isinstance(lp.iter, ast.Call)
                        and call_name(lp.iter) == "enumerate" and isinstance(lp.target, ast.Tuple) and isinstance(lp.target.elts[0], ast.Name)
                        and any(x is p for x in ast.walk(lp))]
            ok = dotted(args.elts[k]) == "self.agents" and isinstance(args.elts[params.index("index")], ast.Name) \
                and args.elts[params.index("index")].id in counters
    ck.ob("C12.5", init, procs[0] if procs else init.node, ok, "each worker receives the parent's agent list and its own index")
    # tuple positions: env.step -> transition -> process_transition -> send -> step_wait
    tbw = TermBuilder(repo, worker, cfg=cfgw, depth=0)
    step_ids = _branch_nodes(cfgw, worker, "step")
    pts = [c for c in calls_in(worker.node) if call_name(c) == "process_transition" and cfgw.node_of(c).id in step_ids]
    for c in pts:
        names = c.args[2] if len(c.args) > 2 else get_kw(c, "transition_names")
        want = ["observation", "reward", "terminated", "truncated", "info"]
        ok = isinstance(names, ast.List) and [const_value(e) for e in names.elts] == want
        ck.ob("C12.5", worker, c, ok, "placeholder kinds are listed in the order of env.step()'s return value")
        n = cfgw.node_of(c)
        t = tbw.term(c.args[0], n)
    sends = [c for c in calls_in(worker.node) if call_name(c) == "pipe.send" and cfgw.node_of(c).id in step_ids]
    for s in sends:
        payload = s.args[0].elts[0] if isinstance(s.args[0], ast.Tuple) else None
        n = cfgw.node_of(s)
        ok = False
        if isinstance(payload, ast.Tuple):
            pos = []
            for e in payload.elts:
                a = single_atom(tbw, tbw.term(e, n))
                pos.append(int(a.name) if a is not None and a.kind == "idx" and a.name.strip().isdigit() else None)
            ok = pos == [1, 2, 3, 4]
        ck.ob("C12.5", worker, s, ok, "the worker sends (reward, terminated, truncated, info) = positions 1..4 of the processed transition",
              detail=f"positions {pos if isinstance(payload, ast.Tuple) else '?'}")
    sw = repo.fn(AV, "AsyncPettingZooVecEnv.step_wait")
    cfgs = CFG(sw.node)
    rets = [n for n in cfgs.live_nodes() if n.kind == "stmt" and isinstance(n.ast, ast.Return) and isinstance(n.ast.value, ast.Tuple)]
    ck.floor("C12.5", len(rets), 1, "return tuple of step_wait")
    appends = {}
    for c in calls_in(sw.node):
        if last_attr(c) == "append" and isinstance(c.func.value, ast.Subscript) and c.args and isinstance(c.args[0], ast.Subscript):
            # <message>[k][agent], or <local>[agent] where the local is element k of the message (indexed or unpacked, in every definition)
            n = cfgs.node_of(c)
            ks = {const_value(v.slice) if isinstance(v, ast.Subscript) else None for _, v in _bound_values(cfgs, n, c.args[0].value)} if n is not None else set()
            if isinstance(c.args[0].value, ast.Subscript) or (len(ks) == 1 and None not in ks):
                appends[dotted(c.func.value.value)] = (ks.pop() if len(ks) == 1 else None, dotted(c.args[0].slice), dotted(c.func.value.slice))
    for r in rets:
        for k in (1, 2, 3):
            e = r.ast.value.elts[k]
            src = None
            for x in ast.walk(e):
                if isinstance(x, ast.Call) and last_attr(x) == "items":
                    src = dotted(x.func.value)
            j = appends.get(src, (None, None, None))
            ck.ob("C12.5", sw, e, j[0] == k - 1 and j[1] == j[2],
                  f"element {k} of step_wait's result is built from element {k - 1} of what the worker sent, per agent",
                  detail=f"built from `{src}` which collects env_step_return[{j[0]}][{j[1]}] under key {j[2]}")


# ------------------------------------------------------------------------------------------------
def _bound_values(cfg: CFG, at: Node, e: ast.AST, hops: int = 4) -> List[Tuple[Node, ast.AST]]:
    """(node, expression) for every expression `e` evaluated at `at` can stand for: a local whose reaching definitions are all plain bindings
    stands for the values bound (each evaluated at its definition, temporaries of temporaries included); anything else stands for itself."""
    if isinstance(e, ast.Name) and hops > 0:
        defs = cfg.defs_reaching(at, e.id)
        vals = [(d, cfg.value_of_def(d, e.id)) for d in defs if d.kind != "entry"]
        if defs and len(vals) == len(defs) and all(v is not None for _, v in vals):
            return [r for d, v in vals for r in _bound_values(cfg, d, v, hops - 1)]
    return [(at, e)]


def _slices(ck: Check, repo: Repo) -> None:
    wf = repo.fn(AV, "write_to_shared_memory")
    cfg = CFG(wf.node)
    tb = TermBuilder(repo, wf, cfg=cfg, depth=0)
    copies = [c for c in calls_in(wf.node) if call_name(c) == "np.copyto"]
    ck.floor("C12.6", len(copies), 3, "np.copyto sites in write_to_shared_memory", fn=wf)
    for c in copies:
        n = cfg.node_of(c)
        # the destination and the source may be held in temporaries: every expression they can stand for is judged where it is evaluated
        dsts = _bound_values(cfg, n, c.args[0])
        ok, detail = bool(dsts), ""
        for at, dst in dsts:
            okd = isinstance(dst, ast.Subscript) and isinstance(dst.slice, ast.Slice) and dst.slice.lower is not None and dst.slice.upper is not None
            if okd:
                lo, hi = tb.term(dst.slice.lower, at), tb.term(dst.slice.upper, at)
                size = hi - lo  # the length of the range written; must be the member's element count and the stride of `index`
                idx = tb.term(ast.Name(id="index", ctx=ast.Load()), at)
                okd = lo == idx * size
                sa = single_atom(tb, size)
                okp = sa is not None and sa.kind == "call" and "prod" in sa.key and "shape" in sa.key
                detail = f"[{lo.key()[:80]} : {hi.key()[:80]}], size = {size.key()[:80]}"
                okd = okd and okp
            ok = ok and okd
        ck.ob("C12.6", wf, c, ok, "environment i writes exactly the flat range [i*size, (i+1)*size) with size = prod(member shape)", detail=detail)
        src = c.args[1]
        srcs = _bound_values(cfg, n, src)
        okf = bool(srcs) and all(isinstance(v, ast.Call) and last_attr(v) == "flatten" for _, v in srcs)
        ck.ob("C12.6", wf, src, okf, "the observation is flattened (row-major) before it is written")
    ca = repo.fn(AV, "_create_memory_array")
    tb2 = TermBuilder(repo, ca, depth=0)
    rets = [n for n in tb2.cfg.live_nodes() if n.kind == "stmt" and isinstance(n.ast, ast.Return)]
    for r in rets:
        c = r.ast.value
        ok = isinstance(c, ast.Call) and len(c.args) == 2
        if ok:
            t = tb2.term(c.args[1], r)
            want = tb2.term(ast.parse("num_envs * int(np.prod(obs_space.shape))", mode="eval").body, r)
            ok = t == want and ast.unparse(c.args[0]) == "obs_space.dtype.char"
        ck.ob("C12.6", ca, r.ast, ok, "a member's shared array has num_envs * prod(shape) elements of the member's dtype")


_AV = "agilerl/vector/pz_async_vec_env.py"
_PV = "agilerl/vector/pz_vec_env.py"
_WR = "agilerl/wrappers/pettingzoo_wrappers.py"
_W_COND = "                if all(\n                    [\n                        term | trunc\n                        for term, trunc in zip(terminated.values(), truncated.values())\n                    ]\n                ):"
_WR_COND = "        if np.all(\n            [\n                term or trunc\n                for term, trunc in zip(terminations.values(), truncations.values())\n            ]\n        ):"
_PLAIN_COPY = "            np.copyto(\n                dest[index * size : (index + 1) * size],\n                np.asarray(obs, dtype=dtype).flatten(),\n            )\n"
_WRITE_BRANCHES = (
    "        if isinstance(agent_space, spaces.Dict):\n            for key, subspace in agent_space.spaces.items():\n"
    "                size = int(np.prod(subspace.shape))\n                dtype = subspace.dtype\n"
    "                dest = np.frombuffer(shared_memory[agent][key].get_obj(), dtype=dtype)\n"
    "                np.copyto(\n                    dest[index * size : (index + 1) * size],\n                    np.asarray(obs[key], dtype=dtype).flatten(),\n                )\n"
    "        elif isinstance(agent_space, spaces.Tuple):\n            for i, subspace in enumerate(agent_space.spaces):\n"
    "                size = int(np.prod(subspace.shape))\n                dtype = subspace.dtype\n"
    "                dest = np.frombuffer(shared_memory[agent][i].get_obj(), dtype=dtype)\n"
    "                np.copyto(\n                    dest[index * size : (index + 1) * size],\n                    np.asarray(obs[i], dtype=dtype).flatten(),\n                )\n"
    "        else:\n            size = int(np.prod(agent_space.shape))\n            dtype = agent_space.dtype\n"
    "            dest = np.frombuffer(shared_memory[agent].get_obj(), dtype=dtype)\n" + _PLAIN_COPY)
_WRITE_HELPER_CALLS = (
    "        if isinstance(agent_space, spaces.Dict):\n            for key, subspace in agent_space.spaces.items():\n"
    "                {h}(shared_memory[agent][key], index, subspace, obs[key])\n"
    "        elif isinstance(agent_space, spaces.Tuple):\n            for i, subspace in enumerate(agent_space.spaces):\n"
    "                {h}(shared_memory[agent][i], index, subspace, obs[i])\n"
    "        else:\n            {h}(shared_memory[agent], index, agent_space, obs)\n")
_WRITE_HELPER = (
    "\n\ndef {h}(member_array, index, member_space, member_value):\n    size = int(np.prod(member_space.shape))\n    dtype = member_space.dtype\n"
    "    dest = np.frombuffer(member_array.get_obj(), dtype=dtype)\n    slot = dest[index * size : {hi}]\n"
    "    flat_value = np.asarray(member_value, dtype=dtype).flatten()\n    np.copyto(slot, flat_value)\n")
_RESET_RETURN = (
    "        return (\n            (\n                {\n                    agent: deepcopy(self.observations[agent])\n"
    "                    for agent in self.observations.keys()\n                }\n                if self.copy\n                else self.observations\n"
    "            ),\n            infos,\n        )\n")
_KEPT_METHOD = "_observations_for_caller"  # a name the analyser knows (this line): the front end leaves calls of such a method in place
_COLLECT = (
    "        return self.{h}(), infos\n\n    def {h}(self):\n        if {test}:\n            return self.observations\n"
    "        return {{a: deepcopy(self.observations[a]) for a in self.observations.keys()}}\n")
_PARENT_GATHER = (
    "                for agent in self.agents:\n                    rewards[agent].append(env_step_return[0][agent])\n"
    "                    terminations[agent].append(env_step_return[1][agent])\n                    truncations[agent].append(env_step_return[2][agent])\n"
    "                infos = self._add_info(infos, env_step_return[3], env_idx)\n")
_PARENT_UNPACK = (
    "                {names} = env_step_return\n                for agent in self.agents:\n                    rewards[agent].append(env_rewards[agent])\n"
    "                    terminations[agent].append(env_terms[agent])\n                    truncations[agent].append(env_truncs[agent])\n"
    "                infos = self._add_info(infos, env_infos, env_idx)\n")
VARIANTS = [
    ("reset-seed-zero-unseeded", _AV, "        if seed is None:\n            seed = [None for _ in range(self.num_envs)]", "        if not seed:\n            seed = [None for _ in range(self.num_envs)]", "fire", "C12.8"),
    ("info-masks-share-one-array", _AV, "            array_mask = vector_infos.get(\n                f\"_{key}\", np.zeros(self.num_envs, dtype=np.bool_)\n            )", "            array_mask = vector_infos.get(f\"_{key}\", new_mask)", "fire", "C12.9"),
    ("reset-obs-dead", _AV, "                    observation, info = env.reset()\n                    transition = observation, reward, terminated, truncated, info\n", "                    observation, info = env.reset()\n", "fire", "C12.1"),
    ("placeholder-dead", _AV, "        transition_list[idx] = {", "        transition = {", "fire", "C12.2"),
    ("placeholder-ones-like", _AV, "                return -np.ones(agent_space.shape)", "                return -np.ones_like(agent_space.shape)", "fire", "C12.3"),
    ("worker-list-or", _AV, "                if all(\n                    [\n                        term | trunc\n                        for term, trunc in zip(terminated.values(), truncated.values())\n                    ]\n                ):",
     "                if all(list(terminated.values()) or list(truncated.values())):", "fire", "C12.4"),
    ("wrapper-term-only", _WR, "                term or trunc\n", "                term\n", "fire", "C12.4"),
    ("write-wrong-slot", _AV, "            np.copyto(\n                dest[index * size : (index + 1) * size],\n                np.asarray(obs, dtype=dtype).flatten(),",
     "            np.copyto(\n                dest[index * size : (index + 1) * size + 1],\n                np.asarray(obs, dtype=dtype).flatten(),", "fire", "C12"),
    ("tuple-branch-dtype", _AV, "                dtype = subspace.dtype\n                dest = np.frombuffer(shared_memory[agent][i].get_obj(), dtype=dtype)", "                dtype = np.float32\n                dest = np.frombuffer(shared_memory[agent][i].get_obj(), dtype=dtype)", "fire", "C12.3"),
    ("actions-agent-order", _PV, "            for possible_agent in self.agents:", "            for possible_agent in sorted(actions.keys()):", "fire", "C12.5"),
    ("worker-agent-order", _AV, "                    for idx, possible_agent in enumerate(agents)\n                }", "                    for idx, possible_agent in enumerate(sorted(agents))\n                }", "fire", "C12.5"),
    ("send-swapped", _AV, "pipe.send(((reward, terminated, truncated, info), True))", "pipe.send(((reward, truncated, terminated, info), True))", "fire", "C12.5"),
    ("parent-swapped", _AV, "terminations[agent].append(env_step_return[1][agent])", "terminations[agent].append(env_step_return[2][agent])", "fire", "C12.5"),
    ("buffer-too-short", _AV, "num_envs * int(np.prod(obs_space.shape))", "int(np.prod(obs_space.shape))", "fire", "C12.6"),
    ("reset-via-temp-ok", _AV, "                    observation, info = env.reset()\n                    transition = observation, reward, terminated, truncated, info\n",
     "                    new_obs, new_info = env.reset()\n                    transition = new_obs, reward, terminated, truncated, new_info\n", "silent", None),
    ("copy-mode-views", _AV, "                result[key] = reshaped.astype(subspace.dtype)", "                result[key] = reshaped.astype(subspace.dtype, copy=False)", "silent", None),
    ("wrapper-all-or-all", _WR, "        if np.all(\n            [\n                term or trunc\n                for term, trunc in zip(terminations.values(), truncations.values())\n            ]\n        ):",
     "        if all(terminations.values()) or all(truncations.values()):", "fire", "C12.4"),
    ("worker-or-form-ok", _AV, "                        term | trunc\n", "                        term or trunc\n", "silent", None),
    # the reset condition in a local helper (nested: a module-level helper with several statements behaves the same, the front end does not
    # inline it into the test of an `if`), held in a temporary, as an early return, as a conditional expression
    ("worker-condition-in-helper-ok", _AV, _W_COND,
     "                def _all_agents_done(term_flags, trunc_flags):\n                    agent_done = [a | b for a, b in zip(term_flags.values(), trunc_flags.values())]\n"
     "                    return all(agent_done)\n\n                if _all_agents_done(terminated, truncated):", "silent", None),
    ("worker-condition-in-closure-ok", _AV, _W_COND,
     "                def _all_agents_done():\n                    return all([a | b for a, b in zip(terminated.values(), truncated.values())])\n\n"
     "                if _all_agents_done():", "silent", None),
    ("worker-helper-list-or", _AV, _W_COND,
     "                def _all_agents_done(term_flags, trunc_flags):\n                    return all(list(term_flags.values()) or list(trunc_flags.values()))\n\n"
     "                if _all_agents_done(terminated, truncated):", "fire", "C12.4"),
    ("worker-helper-same-flag-twice", _AV, _W_COND,
     "                def _all_agents_done(term_flags, trunc_flags):\n                    agent_done = [a | b for a, b in zip(term_flags.values(), trunc_flags.values())]\n"
     "                    return all(agent_done)\n\n                if _all_agents_done(terminated, terminated):", "fire", "C12.4"),
    ("worker-helper-ignores-truncation", _AV, _W_COND,
     "                def _all_agents_done(term_flags, trunc_flags):\n                    agent_done = [a | b for a, b in zip(term_flags.values(), term_flags.values())]\n"
     "                    return all(agent_done)\n\n                if _all_agents_done(terminated, truncated):", "fire", "C12.4"),
    ("worker-condition-via-temp-ok", _AV, _W_COND,
     "                episode_over = all(\n                    [\n                        term | trunc\n"
     "                        for term, trunc in zip(terminated.values(), truncated.values())\n                    ]\n                )\n"
     "                if episode_over:", "silent", None),
    ("worker-temp-termination-only", _AV, _W_COND, "                episode_over = all(terminated.values())\n                if episode_over:", "fire", "C12.4"),
    ("wrapper-early-return-ok", _WR, _WR_COND + "\n            obs, infos = self.env.reset()\n",
     "        agent_done = [\n            term or trunc\n            for term, trunc in zip(terminations.values(), truncations.values())\n        ]\n"
     "        if not np.all(agent_done):\n            return obs, rewards, terminations, truncations, infos\n\n        obs, infos = self.env.reset()\n", "silent", None),
    ("wrapper-early-return-inverted", _WR, _WR_COND + "\n            obs, infos = self.env.reset()\n",
     "        agent_done = [\n            term or trunc\n            for term, trunc in zip(terminations.values(), truncations.values())\n        ]\n"
     "        if np.all(agent_done):\n            return obs, rewards, terminations, truncations, infos\n\n        obs, infos = self.env.reset()\n", "fire", "C12.4"),
    ("wrapper-conditional-expression-ok", _WR, _WR_COND + "\n            obs, infos = self.env.reset()\n",
     "        obs, infos = self.env.reset() if np.all(\n            [\n                term or trunc\n"
     "                for term, trunc in zip(terminations.values(), truncations.values())\n            ]\n        ) else (obs, infos)\n", "silent", None),
    ("wrapper-conditional-expression-inverted", _WR, _WR_COND + "\n            obs, infos = self.env.reset()\n",
     "        obs, infos = (obs, infos) if np.all(\n            [\n                term or trunc\n"
     "                for term, trunc in zip(terminations.values(), truncations.values())\n            ]\n        ) else self.env.reset()\n", "fire", "C12.4"),
    # write_to_shared_memory: one step spread over temporaries, the three blocks merged into one module-level helper
    ("write-plain-branch-temporaries-ok", _AV, _PLAIN_COPY,
     "            slot = dest[index * size : (index + 1) * size]\n            flat_value = np.asarray(obs, dtype=dtype).flatten()\n            np.copyto(slot, flat_value)\n",
     "silent", None),
    ("write-plain-temporary-wrong-slot", _AV, _PLAIN_COPY,
     "            slot = dest[index * size : (index + 1) * size + 1]\n            flat_value = np.asarray(obs, dtype=dtype).flatten()\n            np.copyto(slot, flat_value)\n",
     "fire", "C12.6"),
    ("write-plain-temporary-not-flattened", _AV, _PLAIN_COPY,
     "            slot = dest[index * size : (index + 1) * size]\n            flat_value = np.asarray(obs, dtype=dtype)\n            np.copyto(slot, flat_value)\n",
     "fire", "C12.6"),
    ("write-tuple-temporary-drops-dtype", _AV,
     "                np.copyto(\n                    dest[index * size : (index + 1) * size],\n                    np.asarray(obs[i], dtype=dtype).flatten(),\n                )\n",
     "                slot = dest[index * size : (index + 1) * size]\n                flat_value = np.asarray(obs[i]).flatten()\n                np.copyto(slot, flat_value)\n",
     "fire", "C12.3"),
    ("write-one-slot-helper-ok", _AV, _WRITE_BRANCHES, (_WRITE_HELPER_CALLS + _WRITE_HELPER).format(h="_put_member", hi="(index + 1) * size"), "silent", None),
    ("write-one-slot-helper-wrong-slot", _AV, _WRITE_BRANCHES, (_WRITE_HELPER_CALLS + _WRITE_HELPER).format(h="_put_member", hi="(index + 1) * size + 1"), "fire", "C12.6"),
    # reset_wait: copy / no-copy decided in a private method with an early return
    ("copy-mode-early-return-helper-ok", _AV, _RESET_RETURN, _COLLECT.format(h="_gather_batch", test="not self.copy"), "silent", None),
    ("copy-mode-early-return-helper-inverted", _AV, _RESET_RETURN, _COLLECT.format(h="_gather_batch", test="self.copy"), "fire", "C12.7"),
    ("copy-mode-early-return-method-not-inlined-ok", _AV, _RESET_RETURN, _COLLECT.format(h=_KEPT_METHOD, test="not self.copy"), "silent", None),
    ("copy-mode-early-return-method-not-inlined-inverted", _AV, _RESET_RETURN, _COLLECT.format(h=_KEPT_METHOD, test="self.copy"), "fire", "C12.7"),
    ("copy-mode-temporary-ok", _AV, _RESET_RETURN,
     "        if self.copy:\n            batch = {a: deepcopy(self.observations[a]) for a in self.observations.keys()}\n        else:\n            batch = self.observations\n"
     "        return batch, infos\n", "silent", None),
    ("copy-mode-temporary-undecided", _AV, _RESET_RETURN,
     "        batch = self.observations\n        if self.copy:\n            infos = dict(infos)\n        return batch, infos\n", "fire", "C12.7"),
    # step_wait: the worker's message unpacked once instead of indexed
    ("parent-unpack-ok", _AV, _PARENT_GATHER, _PARENT_UNPACK.format(names="env_rewards, env_terms, env_truncs, env_infos"), "silent", None),
    ("parent-unpack-swapped", _AV, _PARENT_GATHER, _PARENT_UNPACK.format(names="env_rewards, env_truncs, env_terms, env_infos"), "fire", "C12.5"),
]


# ------------------------------------------------------------------------------------------------ C12.7
def _reader_allocates(repo: Repo) -> Tuple[bool, str]:
    """Does Observations.__getitem__ return freshly allocated arrays in every branch?"""
    gi = repo.fn(AV, "Observations.__getitem__")
    casts = [c for c in calls_in(gi.node, nested=True) if last_attr(c) in ("astype", "copy") or call_name(c) in ("np.array", "np.copy")]
    if not casts:
        return False, "the reader returns reshaped views of the shared buffer"
    for c in casts:
        cp = get_kw(c, "copy")
        if last_attr(c) == "astype" and cp is not None and const_value(cp) is False:
            return False, f"`{short(c, 60)}` returns the shared buffer itself when the dtype already matches"
    resh = [c for c in calls_in(gi.node, nested=True) if last_attr(c) == "reshape"]
    return len(casts) >= len(resh) and len(resh) >= 3, "every branch converts with astype() (allocating)"


def _seeding(ck: Check, repo: Repo) -> None:
    from ..domains import conjuncts
    fn = repo.fn("agilerl.vector.pz_async_vec_env", "AsyncPettingZooVecEnv.reset_async")
    cfg = CFG(fn.node)
    # the statement that replaces an absent seed by a list of None: seed = [None ...]
    none_lists = [n for n in cfg.live_nodes() if n.kind == "stmt" and isinstance(n.ast, ast.Assign) and dotted(n.ast.targets[0]) == "seed"
                  and any(isinstance(x, ast.Constant) and x.value is None for x in ast.walk(n.ast.value))]
    ck.floor("C12.8", len(none_lists), 1, "replacement of an absent seed by per-environment None", fn=fn)
    for n in none_lists:
        atoms = [(ast.unparse(a), p) for g, pol, _ in cfg.guards_at(n) for a, p in conjuncts(g, pol)]
        ok = ("seed is None", True) in atoms or ("seed is not None", False) in atoms
        only_identity = all(t in ("seed is None", "seed is not None") for t, _ in atoms)
        ck.ob("C12.8", fn, n.ast, ok and only_identity, "reset_async: the unseeded branch is taken exactly when seed is None",
              detail=f"guards: {atoms}: a truthiness test also takes the branch for seed=0, so reset(seed=0) resets no environment with seed 0 + i", construct="reset_async: unseeded branch")
    adds = [n for n in cfg.live_nodes() if n.kind == "stmt" and isinstance(n.ast, ast.Assign) and dotted(n.ast.targets[0]) == "seed" and isinstance(n.ast.value, ast.ListComp)
            and any(isinstance(x, ast.BinOp) and isinstance(x.op, ast.Add) for x in ast.walk(n.ast.value.elt))]
    for n in adds:
        e = n.ast.value
        gen = e.generators[0]
        ok = isinstance(gen.iter, ast.Call) and call_name(gen.iter) == "range" and dotted(gen.iter.args[0]) == "self.num_envs" and isinstance(gen.target, ast.Name) \
            and any(isinstance(x, ast.Name) and x.id == gen.target.id for x in ast.walk(e.elt)) and any(isinstance(x, ast.Name) and x.id == "seed" for x in ast.walk(e.elt))
        ck.ob("C12.8", fn, n.ast, ok, "reset_async: an integer seed s becomes [s + i for i in range(num_envs)]", construct="reset_async: integer seed expansion")
    ck.floor("C12.8", len(adds), 1, "expansion of an integer seed", fn=fn)


def _info_masks(ck: Check, repo: Repo) -> None:
    fn = repo.fn("agilerl.vector.pz_async_vec_env", "AsyncPettingZooVecEnv._add_info")
    cfg = CFG(fn.node)
    loops = [l for l in walk_no_nested(fn.node) if isinstance(l, ast.For)]
    gets = [c for c in calls_in(fn.node) if last_attr(c) == "get" and len(c.args) == 2 and isinstance(c.args[0], ast.JoinedStr)]
    ck.floor("C12.9", len(gets), 1, "mask look-ups with a default in _add_info", fn=fn)
    for c in gets:
        d = c.args[1]
        node = cfg.node_of(c)
        fresh = isinstance(d, ast.Call) and call_name(d) in ("np.zeros", "np.zeros_like", "np.full", "numpy.zeros", "np.array")
        if isinstance(d, ast.Name) and node is not None:
            # a name is acceptable when every definition that reaches the look-up lies inside the loop over the keys (allocated per key)
            defs = cfg.defs_reaching(node, d.id)
            inside = [any(x is getattr(df, "ast", None) for l in loops for x in ast.walk(l)) for df in defs]
            fresh = bool(defs) and all(inside) and all(isinstance(cfg.value_of_def(df, d.id), ast.Call) for df in defs)
        ck.ob("C12.9", fn, c, fresh, "_add_info: the default mask of a new info key is allocated for that key",
              detail=f"default = `{short(d, 50)}`: keys first seen in the same call share one array, so setting the flag for one key sets it for the others — "
                     "`_key[i]` reads True (with a zero filler) for an environment that never reported that key",
              construct="_add_info: default mask of a new key")


def _copy_cases(sc: _Scope, at: Node, e: ast.AST, pol: Optional[bool] = None, hops: int = 4) -> List[Tuple[Optional[bool], ast.AST]]:
    """The expressions `e` (evaluated at `at`) can stand for, each with the value `self.copy` is known to have where the expression is
    evaluated (None: not known).  The mode is decided by a conditional expression on `self.copy`, by `if` tests on it that dominate the
    binding of a temporary (either polarity, early returns included: guards_at), or inside a local helper whose returned values are judged in
    the same way.  A mode once decided is kept for the temporaries the expression is built from."""
    known = {p for g, p, _ in sc.cfg.guards_at(at) if dotted(g) == "self.copy"}
    here = known.pop() if len(known) == 1 else None
    if pol is not None and here is not None and here != pol:
        return []  # bound under the other mode: not a value of this case
    pol = here if pol is None else pol
    if isinstance(e, ast.IfExp):
        g, p = e.test, True
        while isinstance(g, ast.UnaryOp) and isinstance(g.op, ast.Not):
            g, p = g.operand, not p
        if dotted(g) == "self.copy":
            if pol is not None:
                return _copy_cases(sc, at, e.body if pol == p else e.orelse, pol, hops)
            return _copy_cases(sc, at, e.body, p, hops) + _copy_cases(sc, at, e.orelse, not p, hops)
    if isinstance(e, ast.Name) and hops > 0:
        defs = sc.cfg.defs_reaching(at, e.id)
        vals = [(d, sc.cfg.value_of_def(d, e.id)) for d in defs if d.kind != "entry"]
        if defs and len(vals) == len(defs) and all(v is not None for _, v in vals):
            return [c for d, v in vals for c in _copy_cases(sc, d, v, pol, hops - 1)]
    inner = sc.helper_body(e, at) if hops > 0 else None
    if inner is not None and inner[0].returns():
        return [c for r, v in inner[0].returns() for c in _copy_cases(inner[0], r, v, pol, hops - 1)]
    return [(pol, e)]


def _copy_mode(ck: Check, repo: Repo) -> None:
    alloc, why = _reader_allocates(repo)
    ck.note("C12.7_reader_allocates", [alloc, why])
    for name in ("reset_wait", "step_wait"):
        fn = repo.fn(AV, f"AsyncPettingZooVecEnv.{name}")
        rets = [n for n in walk_no_nested(fn.node) if isinstance(n, ast.Return) and isinstance(n.value, ast.Tuple)]
        ck.floor("C12.7", len(rets), 1, f"return tuple of {name}")
        sc = _Scope(repo, fn, fn.node)
        for r in rets:
            obs = r.value.elts[0]
            at = sc.cfg.node_of(r.value)
            cases = _copy_cases(sc, at, obs) if at is not None else []
            if not cases or any(pol is None for pol, _ in cases) or {pol for pol, _ in cases} != {True, False}:
                ck.ob("C12.7", fn, obs, False, f"{name}: the observation element distinguishes copy and no-copy mode", detail=short(obs, 80))
                continue
            for pol, v in cases:
                if pol:
                    deep = any(isinstance(x, ast.Call) and call_name(x).split(".")[-1] in ("deepcopy", "copy") for x in ast.walk(v))
                    ck.ob("C12.7", fn, v, deep or alloc,
                          f"{name}: with copy=True the caller receives arrays that do not alias the shared observation buffer",
                          detail=("no deep copy at the return site and " + why + ": a previously returned observation changes when the environments step again"))
                else:
                    ck.ob("C12.7", fn, v, dotted(v) == "self.observations", f"{name}: with copy=False the live view is returned (documented)")
