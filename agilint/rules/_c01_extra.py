"""C01.10 – C01.13: state that clone() must carry over but that the generic copy machinery skips by construction.

copy_attributes() copies what inspect_attributes() lists and skips callables; EvolvableModule.clone() transfers weights through
state_dict().  Each of these filters is a way for state to silently stay behind:

* C01.10  attributes an algorithm updates from their own previous value must pass inspect_attributes' name filter (shared with C07.7);
* C01.11  a stateful helper object stored on an agent / wrapper must not be callable (copy_attributes skips `callable(attr)`);
* C01.12  every buffer a module registers is persistent, i.e. part of the state_dict() that clone() transfers;
* C01.13  hooks that clone() runs on the copy must not re-derive the weights of an ONLINE network from the copy's own policy
          (the parent still holds the snapshot of an earlier hook run); re-synchronising a target is the exception the property names.
"""
from __future__ import annotations

import ast
from dataclasses import replace
from typing import Dict, List, Set

from ..core import AnalysisError, Cls, Fn, Repo, call_name, calls_in, const_value, dotted, get_kw, last_attr, short, walk_no_nested
from ..registry import ALGOS, extract
from ..report import Check
from ..util import self_attr_stores


def run_extra(ck: Check, repo: Repo) -> None:
    _bookkeeping_shared(ck, repo)
    _callable_state(ck, repo)
    _persistent_buffers(ck, repo)
    _hooks_on_online_networks(ck, repo)
    ck.rule("C01.14", "the defaults EvolvableNetwork.__init__ derives for its encoder resolve identically on the constructor description that clone() uses "
                      "(a clone is built like its parent) — obligations of C04.8")
    description_idempotent(ck, repo, "C01.14")
    _copy_is_last(ck, repo)


# ------------------------------------------------------------------------------------------------ C01.15
def _copy_is_last(ck: Check, repo: Repo) -> None:
    """clone(): the attribute copy is the last thing that writes the copy.  The hooks clone() runs on the new agent (mutation_hook -> e.g. the
    bandits' init_params, which resets sigma_inv / theta_0), the optimizer re-creation and wrap / recompile all write attributes that
    copy_attributes then overwrites with the parent's values; run after it they would overwrite the parent's values instead."""
    from ..cfg import CFG
    ck.rule("C01.15", "clone() copies the parent's attributes after the hooks ran: no method that executes the registered hooks is called on the new agent after "
                      "copy_attributes, so state a hook initialises (bandit sigma_inv / theta_0) ends up with the parent's values")
    fn = repo.fn("agilerl.algorithms.core.base", "EvolvableAlgorithm.clone")
    cfg = CFG(fn.node)
    copies = [c for c in calls_in(fn.node) if last_attr(c) == "copy_attributes" and cfg.node_of(c) is not None]
    ck.floor("C01.15", len(copies), 1, "copy_attributes call", fn=fn)
    if not copies:
        return
    # the new agent: what copy_attributes receives as second argument / what clone() returns
    rets = [n for n in cfg.live_nodes() if n.kind == "stmt" and isinstance(n.ast, ast.Return) and isinstance(n.ast.value, ast.Name)]
    new_names = {n.ast.value.id for n in rets} | {c.args[1].id for c in copies if len(c.args) > 1 and isinstance(c.args[1], ast.Name)}
    # methods of the algorithm base class that execute the registered hooks: mutation_hook itself and whatever calls it / walks registry.hooks
    base = repo.cls("agilerl.algorithms.core.base", "EvolvableAlgorithm")
    runs_hooks: Set[str] = set()
    for name, m in base.methods.items():
        if name == "mutation_hook" or any(last_attr(c2) == "mutation_hook" for c2 in calls_in(m.node)) \
                or any(isinstance(x, ast.Attribute) and x.attr == "hooks" and isinstance(x.value, ast.Attribute) and x.value.attr == "registry" for x in ast.walk(m.node)):
            runs_hooks.add(m.name)
    runs_hooks.discard("clone")
    ck.floor("C01.15", len(runs_hooks), 1, "methods that run the registered hooks")
    for c in copies:
        cn = cfg.node_of(c)
        after = cfg.reachable_from(cn) - {cn.id}
        late: List[ast.AST] = []
        for n in cfg.live_nodes():
            if n.id not in after or n.ast is None:
                continue
            for x in n.walk():
                if isinstance(x, ast.Call):
                    f = x.func
                    if isinstance(f, ast.Attribute) and isinstance(f.value, ast.Name) and f.value.id in new_names and f.attr in runs_hooks:
                        late.append(x)
        ck.ob("C01.15", fn, late[0] if late else c, not late, "no hook runs on the new agent after the parent's attributes were copied onto it",
              detail=f"`{short(late[0], 70)}` runs after copy_attributes: what it initialises replaces the values just copied from the parent" if late else "",
              construct="EvolvableAlgorithm.clone: hooks on the new agent after copy_attributes")


# ------------------------------------------------------------------------------------------------ C01.10
def _bookkeeping_shared(ck: Check, repo: Repo) -> None:
    from . import c07
    ck.rule("C01.10", "running state survives a clone: every attribute an algorithm updates from its own previous value has a name that "
                      "inspect_attributes() keeps (copy_attributes copies exactly what inspect_attributes lists) — obligations of C07.7")
    sub = Check("C07", ck.tier, ck.repo_root)
    sub.known = []
    sub.rule("C07.7", "")
    c07._bookkeeping(sub, repo)
    taken = [replace(o, rule="C01.10") for o in sub.obs if o.rule == "C07.7"]
    if len(taken) < 5:
        raise AnalysisError(f"C01.10: only {len(taken)} obligations taken over from C07.7")
    ck.obs.extend(taken)


# ------------------------------------------------------------------------------------------------ C01.11
def _callable_classes(repo: Repo) -> Dict[str, Cls]:
    out = {}
    for m in repo.mods.values():
        for c in m.classes.values():
            if any("__call__" in k.methods for k in repo.mro(c)):
                out[c.name] = c
    return out


def _callable_state(ck: Check, repo: Repo) -> None:
    ck.rule("C01.11", "no stateful helper object stored as an attribute of an agent or agent wrapper is callable: copy_attributes skips every attribute "
                      "for which callable(attr) holds, so such an object (and the statistics it holds) would not be copied to the clone")
    cp = repo.fn("agilerl.algorithms.core.base", "EvolvableAlgorithm.copy_attributes")
    skips_callables = any(isinstance(c, ast.Call) and call_name(c) == "callable" for c in ast.walk(cp.node))
    ck.ob("C01.11", cp, cp.node, True, "copy_attributes' skip of callables is the filter this rule is about", detail=f"skip present: {skips_callables}",
          construct="copy_attributes: callable skip")
    callables = _callable_classes(repo)
    n = 0
    holders: List[Cls] = []
    for m in repo.mods.values():
        if not (m.name.startswith("agilerl.wrappers") or m.name.startswith("agilerl.algorithms")):
            continue
        holders += list(m.classes.values())
    for c in holders:
        for meth in c.methods.values():
            for attr, vals in self_attr_stores(meth).items():
                if attr.startswith("_"):
                    continue
                for v in vals:
                    built = [(x, x is v) for x in ast.walk(v) if isinstance(x, ast.Call) and isinstance(x.func, ast.Name) and x.func.id[:1].isupper()]
                    # one level through a builder of the repository: self.X = Cls.build(...) / build(...) whose return statements construct the object
                    if isinstance(v, ast.Call):
                        callee = None
                        nm = call_name(v)
                        if "." in nm:
                            owner = repo.resolve(meth.mod, nm.rsplit(".", 1)[0]) if not nm.startswith("self.") else c
                            if isinstance(owner, Cls):
                                for k in repo.mro(owner):
                                    if nm.rsplit(".", 1)[1] in k.methods:
                                        callee = k.methods[nm.rsplit(".", 1)[1]]
                                        break
                        else:
                            r0 = repo.resolve(meth.mod, nm)
                            callee = r0 if isinstance(r0, Fn) else None
                        if callee is not None:
                            for r in walk_no_nested(callee.node):
                                if isinstance(r, ast.Return) and isinstance(r.value, ast.Call) and isinstance(r.value.func, ast.Name) and r.value.func.id[:1].isupper():
                                    built.append((r.value, True))
                    for b, is_direct in built:
                        tgt = repo.resolve(meth.mod, b.func.id)
                        if not isinstance(tgt, Cls):
                            continue
                        # torch modules are handled through the registry / evolvable attributes, not through copy_attributes
                        if any(k.name in ("Module", "EvolvableModule") for k in repo.mro(tgt)) or any(dotted(bb).endswith("Module") for bb in tgt.node.bases):
                            continue
                        # only objects that ARE the attribute value (directly, or as the elements of a dict / tuple display) matter
                        direct = is_direct
                        n += 1
                        bad = direct and skips_callables and tgt.name in callables
                        ck.ob("C01.11", meth, b, not bad, f"{c.name}.{attr}: the helper object `{tgt.name}` stored on the agent is copied by copy_attributes",
                              detail=f"`{tgt.name}` defines __call__, so callable(attr) is true and copy_attributes skips it: the clone keeps the freshly constructed "
                                     f"`{attr}` (e.g. running observation statistics at mean 0 / var 1) and acts differently from its parent",
                              construct=f"{c.name}.{attr} <- {tgt.name}(...)")
    ck.floor("C01.11", n, 2, "helper objects of repository classes stored on agents / wrappers")


# ------------------------------------------------------------------------------------------------ C01.12
def _persistent_buffers(ck: Check, repo: Repo) -> None:
    ck.rule("C01.12", "every buffer registered by the repository's modules is persistent: EvolvableModule.clone transfers state through state_dict(), "
                      "which leaves out buffers registered with persistent=False")
    n = 0
    for m in repo.mods.values():
        if not (m.name.startswith("agilerl.modules") or m.name.startswith("agilerl.networks")):
            continue
        for c in m.classes.values():
            for meth in c.methods.values():
                for call in calls_in(meth.node, nested=True):
                    if last_attr(call) != "register_buffer":
                        continue
                    n += 1
                    p = get_kw(call, "persistent", 2)
                    ok = p is None or const_value(p) is True
                    ck.ob("C01.12", meth, call, ok, f"{c.name}: buffer {short(call.args[0], 30) if call.args else '?'} is part of the state_dict",
                          detail="registered with persistent=False: clone() (and checkpoints) leave it behind, the copy keeps what its own constructor drew "
                                 "(e.g. NoisyLinear noise: parent and clone pick different training-mode actions and compute different updates)",
                          construct=f"{c.name}.{meth.name}: register_buffer({short(call.args[0], 30) if call.args else '?'})")
    ck.floor("C01.12", n, 3, "register_buffer calls in modules / networks")


# ------------------------------------------------------------------------------------------------ C01.13
def _hooks_on_online_networks(ck: Check, repo: Repo) -> None:
    ck.rule("C01.13", "hooks run by clone() on the copy do not re-derive the weights of an online (trained, non-target) network from the copy's policy: "
                      "the parent keeps the snapshot taken by an earlier hook run, so parent and copy would compute different values; "
                      "re-synchronising a target network is the exception the property allows")
    clone = repo.fn("agilerl.algorithms.core.base", "EvolvableAlgorithm.clone")
    runs_hooks = any(last_attr(c) == "mutation_hook" for c in calls_in(clone.node))
    ck.ob("C01.13", clone, clone.node, True, "clone() runs the registered mutation hooks on the copy", detail=f"hook call present: {runs_hooks}", construct="clone: hook call")
    n = 0
    for modname, cname in ALGOS:
        reg = extract(repo, modname, cname)
        shared = set(reg.shared_attrs())
        evals = set(reg.eval_attrs())
        for h in reg.hooks:
            m = reg.cls.methods.get(h.name)
            if m is None:
                continue
            # which networks receive weights in this hook: arguments of the repository's share / install helpers after the first (the source)
            receivers: Set[str] = set()
            for c in calls_in(m.node, nested=True):
                nm = call_name(c).split(".")[-1]
                if nm == "share_encoder_parameters" and len(c.args) >= 2:
                    receivers |= {dotted(a)[5:] for a in c.args[1:] if dotted(a).startswith("self.")}
                if nm == "to_module" and c.args and dotted(c.args[0]).startswith("self."):
                    receivers.add(dotted(c.args[0])[5:].split(".")[0])
                if nm == "load_state_dict" and dotted(c.func.value).startswith("self."):
                    receivers.add(dotted(c.func.value)[5:].split(".")[0])
            for r in sorted(receivers):
                n += 1
                online = r in evals and r not in shared
                ck.ob("C01.13", m, m.node, not (online and runs_hooks), f"{cname}.{h.name}: the network `{r}` whose weights the hook re-derives is a target / shadow network",
                      detail=f"`{r}` is an online network registered for training; {cname}.{h.name} (run by clone() on the copy) overwrites part of it with a fresh snapshot of the "
                             "copy's policy, while the parent still holds the snapshot of the last hook run before further learn steps: the copy's values and updates differ "
                             "from the parent's (DDPG(Box(4), Box(2)) with defaults, 4 learn steps, clone: critic outputs differ by 1.4e-3)",
                      construct=f"{cname}.{h.name} re-derives online network {r}")
    ck.floor("C01.13", n, 4, "networks receiving weights in registered hooks")


# ------------------------------------------------------------------------------------------------ C04.8 / C01.14
def description_idempotent(ck: Check, repo: Repo, rule: str) -> None:
    """EvolvableNetwork.__init__ derives a default for one config key from another key that may be absent; the encoder's own constructor fills the
    absent key with a non-None default, and the description used by clone() (encoder.net_config) contains the filled key.  The derivation must give
    the same result on the description as on the original config, otherwise every clone is built differently from its parent."""
    init = repo.fn("agilerl.networks.base", "EvolvableNetwork.__init__")
    # cfg[K2] = <name bound to cfg.get(K1)>  (no default in the .get)
    derived = []
    gets: Dict[str, ast.Call] = {}
    for a in walk_no_nested(init.node):
        if isinstance(a, ast.Assign) and isinstance(a.targets[0], ast.Name) and isinstance(a.value, ast.Call) and last_attr(a.value) == "get" and len(a.value.args) == 1 \
                and isinstance(const_value(a.value.args[0]), str):
            gets[a.targets[0].id] = a.value
    for a in walk_no_nested(init.node):
        if isinstance(a, ast.Assign) and isinstance(a.targets[0], ast.Subscript) and isinstance(const_value(a.targets[0].slice), str) and isinstance(a.value, ast.Name) \
                and a.value.id in gets and dotted(a.targets[0].value) == dotted(gets[a.value.id].func.value):
            derived.append((const_value(a.targets[0].slice), const_value(gets[a.value.id].args[0]), a))
    n = 0
    for k2, k1, site in derived:
        # encoder classes the default path can build, and the default they give to k1
        be = repo.fn("agilerl.networks.base", "EvolvableNetwork._build_encoder")
        seen_cls = set()
        for c in ast.walk(be.node):
            # every class the function mentions (called directly, or bound to a local that is called)
            if not (isinstance(c, ast.Name) and c.id[:1].isupper() and isinstance(c.ctx, ast.Load)):
                continue
            tgt = repo.resolve(be.mod, c.id)
            if not isinstance(tgt, Cls) or "__init__" not in tgt.methods or tgt.name in seen_cls:
                continue
            seen_cls.add(tgt.name)
            ctor = tgt.methods["__init__"].node
            args = ctor.args.posonlyargs + ctor.args.args
            defaults = dict(zip([x.arg for x in args[len(args) - len(ctor.args.defaults):]], ctor.args.defaults))
            defaults.update({x.arg: d for x, d in zip(ctor.args.kwonlyargs, ctor.args.kw_defaults) if d is not None})
            if k1 not in defaults:
                continue
            n += 1
            dflt = const_value(defaults[k1])
            ck.ob(rule, init, site, dflt is None,
                  f"EvolvableNetwork.__init__: `{k2}` derived from an absent `{k1}` resolves the same way on the description that clone() uses ({tgt.name})",
                  detail=f"`{k2}` is set to config.get('{k1}') — None when the key is absent — while {tgt.name} fills the absent `{k1}` with {dflt!r}; the description of the built "
                         f"encoder (net_config) contains {k1}={dflt!r} and {k2}=None, so a clone resolves {k2} to {dflt!r}: the parent's encoder ends in Identity, every clone's in "
                         f"{dflt} (DQN(Box(4), Discrete(2), net_config={{'encoder_config': {{'hidden_size': [8]}}}}).clone(): actor outputs differ by 0.098)",
                  construct=f"EvolvableNetwork.__init__: {k2} <- absent {k1} ({tgt.name})")
    ck.floor(rule, n, 1, "derived config defaults checked against the encoder constructors")
