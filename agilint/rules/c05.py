"""C05 — tournament selection keeps the fittest and builds a well-formed generation.

D-order: a finite ordering algebra over argsort / argmax / [-1] / [0] / negation.
"""
from __future__ import annotations

import ast
from dataclasses import dataclass
from typing import Dict, List, Optional, Tuple

from ..cfg import CFG, Node
from ..core import AnalysisError, Cls, Fn, Repo, call_name, calls_in, const_value, dotted, get_kw, last_attr, short, walk_no_nested
from ..report import Check
from ..terms import Poly, TermBuilder, single_atom

TOUR = "agilerl.hpo.tournament"


@dataclass(frozen=True)
class Ord:
    kind: str  # vals | perm | rank | idx | pos | unknown
    sign: int = 1  # +1: larger = fitter ; for perm: ascending in fitness when +1
    which: str = ""  # best | worst (idx/pos)
    over: str = ""  # what the values / positions range over
    why: str = ""

    def __str__(self) -> str:
        if self.kind in ("idx", "pos"):
            return f"{self.kind}({self.which} of {self.over})"
        if self.kind == "unknown":
            return f"unknown[{self.why}]"
        return f"{self.kind}({'+' if self.sign > 0 else '-'}, over {self.over})"


class OrdEval:
    def __init__(self, cfg: CFG, seeds: Dict[str, Ord]):
        self.cfg = cfg
        self.seeds = seeds

    def ev(self, e: ast.AST, at: Node, depth: int = 0) -> Ord:
        if depth > 12:
            return Ord("unknown", why="depth")
        if isinstance(e, ast.Name):
            if e.id in self.seeds:
                return self.seeds[e.id]
            defs = self.cfg.defs_reaching(at, e.id)
            vals = []
            for d in defs:
                v = self.cfg.value_of_def(d, e.id)
                if v is None:
                    return Ord("unknown", why=f"{e.id} not a plain binding")
                vals.append(self.ev(v, d, depth + 1))
            if vals and all(v == vals[0] for v in vals):
                return vals[0]
            return Ord("unknown", why=f"{e.id}: {len(vals)} definitions disagree")
        if isinstance(e, ast.UnaryOp) and isinstance(e.op, ast.USub):
            o = self.ev(e.operand, at, depth + 1)
            if o.kind in ("vals", "rank"):
                return Ord(o.kind, -o.sign, over=o.over)
            return Ord("unknown", why="negation of " + str(o))
        if isinstance(e, ast.Call):
            cn = call_name(e)
            la = last_attr(e)
            if cn in ("int", "np.asarray", "np.array", "list", "float") and e.args:
                return self.ev(e.args[0], at, depth + 1)
            if cn in ("np.argsort", "numpy.argsort") and e.args:
                o = self.ev(e.args[0], at, depth + 1)
                return self._argsort(o)
            if isinstance(e.func, ast.Attribute) and la == "argsort" and not cn.startswith(("np.", "numpy.")):
                o = self.ev(e.func.value, at, depth + 1)
                return self._argsort(o)
            if cn in ("np.argmax", "np.argmin", "numpy.argmax", "numpy.argmin") and e.args:
                o = self.ev(e.args[0], at, depth + 1)
                mx = cn.endswith("argmax")
                if o.kind in ("vals", "rank"):
                    best = (o.sign > 0) == mx
                    return Ord("pos", which="best" if best else "worst", over=o.over)
                return Ord("unknown", why=f"{cn} of {o}")
            if isinstance(e.func, ast.Attribute) and la in ("argmax", "argmin"):
                o = self.ev(e.func.value, at, depth + 1)
                if o.kind in ("vals", "rank"):
                    best = (o.sign > 0) == (la == "argmax")
                    return Ord("pos", which="best" if best else "worst", over=o.over)
            if cn in ("sorted",):
                return Ord("unknown", why="sorted() not modelled")
            return Ord("unknown", why=f"call {short(e, 50)}")
        if isinstance(e, ast.ListComp):
            # [f(x) for x in seq]: values over seq when the element is a fitness expression / lookup into values
            g = e.generators[0]
            if len(e.generators) == 1:
                elt = e.elt
                if isinstance(elt, ast.Subscript) and isinstance(elt.slice, ast.Name) and isinstance(g.target, ast.Name) and elt.slice.id == g.target.id:
                    base = self.ev(elt.value, at, depth + 1)
                    if base.kind in ("vals", "rank"):
                        return Ord(base.kind, base.sign, over=f"positions of {ast.unparse(g.iter)}")
                return Ord("unknown", why="list comprehension " + short(e, 60))
        if isinstance(e, ast.Subscript):
            base = self.ev(e.value, at, depth + 1)
            k = const_value(e.slice) if isinstance(e.slice, (ast.Constant, ast.UnaryOp)) else None
            if base.kind == "perm" and k in (-1, 0):
                last = k == -1
                best = (base.sign > 0) == last
                return Ord("idx", which="best" if best else "worst", over=base.over)
            if base.kind == "perm" and isinstance(e.slice, ast.Slice) and e.slice.step is not None and const_value(e.slice.step) == -1 and e.slice.lower is None and e.slice.upper is None:
                return Ord("perm", -base.sign, over=base.over)
            # seq[pos(best of positions of seq)] -> the best element's *value* in seq
            idx = self.ev(e.slice, at, depth + 1) if isinstance(e.slice, ast.expr) and not isinstance(e.slice, (ast.Slice, ast.Constant)) else None
            if idx is not None and idx.kind == "pos" and idx.over == f"positions of {ast.unparse(e.value)}":
                return Ord("idx", which=idx.which, over=f"elements drawn in {ast.unparse(e.value)}")
            return Ord("unknown", why=f"subscript {short(e, 50)} of {base}")
        return Ord("unknown", why=type(e).__name__)

    @staticmethod
    def _argsort(o: Ord) -> Ord:
        if o.kind == "vals":
            return Ord("perm", o.sign, over=o.over)
        if o.kind == "perm":
            return Ord("rank", o.sign, over=o.over)
        if o.kind == "rank":
            return Ord("perm", o.sign, over=o.over)
        return Ord("unknown", why=f"argsort of {o}")


def run(ck: Check, repo: Repo) -> None:
    # "every other member is a faithful copy": the structural conditions of a faithful copy are the C01 obligations; they are taken over here
    # (the nested Check is run first because it resets the per-run pattern environments; findings already recorded under C01 are reported there only)
    from dataclasses import replace
    from . import c01
    sub = Check("C01", ck.tier, ck.repo_root)
    c01.run(sub, repo)
    ck.rule("C05.7", "the members of the new population are faithful copies: every structural condition of a faithful, independent clone holds "
                     "(all obligations of the C01 check, shared; open C01 findings are reported under C01 only)")
    taken = [replace(o, rule="C05.7") for o in sub.obs if o.status != "known"]
    if len(taken) < 60:
        raise AnalysisError(f"C05.7: only {len(taken)} obligations taken over from C01")
    ck.obs.extend(taken)
    ck.not_decided += ["equality of the copies' outputs as numbers (C01's not-decided list applies)", "behaviour under ties beyond 'one of the maxima'", "the random draws themselves"]
    ck.trusted += ["numpy: argsort is ascending; argsort of a permutation is its inverse (ranks); argmax returns the position of a maximum"]
    ck.rule("C05.1", "the elite is the arg-max of the mean of the last eval_loop scores (ordering algebra over argsort/argmax/[-1])")
    ck.rule("C05.2", "a tournament draws tournament_size indices from [0, population) and returns the best-ranked of the drawn indices")
    ck.rule("C05.3", "the new population has exactly population_size members on both branches (path count)")
    ck.rule("C05.4", "every non-elite member gets a fresh index: a counter started at the maximum existing index and incremented before each use")
    ck.rule("C05.5", "with elitism the elite is the first member of the new population")
    ck.rule("C05.6", "the parent of each member is the tournament winner of that iteration, looked up in the old population")
    cls = repo.cls(TOUR, "TournamentSelection")
    eli, tour, sel = cls.methods["_elitism"], cls.methods["_tournament"], cls.methods["select"]
    # ---- C05.1
    ecfg = CFG(eli.node)
    # the fitness vector: mean of the last eval_loop scores per individual, in population order
    # the fitness vector: a list comprehension over the population, or an empty list filled by one append per member
    fit_name = None
    elt = None
    it_src = None
    tgt_name = None
    site = eli.node
    lf = [n for n in ecfg.live_nodes() if n.kind == "stmt" and isinstance(n.ast, ast.Assign) and isinstance(n.ast.value, ast.ListComp)
          and "fitness" in ast.unparse(n.ast.value)]
    if len(lf) == 1:
        comp = lf[0].ast.value
        g = comp.generators[0]
        fit_name, elt, it_src, tgt_name, site = dotted(lf[0].ast.targets[0]), comp.elt, g.iter, dotted(g.target), comp
        plain = not g.ifs and len(comp.generators) == 1
    else:
        plain = False
        for L_ in [n for n in ecfg.live_nodes() if n.kind == "for" and dotted(n.ast.iter) == "population"]:
            apps_ = [c for c in calls_in(L_.ast) if last_attr(c) == "append" and "fitness" in ast.unparse(c)]
            if len(apps_) == 1 and isinstance(apps_[0].func.value, ast.Name):
                an = ecfg.node_of(apps_[0])
                first = ecfg.node_of(L_.ast.body[0])
                inits = [d for d in ecfg.defs_reaching(L_, apps_[0].func.value.id) if not any(x is d.stmt for x in ast.walk(L_.ast))]
                if len(inits) == 1 and isinstance(ecfg.value_of_def(inits[0], apps_[0].func.value.id), ast.List) and first is not None and ecfg.postdominates(an, first):
                    fit_name, it_src, tgt_name, site = apps_[0].func.value.id, L_.ast.iter, dotted(L_.ast.target), apps_[0]
                    plain = not ecfg.guards_at(an)
                    # inline single-use locals of the element expression
                    elt = apps_[0].args[0]
                    for _ in range(3):
                        for nm in [x for x in ast.walk(elt) if isinstance(x, ast.Name) and isinstance(x.ctx, ast.Load)]:
                            ds = [d for d in ecfg.defs_reaching(an, nm.id) if any(x is d.stmt for x in ast.walk(L_.ast)) and d.kind == "stmt"]
                            if len(ds) == 1 and ecfg.value_of_def(ds[0], nm.id) is not None and nm.id != tgt_name:
                                class _R(ast.NodeTransformer):
                                    def visit_Name(self, node, _id=nm.id, _v=ecfg.value_of_def(ds[0], nm.id)):
                                        return _v if node.id == _id and isinstance(node.ctx, ast.Load) else node
                                import copy as _c
                                elt = _R().visit(_c.deepcopy(elt))
    ck.ob("C05.1", eli, site, fit_name is not None, "one score per member is collected into a fitness vector", construct="fitness vector in _elitism")
    if fit_name is None:
        raise AnalysisError("_elitism: fitness vector not found")
    ok = dotted(it_src) == "population" and plain
    ck.ob("C05.1", eli, site, ok, "one score per member of the population, in population order")
    okm = isinstance(elt, ast.Call) and call_name(elt) in ("np.mean", "numpy.mean") and len(elt.args) == 1
    sl = elt.args[0] if okm else None
    oks = isinstance(sl, ast.Subscript) and dotted(sl.value) == f"{tgt_name}.fitness" and isinstance(sl.slice, ast.Slice) and sl.slice.upper is None \
        and sl.slice.step is None and isinstance(sl.slice.lower, ast.UnaryOp) and isinstance(sl.slice.lower.op, ast.USub) and dotted(sl.slice.lower.operand) == "self.eval_loop"
    ck.ob("C05.1", eli, elt, okm and oks, "the score is the mean of the member's last eval_loop fitness entries (suffix slice [-eval_loop:])",
          detail=f"element: {short(elt, 100)} — a start index computed as len - eval_loop goes negative for histories shorter than the window and wraps around")
    ev = OrdEval(ecfg, {fit_name: Ord("vals", 1, over="population")})
    rets = [n for n in ecfg.live_nodes() if n.kind == "stmt" and isinstance(n.ast, ast.Return)]
    ck.ob("C05.1", eli, eli.node, len(rets) == 1 and isinstance(rets[0].ast.value, ast.Tuple) and len(rets[0].ast.value.elts) == 3, "_elitism returns (elite, rank, max_id)",
          construct="return of _elitism")
    r = rets[0]
    elite_e, rank_e, maxid_e = r.ast.value.elts
    # elite = <model>.clone() with model = population[Idx(best)]
    src_model = None
    for d in ecfg.defs_reaching(r, dotted(elite_e)):
        v = ecfg.value_of_def(d, dotted(elite_e))
        if isinstance(v, ast.Call) and last_attr(v) == "clone":
            src_model = (v.func.value, d)
    ok = src_model is not None
    o = None
    if ok:
        m, dn = src_model
        sub = None
        if isinstance(m, ast.Name):
            for d in ecfg.defs_reaching(dn, m.id):
                sub = (ecfg.value_of_def(d, m.id), d)
        elif isinstance(m, ast.Subscript):
            sub = (m, dn)
        ok = sub is not None and isinstance(sub[0], ast.Subscript) and dotted(sub[0].value) == "population"
        if ok:
            o = ev.ev(sub[0].slice, sub[1])
            ok = o.kind in ("idx", "pos") and o.which == "best" and o.over == "population"
    ck.ob("C05.1", eli, elite_e, ok, "the elite is a clone of population[i] with i the index of the best score",
          detail=f"index evaluates to {o}" if o is not None else "elite is not `population[...] .clone()`")
    ro = ev.ev(rank_e, r)
    ck.ob("C05.2", eli, rank_e, ro.kind == "rank" and ro.sign > 0 and ro.over == "population",
          "the ranking handed to the tournaments is ascending in fitness (higher rank = fitter), one rank per member", detail=f"rank evaluates to {ro}")
    # ---- C05.2 tournament
    tcfg = CFG(tour.node)
    param = tour.named_params[1]
    tev = OrdEval(tcfg, {param: Ord("rank", ro.sign if ro.kind == "rank" else 1, over="population")})
    draws = [c for c in calls_in(tour.node) if call_name(c) in ("np.random.randint", "np.random.choice", "self.rng.integers", "np.random.default_rng().integers")]
    ck.ob("C05.2", tour, draws[0] if draws else tour.node, len(draws) == 1, "one draw of candidate indices per tournament", construct="draw in _tournament")
    if draws:
        c = draws[0]
        if call_name(c) == "np.random.randint":
            lo, hi = c.args[0], c.args[1] if len(c.args) > 1 else None
            size = get_kw(c, "size", 2)
            ok = const_value(lo) == 0 and hi is not None and ast.unparse(hi) == f"len({param})" and dotted(size) == "self.tournament_size"
        else:
            ok = False
        ck.ob("C05.2", tour, c, ok, "tournament_size indices are drawn uniformly from [0, len(population))", detail=short(c, 100))
    trets = [n for n in tcfg.live_nodes() if n.kind == "stmt" and isinstance(n.ast, ast.Return)]
    for tr in trets:
        o = tev.ev(tr.ast.value, tr)
        ck.ob("C05.2", tour, tr.ast, o.kind == "idx" and o.which == "best" and "drawn" in o.over,
              "the winner is the drawn index with the best rank", detail=f"returns {o}")
    # the values compared are those at the drawn indices
    comps = [n for n in walk_no_nested(tour.node) if isinstance(n, ast.ListComp)]
    for cmp_ in comps:
        gg = cmp_.generators[0]
        ok = isinstance(cmp_.elt, ast.Subscript) and dotted(cmp_.elt.value) == param and dotted(cmp_.elt.slice) == dotted(gg.target) and not gg.ifs
        ck.ob("C05.2", tour, cmp_, ok, "the compared values are the ranks at the drawn indices, in draw order")
    # ---- C05.3 size / C05.5 elite first / C05.4 indices / C05.6 parents
    scfg = CFG(sel.node)
    stb = TermBuilder(repo, sel, cfg=scfg, depth=0)
    # the new population: the local list that receives the appended members (checked below to be the one returned)
    recv = sorted({c.func.value.id for c in calls_in(sel.node) if last_attr(c) == "append" and isinstance(c.func, ast.Attribute)
                   and isinstance(c.func.value, ast.Name)})
    srets = [n for n in scfg.live_nodes() if n.kind == "stmt" and isinstance(n.ast, ast.Return)]
    returned = {dotted(n.ast.value.elts[1]) for n in srets if isinstance(n.ast.value, ast.Tuple) and len(n.ast.value.elts) == 2}
    newpop = next((x for x in recv if x in returned), recv[0] if len(recv) == 1 else None)
    apps = [(c, scfg.node_of(c)) for c in calls_in(sel.node) if newpop is not None and call_name(c) == f"{newpop}.append"]
    loops = [n for n in scfg.live_nodes() if n.kind == "for"]
    ck.ob("C05.3", sel, sel.node, len(loops) == 1 and len(apps) == 2, "members are added in one elite branch and one tournament loop", construct="append sites in select")
    if len(loops) == 1 and len(apps) == 2:
        L = loops[0]
        it = L.ast.iter
        ok = isinstance(it, ast.Call) and call_name(it) == "range" and len(it.args) == 1
        in_loop = [a for a in apps if any(x is a[0] for x in ast.walk(L.ast))]
        out_loop = [a for a in apps if a not in in_loop]
        ck.ob("C05.3", sel, it, ok and len(in_loop) == 1 and len(out_loop) == 1, "the tournament loop runs selection_size times with one append per iteration")
        if ok and in_loop and out_loop:
            # append in loop is unconditional within the body
            first = scfg.node_of(L.ast.body[0])
            ck.ob("C05.3", sel, in_loop[0][0], first is not None and scfg.postdominates(in_loop[0][1], first) and not [g for g, p, t in scfg.guards_at(in_loop[0][1])],
                  "the append inside the loop happens on every iteration")
            cnt = stb.term(it.args[0], L)
            alts = _phi_alts(stb, cnt)
            P = Poly.atom("attr:self.population_size")
            eg = [(g, pol) for g, pol, _ in scfg.guards_at(out_loop[0][1])]
            okg = len(eg) == 1 and dotted(eg[0][0]) == "self.elitism" and eg[0][1]
            ck.ob("C05.5", sel, out_loop[0][0], okg, "the elite is added exactly when elitism is on")
            want = {(P - Poly.const(1)).key(), P.key()}
            ck.ob("C05.3", sel, it, {a.key() for a in alts} == want,
                  "selection_size is population_size - 1 with elitism and population_size without: the total is population_size on both branches",
                  detail=f"loop count alternatives: {[a.key() for a in alts]}")
            # which alternative belongs to which branch
            sz_defs = [n for n in scfg.live_nodes() if n.kind == "stmt" and isinstance(n.ast, ast.Assign) and dotted(n.ast.targets[0]) == dotted(it.args[0])]
            for d in sz_defs:
                gs = [(dotted(g), pol) for g, pol, _ in scfg.guards_at(d)]
                t = stb.term(d.ast.value, d)
                with_elite = ("self.elitism", True) in gs
                ck.ob("C05.3", sel, d.ast, t == (P - Poly.const(1) if with_elite else P), f"selection_size on the {'elitism' if with_elite else 'no-elitism'} branch")
            # elite first
            ck.ob("C05.5", sel, out_loop[0][0], scfg.dominates(out_loop[0][1], L) or out_loop[0][1].lineno < L.lineno and L.id in scfg.reachable_from(out_loop[0][1]),
                  "the elite is appended before any tournament winner (first position)")
            ea = out_loop[0][0].args[0]
            ok = isinstance(ea, ast.Call) and last_attr(ea) == "clone" and isinstance(ea.func, ast.Attribute) \
                and _from_elitism(scfg, out_loop[0][1], ea.func.value) == 0
            ck.ob("C05.5", sel, ea, ok, "the first member is a clone of the elite returned by _elitism")
            if ok:
                idx_arg = get_kw(ea, "index", 0)
                ck.ob("C05.5", sel, ea, idx_arg is None, "the elite's copy keeps the elite's index (carried unchanged)")
            # C05.4 fresh indices
            ca = in_loop[0][0].args[0]
            cn = in_loop[0][1]
            clone_call = None
            if isinstance(ca, ast.Name):
                for d in scfg.defs_reaching(cn, ca.id):
                    v = scfg.value_of_def(d, ca.id)
                    if isinstance(v, ast.Call) and last_attr(v) == "clone":
                        clone_call = (v, d)
            elif isinstance(ca, ast.Call) and last_attr(ca) == "clone":
                clone_call = (ca, cn)
            ck.ob("C05.4", sel, ca, clone_call is not None, "tournament members are clones", construct="member clone in select loop")
            if clone_call is not None:
                v, dn = clone_call
                ia = get_kw(v, "index", 0)
                ok = isinstance(ia, ast.Name)
                detail = ""
                if ok:
                    incs = [n for n in scfg.live_nodes() if n.kind == "stmt" and isinstance(n.ast, ast.AugAssign) and dotted(n.ast.target) == ia.id
                            and isinstance(n.ast.op, ast.Add) and const_value(n.ast.value) == 1 and any(x is n.ast for x in ast.walk(L.ast))]
                    ok = len(incs) == 1 and scfg.dominates(incs[0], dn)
                    detail = f"increments in loop: {len(incs)}"
                    # initial value = max index of the old population (from _elitism)
                    init_defs = [d for d in scfg.defs_reaching(L, ia.id) if not any(x is d.stmt for x in ast.walk(L.ast))]
                    oki = len(init_defs) == 1 and "self._elitism(population)" in ast.unparse(init_defs[0].ast)
                    ck.ob("C05.4", sel, ia, oki, "the index counter starts from the value returned by _elitism")
                ck.ob("C05.4", sel, v, ok, "the counter is incremented exactly once per iteration, before it is used as the new member's index", detail=detail)
                # C05.6 parent
                pv = v.func.value
                pe = None
                if isinstance(pv, ast.Name):
                    for d in scfg.defs_reaching(dn, pv.id):
                        pe = scfg.value_of_def(d, pv.id)
                        pd_ = d
                ok = isinstance(pe, ast.Subscript) and dotted(pe.value) == "population" and isinstance(pe.slice, ast.Call) and call_name(pe.slice) == "self._tournament" \
                    and any(x is pd_.stmt for x in ast.walk(L.ast))
                ck.ob("C05.6", sel, pe if pe is not None else v, ok, "the parent is population[winner of a tournament run in this iteration]")
                if ok:
                    a0 = pe.slice.args[0]
                    src = [scfg.value_of_def(d, dotted(a0)) for d in scfg.defs_reaching(pd_, dotted(a0))]
                    okr = bool(src) and all(s is not None and "self._elitism(population)" in ast.unparse(s) for s in src)
                    # position 1 of the tuple
                    ck.ob("C05.6", sel, a0, okr and _tuple_pos(scfg, pd_, dotted(a0)) == 1, "the tournament runs on the ranking computed by _elitism for this population")
    # max_id is the maximum existing index
    mx = [n for n in ecfg.live_nodes() if n.kind == "stmt" and isinstance(n.ast, ast.Assign) and dotted(n.ast.targets[0]) == dotted(maxid_e)]
    ok = len(mx) == 1 and isinstance(mx[0].ast.value, ast.Call) and call_name(mx[0].ast.value) == "max"
    if ok:
        a = mx[0].ast.value.args[0]
        ok = isinstance(a, (ast.ListComp, ast.GeneratorExp)) and dotted(a.generators[0].iter) == "population" and isinstance(a.elt, ast.Attribute) and a.elt.attr == "index" and not a.generators[0].ifs
    ck.ob("C05.4", eli, mx[0].ast if mx else eli.node, ok, "max_id is the maximum index over the whole old population")
    ok = len(srets) == 1 and isinstance(srets[0].ast.value, ast.Tuple) and len(srets[0].ast.value.elts) == 2
    if ok:
        e0, e1 = srets[0].ast.value.elts
        ok = _from_elitism(scfg, srets[0], e0) == 0 and newpop is not None and dotted(e1) == newpop
    ck.ob("C05.3", sel, srets[0].ast if srets else sel.node, ok, "select returns (elite, new population)")
    # tournament_selection_and_mutation wires select -> mutation
    tsm = repo.fn("agilerl.utils.utils", "tournament_selection_and_mutation")
    tc = CFG(tsm.node)
    selc = [c for c in calls_in(tsm.node) if last_attr(c) == "select" and "tournament" in ast.unparse(c.func)]
    mutc = [c for c in calls_in(tsm.node) if last_attr(c) == "mutation" and isinstance(c.func, ast.Attribute)]
    ck.ob("C05.6", tsm, tsm.node, len(selc) >= 1 and len(selc) == len(mutc), "every selection is followed by a mutation of its result", construct="select/mutation pairs")
    for sc in selc:
        sn = tc.node_of(sc)
        names = [k for k, _ in tc.defs_at(sn)]
        partner = [m for m in mutc if tc.node_of(m) is not None and tc.dominates(sn, tc.node_of(m)) and tc.guards_at(tc.node_of(m)) == tc.guards_at(sn)]
        ok = len(names) == 2 and dotted(sc.args[0]) == "population" and len(partner) == 1 and dotted(partner[0].args[0]) == names[1] \
            and sn in tc.defs_reaching(tc.node_of(partner[0]), names[1])
        ck.ob("C05.6", tsm, sc, ok, "the training loops mutate the population returned by select (second element) for the current population")
        if ok:
            mn = tc.node_of(partner[0])
            outn = [k for k, _ in tc.defs_at(mn)]
            ck.ob("C05.6", tsm, partner[0], outn == ["population"], "the mutated population replaces the old one")
    rets = [n for n in tc.live_nodes() if n.kind == "stmt" and isinstance(n.ast, ast.Return)]
    ck.ob("C05.6", tsm, rets[0].ast if rets else tsm.node, bool(rets) and all(dotted(r.ast.value) == "population" for r in rets), "the new population is returned")
    _clone_applies_index(ck, repo)


def _clone_applies_index(ck: Check, repo: Repo) -> None:
    """select() hands the fresh index to clone(index=...): every clone implementation a population member can have applies it to the
    object it returns (the algorithm base class) or forwards it (the agent wrapper)."""
    base = repo.fn("agilerl.algorithms.core.base", "EvolvableAlgorithm.clone")
    ip = _index_param(base)
    cfg = CFG(base.node)
    rets = [n for n in cfg.live_nodes() if n.kind == "stmt" and isinstance(n.ast, ast.Return)]
    rname = dotted(rets[0].ast.value) if len(rets) == 1 and rets[0].ast.value is not None else None
    sets = [n for n in cfg.live_nodes() if n.kind == "stmt" and isinstance(n.ast, ast.Assign) and len(n.ast.targets) == 1
            and isinstance(n.ast.targets[0], ast.Attribute) and n.ast.targets[0].attr in ("index", "_index")]
    ok = ip is not None and rname is not None and len(sets) == 1
    detail = f"index parameter {ip}, returned {rname}, {len(sets)} index assignments"
    if ok:
        st = sets[0]
        gs = cfg.guards_at(st)
        # the only condition is `index is not None` (so a given index is always applied)
        okg = all(pol and isinstance(g, ast.Compare) and dotted(g.left) == ip and len(g.ops) == 1 and isinstance(g.ops[0], ast.IsNot)
                  and isinstance(g.comparators[0], ast.Constant) and g.comparators[0].value is None for g, pol, _ in gs) and len(gs) <= 1
        ok = dotted(st.ast.targets[0].value) == rname and dotted(st.ast.value) == ip and okg \
            and {d.id for d in cfg.defs_reaching(st, rname)} == {d.id for d in cfg.defs_reaching(rets[0], rname)}
        detail = f"`{short(st.ast, 60)}` under {[ast.unparse(g) for g, _, _ in gs]}"
        # ... and nothing copies the parent's index over it afterwards (copy_attributes carries _index)
        later = [c for c in calls_in(base.node) if last_attr(c) in ("copy_attributes", "__dict__.update") and cfg.node_of(c) is not None
                 and cfg.node_of(c).id in cfg.reachable_from(st) and cfg.node_of(c) is not st]
        ck.ob("C05.4", base, later[0] if later else st.ast, not later, "the index given to clone() is applied after the parent's attributes were copied (not overwritten by them)",
              construct="EvolvableAlgorithm.clone: order of copy_attributes and the index assignment")
    ck.ob("C05.4", base, sets[0].ast if sets else base.node, ok, "clone(index) returns an object that carries the given index whenever one is given", detail=detail,
          construct="EvolvableAlgorithm.clone: index applied")
    w = repo.fn("agilerl.wrappers.agent", "AgentWrapper.clone")
    wp = _index_param(w)
    inner = [c for c in calls_in(w.node) if call_name(c) == "self.agent.clone"]
    okw = wp is not None and len(inner) == 1
    if okw:
        a = get_kw(inner[0], "index", 0)
        okw = a is not None and dotted(a) == wp and not [n for n in CFG(w.node).live_nodes() if n.kind == "stmt" and wp in [k for k, _ in CFG(w.node).defs_at(n)]]
    ck.ob("C05.4", w, inner[0] if inner else w.node, okw, "a wrapped member forwards the index it is given to the wrapped agent's clone()",
          detail=short(inner[0], 80) if inner else "no self.agent.clone call", construct="AgentWrapper.clone: index forwarded")


def _index_param(fn: Fn) -> Optional[str]:
    """the parameter that select() fills: keyword `index`, else the first parameter after self."""
    ps = [p for p in fn.params if p != "self"]
    return "index" if "index" in ps else (ps[0] if ps else None)


def _phi_alts(tb: TermBuilder, p: Poly) -> List[Poly]:
    from ..terms import expand_phi

    return expand_phi(tb, p)


def _from_elitism(cfg: CFG, at: Node, e: ast.AST) -> Optional[int]:
    """Position in the tuple returned by self._elitism(population) that the local `e` holds at node `at`
    (None when e is not a local bound only by unpacking that call)."""
    if not isinstance(e, ast.Name) or at is None:
        return None
    pos = set()
    for d in cfg.defs_reaching(at, e.id):
        s = d.ast
        if not (d.kind == "stmt" and isinstance(s, ast.Assign) and len(s.targets) == 1 and isinstance(s.targets[0], ast.Tuple)
                and isinstance(s.value, ast.Call) and call_name(s.value) == "self._elitism"
                and [dotted(a) for a in s.value.args] == ["population"] and not s.value.keywords):
            return None
        hit = [i for i, t in enumerate(s.targets[0].elts) if dotted(t) == e.id]
        if len(hit) != 1:
            return None
        pos.add(hit[0])
    return pos.pop() if len(pos) == 1 else None


def _tuple_pos(cfg: CFG, at: Node, name: str) -> Optional[int]:
    for d in cfg.defs_reaching(at, name):
        s = d.ast
        if isinstance(s, ast.Assign) and isinstance(s.targets[0], ast.Tuple):
            for i, t in enumerate(s.targets[0].elts):
                if dotted(t) == name:
                    return i
    return None


_TF = "agilerl/hpo/tournament.py"
VARIANTS = [
    ("elite-worst", _TF, "model = population[int(np.argsort(rank)[-1])]", "model = population[int(np.argsort(rank)[0])]", "fire", "C05.1"),
    ("wrapper-clone-drops-index", "agilerl/wrappers/agent.py", "agent_clone = self.agent.clone(index, wrap)", "agent_clone = self.agent.clone(wrap=wrap)", "fire", "C05.4"),
    ("wrapper-clone-index-by-keyword-ok", "agilerl/wrappers/agent.py", "agent_clone = self.agent.clone(index, wrap)", "agent_clone = self.agent.clone(wrap=wrap, index=index)", "silent", None),
    ("clone-index-before-copy-attributes", "agilerl/algorithms/core/base.py", "        clone = EvolvableAlgorithm.copy_attributes(self, clone)\n        if index is not None:\n            clone.index = index\n",
     "        if index is not None:\n            clone.index = index\n        clone = EvolvableAlgorithm.copy_attributes(self, clone)\n", "fire", "C05.4"),
    ("clone-index-only-when-truthy", "agilerl/algorithms/core/base.py", "        if index is not None:\n            clone.index = index\n", "        if index:\n            clone.index = index\n", "fire", "C05.4"),
    ("elite-argmax-ok", _TF, "model = population[int(np.argsort(rank)[-1])]", "model = population[int(np.argmax(last_fitness))]", "silent", None),
    ("elite-argmin", _TF, "model = population[int(np.argsort(rank)[-1])]", "model = population[int(np.argmin(last_fitness))]", "fire", "C05.1"),
    ("elite-neg-argsort-ok", _TF, "model = population[int(np.argsort(rank)[-1])]", "model = population[int(np.argsort(-rank)[0])]", "silent", None),
    ("mean-of-prefix", _TF, "np.mean(indi.fitness[-self.eval_loop :])", "np.mean(indi.fitness[: self.eval_loop])", "fire", "C05.1"),
    ("mean-of-all", _TF, "np.mean(indi.fitness[-self.eval_loop :])", "np.mean(indi.fitness)", "fire", "C05.1"),
    ("loop-form-ok", _TF, "        last_fitness = [np.mean(indi.fitness[-self.eval_loop :]) for indi in population]\n",
     "        last_fitness = []\n        for indi in population:\n            recent = indi.fitness[-self.eval_loop :]\n            last_fitness.append(np.mean(recent))\n", "silent", None),
    ("loop-form-len-minus", _TF, "        last_fitness = [np.mean(indi.fitness[-self.eval_loop :]) for indi in population]\n",
     "        last_fitness = []\n        for indi in population:\n            start = len(indi.fitness) - self.eval_loop\n            last_fitness.append(np.mean(indi.fitness[start:]))\n", "fire", "C05.1"),
    ("last-score-only", _TF, "np.mean(indi.fitness[-self.eval_loop :])", "indi.fitness[-1]", "fire", "C05.1"),
    ("rank-is-permutation", _TF, "rank = np.argsort(last_fitness).argsort()", "rank = np.argsort(last_fitness)", "fire", "C05"),
    ("tournament-argmin", _TF, "winner = selection[np.argmax(selection_values)]", "winner = selection[np.argmin(selection_values)]", "fire", "C05.2"),
    ("tournament-position-not-index", _TF, "winner = selection[np.argmax(selection_values)]", "winner = np.argmax(selection_values)", "fire", "C05.2"),
    ("tournament-range-short", _TF, "np.random.randint(0, len(fitness_values), size=self.tournament_size)", "np.random.randint(0, len(fitness_values) - 1, size=self.tournament_size)", "fire", "C05.2"),
    ("tournament-size-one", _TF, "np.random.randint(0, len(fitness_values), size=self.tournament_size)", "np.random.randint(0, len(fitness_values), size=1)", "fire", "C05.2"),
    ("size-no-elite-minus-one", _TF, "        else:\n            selection_size = self.population_size\n", "        else:\n            selection_size = self.population_size - 1\n", "fire", "C05.3"),
    ("size-elite-not-reduced", _TF, "            selection_size = self.population_size - 1\n", "            selection_size = self.population_size\n", "fire", "C05.3"),
    ("max-id-after-use", _TF, "            max_id += 1\n            actor_parent = population[self._tournament(rank)]\n            new_individual = actor_parent.clone(max_id, wrap=False)\n",
     "            actor_parent = population[self._tournament(rank)]\n            new_individual = actor_parent.clone(max_id, wrap=False)\n            max_id += 1\n", "fire", "C05.4"),
    ("max-id-from-first", _TF, "max_id = max([ind.index for ind in population])", "max_id = population[-1].index", "fire", "C05.4"),
    ("elite-appended-last", _TF, "        new_population = []\n        if self.elitism:  # keep top agent in population\n            new_population.append(elite.clone(wrap=False))\n            selection_size = self.population_size - 1\n        else:\n            selection_size = self.population_size\n",
     "        new_population = []\n        selection_size = self.population_size - 1 if self.elitism else self.population_size\n", "fire", "C05"),
    ("parent-from-new-pop", _TF, "actor_parent = population[self._tournament(rank)]", "actor_parent = population[self._tournament(rank) % len(population)]", "fire", "C05.6"),
    ("tournament-once", _TF, "        for idx in range(selection_size):\n            max_id += 1\n            actor_parent = population[self._tournament(rank)]\n",
     "        winner = self._tournament(rank)\n        for idx in range(selection_size):\n            max_id += 1\n            actor_parent = population[winner]\n", "fire", "C05.6"),
]
